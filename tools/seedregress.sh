#!/bin/bash
# usage: tools/seedregress.sh [PID ...]   re-runs the quick tier of each property's check against every stored seeded change
# (seeded/<PID>/<n>/patch.diff, applied to a scratch copy of /repo HEAD) and prints CAUGHT / ESCAPED per change.
# A seed stored under one property but belonging to another (meta.json "check_property") is run against that one.
cd "$(dirname "$0")/.."
pids=${@:-$(ls seeded)}
for pid in $pids; do
  for s in seeded/$pid/*/; do
    [ -f "$s/patch.diff" ] || continue
    if python3 -c "import json,sys; sys.exit(0 if 'neutralised' in json.load(open('$s/meta.json')) else 1)" 2>/dev/null; then
      echo "$pid $(basename $s) NEUTRALISED by a later repair (see meta.json), skipped"; continue
    fi
    cp=$(python3 -c "import json,sys; print(json.load(open('$s/meta.json')).get('check_property', json.load(open('$s/meta.json')).get('verification',{}).get('caught_by_check_of_property','$pid')))" 2>/dev/null || echo $pid)
    (res=$(MUT_LINES=40 tools/mutest.sh $s/patch.diff $cp ${TIER:-quick} 2>&1); rc=$(echo "$res" | grep -o 'exit=[0-9]*' | tail -1)
    case $rc in exit=1) v=CAUGHT;; exit=0) v=ESCAPED;; *) v="?? $rc";; esac
    echo "$pid $(basename $s) [$cp] $v $(echo "$res" | grep -m1 'witness:' | cut -c1-140)") &
    while [ $(jobs -r | wc -l) -ge ${JOBS:-3} ]; do sleep 0.3; done
  done
done
wait
