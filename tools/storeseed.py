#!/usr/bin/env python3
"""usage: storeseed.py <PID> <n> [strengthening note]  -- copies /tmp/seed-out/<PID>/<n> (after seedcheck.sh wrote result.txt) into seeded/"""
import json, os, shutil, re, sys
pid, k = sys.argv[1], sys.argv[2]
note = sys.argv[3] if len(sys.argv) > 3 else None
d = '/tmp/seed-out/%s/%s' % (pid, k)
dst = os.path.join(os.path.dirname(os.path.dirname(os.path.abspath(__file__))), 'seeded', pid, k)
os.makedirs(dst, exist_ok=True)
for f in ('patch.diff', 'demo.py', 'patch.original.diff'):
    if os.path.exists(os.path.join(d, f)):
        shutil.copy(os.path.join(d, f), dst)
meta = json.load(open(os.path.join(d, 'meta.json')))
res = open(os.path.join(d, 'result.txt')).read()
m = re.search(r'demo_clean=(\d).*demo_changed=(\d).*tests=\[([^\]]*)\].*check_quick=(\d)', res, re.S)
wit = [l.strip() for l in res.splitlines() if l.strip().startswith('witness:')]
first = None
if os.path.exists(os.path.join(d, 'result.first.txt')):
    f0 = open(os.path.join(d, 'result.first.txt')).read()
    m0 = re.search(r'check_quick=(\d)', f0)
    first = m0.group(1) if m0 else None
meta['verification'] = {
    'by': 'tools/seedcheck.sh on scratch copies of /repo HEAD (git archive + patch), not in /repo itself',
    'demo_exit_unchanged_tree': int(m.group(1)), 'demo_exit_with_change': int(m.group(2)),
    'repository_suite_with_change': m.group(3), 'check_quick_exit_with_change': int(m.group(4)),
    'first_witness_of_check': wit[0][:400] if wit else None,
    'caught_by_quick_tier': m.group(4) == '1',
    'missed_by_first_version_of_check': bool(note),
    'strengthening': note}
json.dump(meta, open(os.path.join(dst, 'meta.json'), 'w'), indent=1)
print('stored', dst, 'caught' if m.group(4) == '1' else 'MISSED')
