#!/bin/bash
# usage: tools/sweep.sh <tier> "<seeds>" [PID ...]   -- runs checks over several seeds, prints one verdict line per run
cd "$(dirname "$0")/.."
tier=$1; seeds=$2; shift 2
pids=${@:-$(python3 -c "import json;print(' '.join(c['property_id'] for c in json.load(open('MANIFEST.json'))['checks']))")}
for pid in $pids; do for s in $seeds; do
  t0=$(date +%s)
  out=$(VERIF_SEED=$s /venv/bin/python run_check.py $pid --tier $tier 2>/dev/null); rc=$?
  echo "$pid seed=$s tier=$tier exit=$rc $(( $(date +%s)-t0 ))s $(echo "$out" | grep -E 'VIOLATION|INCONCLUSIVE|witness' | head -3 | tr '\n' ' ' | cut -c1-400)"
done; done
