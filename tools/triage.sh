#!/bin/bash
# usage: tools/triage.sh [k ...]   runs tools/seedcheck.sh for every /tmp/seed-out/<PID>/<k> that has a patch and no result.txt yet
cd "$(dirname "$0")/.."
for d in /tmp/seed-out/*/*/; do
  [ -f "$d/patch.diff" ] && [ -f "$d/demo.py" ] && [ -f "$d/meta.json" ] || continue
  [ -f "$d/result.txt" ] && continue
  pid=$(basename $(dirname $d))
  cp=$(python3 -c "import json;print(json.load(open('$d/meta.json')).get('check_property','$pid'))" 2>/dev/null || echo $pid)
  (tools/seedcheck.sh $d $cp > $d/result.tmp 2>&1; mv $d/result.tmp $d/result.txt; echo "$pid $(basename $d): $(grep -o 'demo_clean=[0-9]*' $d/result.txt) $(grep -o 'demo_changed=[0-9]*' $d/result.txt) $(grep -o 'tests=\[[^]]*\]' $d/result.txt | cut -c1-40) $(grep -o 'check_quick=[0-9]*' $d/result.txt)") &
  while [ $(jobs -r | wc -l) -ge ${JOBS:-4} ]; do sleep 0.5; done
done
wait
