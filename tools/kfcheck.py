#!/usr/bin/env python3
"""Consistency of known_findings.json with /repo history: every fixed finding names a commit that is an ancestor of HEAD and
whose subject starts with 'fix:'; prints the fix commits of /repo that no finding refers to."""
import json, subprocess, os
HERE = os.path.dirname(os.path.dirname(os.path.abspath(__file__)))
d = json.load(open(os.path.join(HERE, 'known_findings.json')))
def git(*a):
    return subprocess.run(['git', '-C', '/repo'] + list(a), capture_output=True, text=True)
log = git('log', '--format=%h %s', '6993ff3..HEAD').stdout.strip().splitlines()
fixes = {l.split()[0]: l for l in log}
used = set()
bad = 0
for f in d['findings']:
    if f['status'] != 'fixed':
        continue
    c = f['commit']
    ok = git('merge-base', '--is-ancestor', c, 'HEAD').returncode == 0
    if not ok:
        print('NOT IN HISTORY:', f['id'], c, f['what'][:60]); bad += 1
    else:
        used.add(git('rev-parse', '--short', c).stdout.strip())
for h, l in fixes.items():
    if h not in used:
        print('fix commit without finding:', l)
print('%d fixed findings checked, %d bad; %d commits since the pinned snapshot' % (sum(1 for f in d['findings'] if f['status']=='fixed'), bad, len(log)))
