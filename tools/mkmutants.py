#!/usr/bin/env python3
"""Builds mutants/<name>.patch from mutants/table.py entries (pid, name, file, old, new) against /repo HEAD."""
import os, sys, difflib, subprocess, importlib.util
HERE = os.path.dirname(os.path.dirname(os.path.abspath(__file__)))
import glob
ALL = []
for tp in sorted(glob.glob(os.path.join(HERE, 'mutants', 'table*.py'))):
    spec = importlib.util.spec_from_file_location('table', tp)
    t = importlib.util.module_from_spec(spec); spec.loader.exec_module(t)
    ALL += list(t.MUTANTS)
only = set(sys.argv[1:])
bad = 0
for pid, name, path, old, new in ALL:
    if only and pid not in only:
        continue
    src = subprocess.run(['git', '-C', '/repo', 'show', 'HEAD:' + path], capture_output=True, text=True).stdout
    if src.count(old) != 1:
        print('!! %s %s: pattern occurs %d times' % (pid, name, src.count(old))); bad += 1; continue
    dst = src.replace(old, new)
    diff = ''.join(difflib.unified_diff(src.splitlines(True), dst.splitlines(True), 'a/' + path, 'b/' + path))
    open(os.path.join(HERE, 'mutants', '%s_%s.patch' % (pid, name)), 'w').write(diff)
print('%d mutant entries, %d bad' % (len(ALL), bad))
