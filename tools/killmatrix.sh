#!/bin/bash
# usage: tools/killmatrix.sh [PID ...]   runs every mutants/<PID>_*.patch against the quick tier of <PID>
cd "$(dirname "$0")/.."
pids=${@:-$(ls mutants/*.patch | sed 's#mutants/\(C[0-9]*\)_.*#\1#' | sort -u)}
for pid in $pids; do
  for p in mutants/${pid}_*.patch; do
    [ -f "$p" ] || continue
    (res=$(MUT_LINES=40 tools/mutest.sh $p $pid ${TIER:-quick} 2>&1); rc=$(echo "$res" | grep -o 'exit=[0-9]*' | tail -1)
    case $rc in exit=1) v=KILLED;; exit=0) v=SURVIVED;; *) v="?? $rc";; esac
    echo "$pid $(basename $p .patch) $v $(echo "$res" | grep -m1 'witness:' | cut -c1-150)") &
    while [ $(jobs -r | wc -l) -ge ${JOBS:-4} ]; do sleep 0.3; done
  done
done
wait
