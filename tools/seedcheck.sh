#!/bin/bash
# usage: tools/seedcheck.sh <seed-dir containing patch.diff demo.py meta.json> <PID> [tier]
# Confirms independently: patch applies; demo passes on the clean tree and fails with the change; repository suite still
# passes with the change; then runs the property's check against the changed copy (scratch copy under /tmp, removed afterwards).
set -u
dir=$(realpath "$1"); pid=$2; tier=${3:-quick}
d=$(mktemp -d /tmp/seedchk.XXXXXX); trap 'rm -rf "$d"' EXIT
mkdir -p "$d/clean" "$d/mut"
git -C /repo archive HEAD | tar -x -C "$d/clean"; cp /repo/pydl/version.py "$d/clean/pydl/"
cp -r "$d/clean/." "$d/mut/"
(cd "$d/mut" && patch -p1 -s < "$dir/patch.diff") || { echo "RESULT patch=FAILED"; exit 3; }
(cd "$d" && timeout 600 /venv/bin/python "$dir/demo.py" "$d/clean" >"$d/demo_clean.out" 2>&1); rc_clean=$?
(cd "$d" && timeout 600 /venv/bin/python "$dir/demo.py" "$d/mut" >"$d/demo_mut.out" 2>&1); rc_mut=$?
tests=$(cd "$d/mut" && timeout 900 /venv/bin/python -m pytest -q -p no:cacheprovider pydl 2>&1 | tail -1 | sed 's/\x1b\[[0-9;]*m//g')
cd "$(dirname "$0")/.."
cp evidence/$pid.json "$d/ev.bak" 2>/dev/null
out=$(VERIF_REPO=$d/mut /venv/bin/python run_check.py $pid --tier $tier 2>/dev/null); rc_check=$?
cp "$d/ev.bak" evidence/$pid.json 2>/dev/null
echo "RESULT dir=$1 demo_clean=$rc_clean($(tail -1 $d/demo_clean.out | cut -c1-80)) demo_changed=$rc_mut($(tail -1 $d/demo_mut.out | cut -c1-120)) tests=[$tests] check_$tier=$rc_check"
echo "$out" | grep -E "witness|VIOLATION|INCONCLUSIVE|HELD" | head -4 | cut -c1-300
