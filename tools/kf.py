#!/usr/bin/env python3
"""Maintains known_findings.json (never called by checks; the file is read-only at run time).
usage: kf.py add <id> <property[,property]> <status open|fixed> <mechanism> <commit|-> <what> [witness.json]
"""
import json, sys, os
HERE = os.path.dirname(os.path.dirname(os.path.abspath(__file__)))
P = os.path.join(HERE, 'known_findings.json')
d = json.load(open(P)) if os.path.exists(P) else {'format': 'findings[]: status fixed => record "fixed: property=<id> <commit> <what failed>", suppresses nothing, witness is re-run as a regression case; status open => violations whose classifier returns `mechanism` are reported as KNOWN-FINDING instead of VIOLATION', 'findings': []}
_, cmd, fid, props, status, mech, commit, what, *rest = sys.argv
props = props.split(',')
wit = json.load(open(rest[0])) if rest else None
if wit and 'case' in wit and ('fails' in wit or 'property' in wit):
    wit = wit['case']
e = {'id': fid, 'properties': props, 'status': status, 'mechanism': mech, 'commit': None if commit == '-' else commit, 'what': what,
     'record': ('fixed: property=%s %s %s' % (props[0], commit, what)) if status == 'fixed' else ('open: property=%s %s' % (props[0], what)),
     'witness': wit}
d['findings'] = [x for x in d['findings'] if x['id'] != fid] + [e]
json.dump(d, open(P, 'w'), indent=1)
print(e['record'])
