#!/usr/bin/env python3
"""Regenerates /verif/MANIFEST.json from the table below (keeps it schema-valid)."""
import json, os, glob
HERE = os.path.dirname(os.path.dirname(os.path.abspath(__file__)))
PY = '/venv/bin/python'

CHECKS = {
 'C04': dict(sec='2/C04', cat='exploration',
   text='Every generated pair of point lists (clusters at all declinations, RA seam, all-sky, list 2 wider than list 1, coincident points, threshold shells at m(1+-10^-u), and points placed 1e-9..1e-3 cell widths from the RA/Dec edges, padded bounds, seam cell and polar slice of the chunk grid recorded from the live call) is matched by the real spherematch as given, permuted, and with another chunk size; a brute-force long-double oracle checks completeness, exactly-once, soundness, distances, order and - for maxmatch>0 - cap and greedy maximality. A spatial hash over a continuous domain can only be sampled: exploration with adversarial placement and reach evidence.',
   note='Trusts numpy long double for the reference separations and the ambiguity band max(1e-9*m, 1e-11 deg); pairs inside the band are undecided by construction. Guided generators read the chunk geometry of the tree under test; replays store materialised coordinates.',
   tech='runtime monitoring: boundary recorder + brute-force reference oracle, geometry-guided generators from the recorded chunks instance, permutation/chunk-size metamorphic re-execution + buffer-reuse differential monitor at the function boundary (identity-keyed caches, result ownership)'),
 'C05': dict(sec='2/C05', cat='exploration',
   text='Every generated point list (chains, serpentines and rings crossing many chunks, RA 0/360 and the poles, clumps hugging the edges and corners of the recorded chunk grid, polar caps, all-sky scatter, coincident and two-point inputs, grids clamped at +-90) is grouped by the real spheregroup as given, permuted and with another chunk size; a long-double union-find oracle checks that ingroup is exactly the friends-of-friends partition numbered by first member and that multgroup/firstgroup/nextgroup describe the same partition (bounded walks). All 45750 placements of 2-4 points on a 5x5 lattice at a chunk corner, on the seam and at Dec 89 are enumerated in the thorough tier; outside the lattice this is sampling.',
   note='Trusts numpy long double for separations and the band max(1e-9*L, 1e-11 deg) (a case is undecided only if the band changes the partition); the lattice sub-space is exhaustive for L = 0.1 deg, default chunk size and the three sites only.',
   tech='runtime monitoring: boundary recorder + union-find reference oracle, mutual-consistency checker for the four arrays, geometry-guided and bounded-exhaustive generators'),
 'C16': dict(sec='2/C16', cat='exploration',
   text='Every readspec call on generated survey trees is compared cell by cell with the value rebuilt from the request and a unique-id code (file, HDU, fibre, pixel) stored in every number of the tree, over scrambled/repeated multi-plate requests, all calling conventions, three ways of locating files incl. a decoy tree, and every spec_append call (direct or inside readspec) is checked against a placement model (shape, offsets, zeros elsewhere, ids conserved, inputs untouched). Sampling of the request/tree space with adversarial placement and reach evidence.',
   note='Trusts astropy.io.fits writing/reading, numpy fancy indexing, the id code in vlib/gen/survey_tree.py and the request expansion written from the docstring; align=True, znum=, plates > 9999 are not covered.',
   tech='runtime monitoring: unique-id survey trees + decoy tree, reference request expansion, spec_append placement monitor + buffer-reuse differential monitor at the function boundary (identity-keyed caches, result ownership)'),
 'C19': dict(sec='2/C19', cat='exploration',
   text='airtovac/vactoair, sdssflux2ab and filter_thru are executed on generated inputs of every flavour the property names (float, numpy scalar, 0-d/1-d/2-d arrays in several layouts, scalar and array Quantity in A/nm/um/m; 5-band arrays incl. negative fluxes; flux images over in-band, out-of-band and noisy wavelength solutions given as image and as trace set, masks hiding NaN/inf) and every return value is checked against the property\'s relations (round trip <= 1e-6 A, unchanged below 2000 A, unit/shape/flavour agreement, unmodified arguments, one AB offset per band in all three forms, linearity, constant -> constant, bounds, exact mask independence, wset == waveimg) plus an independent weighted-mean model. Held on the executions observed.',
   note='Trusts numpy/long-double arithmetic and the check\'s own parser of the filter tables of the tree under test; wavelengths within 1e-9 of 2000 A are undecided for unit-converted input; fully masked traces and the value for a band without overlap are outside the asserted domain.',
   tech='runtime monitoring: boundary recorder + metamorphic/round-trip relations and reference-model oracle over generated inputs + buffer-reuse differential monitor at the function boundary (identity-keyed caches, result ownership)'),
 'C15': dict(sec='2/C15', cat='exploration',
   text='icontract contracts installed on the real HMF.astep/gstep/astepnn/gstepnn/normbase observe every factor update the real solve() performs (normal-equation residual per object/pixel, objective non-increase, unit rms, non-negativity, bitwise seed reproducibility, caller arrays untouched); computechi2 attributes are compared with a long-double QR reference, pcomp with an explicitly summed correlation/covariance matrix, pca_solve coefficients through a relative normal-equation residual on the returned eigenspectra. Contract evaluation counters are required > 0. A statement about the executions observed (rank-K+noise data, K <= 5, sizes <= 60x200, cond <= 1e6).',
   note='Trusts numpy long double, numpy.linalg.eigvalsh/svd used by the oracle, icontract 2.7.3 evaluating every installed condition, and the two monotonicity arguments stated in the evidence assumptions.',
   tech='runtime monitoring: icontract contracts on live HMF updates + reference-model oracles (long-double QR, explicit covariance) + seed-replay determinism + buffer-reuse differential monitor at the function boundary (identity-keyed caches, result ownership)'),
 'C20': dict(sec='2/C20', cat='fault_enumeration',
   text='Source-free failpoints: a clean run records every LINE event in the entry points\' own code objects (window_score; template_input, its body, template_metadata) and every PY_START of a directly called function; the run is then repeated with an exception raised from the sys.monitoring callback at the k-th line and at the k-th collaborator call (all k in the thorough tier, a stride in the quick tier) for every initial set/unset state of the touched variables, plus natural failures; after every run the full os.environ must equal the snapshot taken before and the os.putenv/os.unsetenv audit log may only name the touched variables. Complete over the recorded execution paths, not over all paths.',
   note='Trusts sys.monitoring exception injection and the audit hook; sdss_score is a stub collaborator; template_input runs on a synthetic survey tree; BaseException faults, faults inside the restoring statement itself and keyword-only lines (try:/else:/finally:, which execute nothing) are excluded.',
   tech='runtime monitoring: sys.monitoring failpoints (fault injection at every recorded line/call) + environment snapshot and audit-hook oracle'),
 'C11': dict(sec='2/C11', cat='exploration',
   text='combine1fiber is run on 1-D spectra and stacked 2-D exposures over every zero-weight pattern, output-grid relation (same, shifted, wider, narrower, coarser, finer, disjoint), aesthetics method, with and without objivar, float32/float64; shape, finiteness and ivar >= 0 are asserted on every call, the must-be-zero set is computed independently from the good-pixel pattern (one-directional, boundary band), non-zero single-spectrum ivar must equal np.interp of the input and stay below the local maximum; smooth noise-free inputs must be reproduced, constants preserved, (c*flux, ivar/c^2) scaled, and preprocess_spectra must move a narrow feature by log10(1+z). An audit hook turns any network access into a harness error.',
   note='Trusts numpy.interp/searchsorted for the reference zero set; SPPIXMASK bits pre-loaded from fixtures/maskbits.par; finalmask/indisp/skyflux paths and fill values at bad pixels are outside the property.',
   tech='runtime monitoring: boundary recorder + independent zero-set/interpolation oracle + metamorphic relations (identity, constant, scaling, de-redshift) + buffer-reuse differential monitor at the function boundary (identity-keyed caches, result ownership)'),
 'C12': dict(sec='2/C12', cat='exploration',
   text='Real membership, window-lookup, reader and set_use_caps calls run on generated polygon lists and index lists; every verdict outside a derived rounding band is compared with a long-double evaluation of the cap definition (a cap\'s own centre is always asserted), and the same list is pushed through all four storage formats (.ply, FITS raw/converted incl. the one-cap 3D layout, window_read from blist+bcaps) as real files, all answers having to agree with the reference. Held on the classes observed, each witnessed by a required counter.',
   note='Trusts numpy long double and vlib/refs/mangle_ref.py; astropy.io.fits as file writer; verdicts closer than 1e-9 (float32 caps 5e-5) in 1-x.p to a cap boundary are not asserted except a cap\'s own centre.',
   tech='runtime monitoring: boundary recorder + long-double reference oracle with ambiguity bands + four-format differential through real files + buffer-reuse differential monitor at the function boundary (identity-keyed caches, result ownership)'),
 'C13': dict(sec='2/C13', cat='exploration',
   text='Generated abscissae, fitting problems and trace sets (arrays/scalars/float32/integer-typed, 1-13 basis functions of all four families, weights over six decades with zero weights, fixed coefficients, inputfunc, 1-6 traces with and without the BOSS jump, FITS-style tables, near-integer grid ranges) are run through the real bases, func_fit, xy2traceset/TraceSet and traceset2xy; bases are compared with numpy.polynomial, fits with an SVD weighted least-squares solution plus a conditioning-independent normal-equation test, evaluations with an independent normalisation/jump model, grid sizes in exact rationals. Held on the executions observed.',
   note='Trusts numpy.polynomial Vandermonde recurrences and numpy.linalg.lstsq and the module docstrings for the split basis and the x-jump; one float dtype per call, non-negative weights, >= ncoeff+1 weighted points, design condition <= 3e4; stated ambiguity bands for the H(x) step and near-integer grid ranges.',
   tech='runtime monitoring: boundary recorder + reference-model oracles (numpy.polynomial, dense weighted lstsq) + zero-weight perturbation metamorphic check + buffer-reuse differential monitor at the function boundary (identity-keyed caches, result ownership)'),
 'C10': dict(sec='2/C10', cat='exploration',
   text='Each generated problem (polynomial/slow signal + noise, injected outliers, zero and negative weights, all breakpoint options, limits, maxiter 0-10, invvar=None, float32) is run as given, under a random permutation and with the non-positively weighted points deleted, and compared with an independent dense fit/reject/refit loop (mask exactly, curve within a conditioning-derived tolerance, number of fits equal); residuals within 1e-6 of a limit make a case undecided. A recorder on bspline.fit counts the refits the real loop performed.',
   note='Trusts numpy lstsq and the reference loop transcription of the documented procedure (cumulative rejection); well-supported problems only; cases where the fit itself drops a breakpoint are counted and excluded.',
   tech='runtime monitoring: boundary recorder + independent reference procedure + permutation/deletion metamorphic checks'),
 'C08': dict(sec='2/C08', cat='exploration',
   text='Every breakpoint option is driven with sorted/shuffled, clustered, duplicated, float32/float64 abscissae; the constructed knot vector is checked for monotonicity, coverage and padding, and value()/bsplvn()/mask are compared at data points, knots, midpoints and just-outside points with an independent Cox-de Boor recursion and with scipy BSpline, plus an exact order-permutation metamorphic check. Held on the constructions observed (one open finding: every-n with a single breakpoint).',
   note='Trusts the textbook recursion in vlib/refs/bspline_ref.py and scipy.interpolate.BSpline; values exactly on a discontinuity (breakpoint repeated more than order-1 times) are convention and not compared.',
   tech='runtime monitoring: boundary recorder + two independent reference evaluators + metamorphic order check + online value/knot oracle on the calls made by iterfit, combine1fiber and the repository suite (cross-workload) + buffer-reuse differential monitor at the function boundary (identity-keyed caches, result ownership)'),
 'C09': dict(sec='2/C09', cat='exploration',
   text='Well-supported fits are compared with dense weighted lstsq on an independently built design matrix (fitted values, chi-square, coefficients), with polynomial reproduction, zero-weight invariance (bit-identical) and linearity; the banded Cholesky pair is checked by dense reconstruction on random SPD matrices and must signal non-PD/non-finite input; ill-posed fits (gaps, empty segments, zero-weight runs, few points) must return a status code with finite coefficients and terminate under refitting. Counters prove maskpoints and the Cholesky fallback were actually entered.',
   note='Trusts numpy.linalg.lstsq/solve; well-posed problems use quasi-uniform knots; weights within 3 decades, or concentrated on one or two pixels as far as every coefficient stays at least twice above the fit\'s own screening level (conditioning assumptions stated in the evidence); status and mask must not depend on the data values (blank-data twin); long vectors (points x order up to 2**22) are generated from the seed at run time.',
   tech='runtime monitoring: boundary recorder + dense linear-algebra oracle + status/mask discipline monitor + buffer-reuse differential monitor at the function boundary (identity-keyed caches, result ownership)'),
 'C14': dict(sec='2/C14', cat='exploration',
   text='smooth, median, uniq and rebin are run on generated arrays (all widths, ties, constants, 1-3-D shapes, every expand/keep/shrink combination incl. float-fragile factors, integer and float dtypes) and compared element-wise with reference implementations written from the IDL definitions; shapes/dtypes exact, sample picks exact, integer interpolation within 1 of the exact rational value; refusals must be ValueError. Held on the calls observed (one open IDL-faithful finding for uniq with index on constant arrays).',
   note='Trusts vlib/refs/idl_builtins.py (independent re-implementation of the IDL rules) and exact integer arithmetic for rebin positions.',
   tech='runtime monitoring: boundary recorder + reference-implementation oracle over generated arrays + online smooth/median/uniq oracles on the calls made by bspline.action, iterfit, combine1fiber, djs_median and the repository suite (cross-workload) + buffer-reuse differential monitor at the function boundary (identity-keyed caches, result ownership)'),
 'C17': dict(sec='2/C17', cat='exploration',
   text='djs_reject is driven through 1-3-call histories with residuals planted at (1 +- 1e-8..1e-1) x every limit and compared point by point with a long-double reference (ambiguity band 1e-9), incl. grow clipping, sticky masks and qdone; djs_maskinterp vs brute-force nearest-good-neighbour interpolation on 1-3-D arrays/axes/unsorted x; aesthetics must not touch good pixels; reflecting djs_median vs a brute-force symmetric-reflection median; skymask vs bit tests on Python ints for int16/32/64/uint64 masks. 29 required counters show each deciding branch was reached.',
   note='Trusts numpy long double and the reference models in vlib/refs/pixels.py; grow applies around points rejected by a limit in the same call (IDL semantics); domain exclusions listed in the evidence assumptions.',
   tech='runtime monitoring: boundary recorder + element-wise reference-model oracle with ambiguity bands over call histories + online djs_reject oracle on the calls made by iterfit, xy2traceset and the repository suite (cross-workload) + buffer-reuse differential monitor at the function boundary (identity-keyed caches, result ownership)'),
 'C18': dict(sec='2/C18', cat='exploration',
   text='gcirc (three unit conventions, arrays/scalars), the astropy-registered ICRS<->SDSSMuNu transforms for every stripe 0-90 in both directions, and angles<->unit vectors are compared element-wise with an independent long-double model on constructed point pairs over 13 decades of separation incl. exact poles, seam, coincident and antipodal points; symmetry, isometry, round trip, great-circle and stripe-definition relations are asserted under conditioning-derived tolerances with >=100x margin. Sampling with reach evidence, not a proof over the sphere.',
   note='Trusts x87 long-double trig in vlib/refs/sphere.py (self-cross-checked against a second formula and the constructed separation in every case) and astropy SkyCoord machinery around the pydl transform functions.',
   tech='runtime monitoring: boundary recorder + long-double reference oracle + constructed-pair metamorphic relations + buffer-reuse differential monitor at the function boundary (identity-keyed caches, result ownership)'),
 'C01': dict(sec='2/C01', cat='exploration',
   text='Every generated table set (all supported column types, hostile strings, extreme numbers, zero-row tables, structure-name torture, headers, Table API, big-endian input) is written with the real writer and read back twice (returned object and fresh read); a table-set model checks names, order, dtypes, rows, bit-identical floats and header text, and unsupported column types must be refused without leaving a file. Held on the documents observed; coverage is sampling of an infinite input space with reach evidence of the writer/parser lines.',
   note='Trusts numpy bit views for float comparison and the stated exclusions of inexpressible texts (listed in the evidence assumptions).',
   tech='runtime monitoring: boundary recorder + reference-model (round-trip) oracle over generated documents'),
 'C02': dict(sec='2/C02', cat='exploration',
   text='A logical-document model is rendered in two independent admissible surface forms (19 layout freedoms incl. hostile trailing comments, CRLF, continuation, brace/quote spellings, legacy brackets, interleaving, commented-out typedefs) and parsed by the real reader from path, text and binary file objects in normal and raw mode; the parse must equal the model and the two renderings must agree (metamorphic). Held on the (document x layout) pairs observed, with counters showing each freedom was exercised.',
   note='Trusts the renderer to emit only forms the SDSS specification permits (domain notes in DESIGN C02 D / evidence assumptions).',
   tech='runtime monitoring: document-model oracle + metamorphic comparison over rendered files'),
 'C03': dict(sec='2/C03', cat='exploration',
   text='History checker: random operation sequences (append rows/pairs, empty append, write-copy, refused writes/appends, re-read normal/raw) run on the real object; after every step object == fresh read == model, earlier bytes are a prefix of the new file, refusals leave directory and object untouched, and an audit hook on open() forbids writing an existing file or appending to a missing one. Held on the histories observed.',
   note='Trusts the audit hook to see every io-layer open, and os.listdir/byte reads of the sandbox directory.',
   tech='runtime monitoring: history checker against an executable model + sys.addaudithook open() monitor'),
 'C07': dict(sec='2/C07', cat='exploration',
   text='Generated maskbits files (sparse bits incl. 0/31/32/62/63, aliases, comments) go through the real raw-mode yanny path into set_maskbits; ~40 queries per file are checked against the generating definition in Python ints (OR of 2^bit, ascending defined names, both round trips, case-insensitivity, alias equivalence, KeyError exactly when needed, existence-tuple shapes). Held on the files and queries observed.',
   note='Trusts the generated definition as ground truth; file content upper-case with one label per bit (property domain).',
   tech='runtime monitoring: boundary recorder + reference-model oracle over generated definition files + buffer-reuse differential monitor at the function boundary (identity-keyed caches, result ownership)'),
 'C06': dict(sec='2/C06', cat='exploration',
   text='Boundary recorder on sdss_objid/sdss_specobjid/unwrap_* with a big-int reference packer as online oracle: per-field exhaustive sweeps, all vN_M_P strings, sampled scalar calls, narrow dtypes, decimal-string IDs and rejection cases. Held-on-observed, not a proof: fields are swept one at a time with the others at their extremes, combinations are sampled.',
   note='Trusts the bit layout transcribed from the docstrings and numpy integer semantics; run2d strings with out-of-range components are outside the claim.',
   tech='runtime monitoring: boundary recorder + reference-model oracle over swept/sampled calls + buffer-reuse differential monitor at the function boundary (identity-keyed caches, result ownership)'),
}

def main():
    props = [json.loads(l)['id'] for l in open(os.path.join(HERE, 'properties.jsonl'))]
    na_path = os.path.join(HERE, 'tools', 'not_applicable.json')
    na = json.load(open(na_path)) if os.path.exists(na_path) else {}
    checks = []
    for pid in props:
        c = CHECKS.get(pid)
        if not c or not glob.glob(os.path.join(HERE, 'checks', pid.lower() + '_*.py')):
            continue
        checks.append({
            'property_id': pid,
            'quick_cmd': '%s run_check.py %s --tier quick' % (PY, pid),
            'thorough_cmd': '%s run_check.py %s --tier thorough' % (PY, pid),
            'evidence_file': 'evidence/%s.json' % pid,
            'replay_cmd_template': '%s run_check.py %s --replay {path}' % (PY, pid),
            'engine': 'pydl-runtime-monitor',
            'level_claimed': {'category': c['cat'], 'text': c['text'], 'design_ref': 'DESIGN.md section ' + c['sec']},
            'level_note': c['note'],
            'technique': c['tech'],
        })
    claimed = {c['property_id'] for c in checks}
    not_app = [{'property_id': p, 'reason': na.get(p, 'check not built yet in this session; runtime monitoring applies (see DESIGN.md) and the property will be claimed once its monitor exists')}
               for p in props if p not in claimed]
    hooks_commits_path = os.path.join(HERE, 'tools', 'hook_commits.json')
    m = {
        'version': 1,
        'setup_cmd': '%s -m pip install -q --no-index --find-links /opt/veriftools/wheels --target .deps icontract && %s -c "import sys; sys.path.insert(0, \'.deps\'); import icontract; print(icontract.__version__)"' % (PY, PY),
        'hooks': {
            'guard': 'PYDL_VERIF',
            'enable': 'no source hooks: monitors attach from outside (wrappers on module attributes, sys.monitoring, sys.addaudithook, icontract); checks import /repo working tree directly via sys.path',
            'baseline_off_cmd': 'cd /repo && /venv/bin/python -m pytest -ra -q -p no:cacheprovider --timeout=900 --continue-on-collection-errors',
            'source_commits': json.load(open(hooks_commits_path)) if os.path.exists(hooks_commits_path) else [],
            'add_only': True,
        },
        'engines': [{'name': 'pydl-runtime-monitor', 'path': 'run_check.py',
                     'serves_properties': sorted(claimed),
                     'kind_free_text': 'runtime monitoring: boundary recorders, reference-model oracles, history checkers, sys.monitoring reach monitors and failpoints, audit hooks, icontract contracts on real methods; sharded workloads over the real code'}],
        'checks': checks,
        'notes': 'Exit 0 held on observed / 1 VIOLATION / 2 INCONCLUSIVE (monitor not reached). known_findings.json lists repaired (fixed:) and open findings; see DESIGN.md.',
        'not_applicable': not_app,
    }
    json.dump(m, open(os.path.join(HERE, 'MANIFEST.json'), 'w'), indent=1)
    print('MANIFEST.json: %d checks, %d not_applicable' % (len(checks), len(not_app)))

if __name__ == '__main__':
    main()
