#!/usr/bin/env python3
"""Regenerates /verif/MANIFEST.json from the table below (keeps it schema-valid)."""
import json, os, glob
HERE = os.path.dirname(os.path.dirname(os.path.abspath(__file__)))
PY = '/venv/bin/python'

CHECKS = {
 'C01': dict(sec='2/C01', cat='exploration',
   text='Every generated table set (all supported column types, hostile strings, extreme numbers, zero-row tables, structure-name torture, headers, Table API, big-endian input) is written with the real writer and read back twice (returned object and fresh read); a table-set model checks names, order, dtypes, rows, bit-identical floats and header text, and unsupported column types must be refused without leaving a file. Held on the documents observed; coverage is sampling of an infinite input space with reach evidence of the writer/parser lines.',
   note='Trusts numpy bit views for float comparison and the stated exclusions of inexpressible texts (listed in the evidence assumptions).',
   tech='runtime monitoring: boundary recorder + reference-model (round-trip) oracle over generated documents'),
 'C02': dict(sec='2/C02', cat='exploration',
   text='A logical-document model is rendered in two independent admissible surface forms (19 layout freedoms incl. hostile trailing comments, CRLF, continuation, brace/quote spellings, legacy brackets, interleaving, commented-out typedefs) and parsed by the real reader from path, text and binary file objects in normal and raw mode; the parse must equal the model and the two renderings must agree (metamorphic). Held on the (document x layout) pairs observed, with counters showing each freedom was exercised.',
   note='Trusts the renderer to emit only forms the SDSS specification permits (domain notes in DESIGN C02 D / evidence assumptions).',
   tech='runtime monitoring: document-model oracle + metamorphic comparison over rendered files'),
 'C03': dict(sec='2/C03', cat='exploration',
   text='History checker: random operation sequences (append rows/pairs, empty append, write-copy, refused writes/appends, re-read normal/raw) run on the real object; after every step object == fresh read == model, earlier bytes are a prefix of the new file, refusals leave directory and object untouched, and an audit hook on open() forbids writing an existing file or appending to a missing one. Held on the histories observed.',
   note='Trusts the audit hook to see every io-layer open, and os.listdir/byte reads of the sandbox directory.',
   tech='runtime monitoring: history checker against an executable model + sys.addaudithook open() monitor'),
 'C07': dict(sec='2/C07', cat='exploration',
   text='Generated maskbits files (sparse bits incl. 0/31/32/62/63, aliases, comments) go through the real raw-mode yanny path into set_maskbits; ~40 queries per file are checked against the generating definition in Python ints (OR of 2^bit, ascending defined names, both round trips, case-insensitivity, alias equivalence, KeyError exactly when needed, existence-tuple shapes). Held on the files and queries observed.',
   note='Trusts the generated definition as ground truth; file content upper-case with one label per bit (property domain).',
   tech='runtime monitoring: boundary recorder + reference-model oracle over generated definition files'),
 'C06': dict(sec='2/C06', cat='exploration',
   text='Boundary recorder on sdss_objid/sdss_specobjid/unwrap_* with a big-int reference packer as online oracle: per-field exhaustive sweeps, all vN_M_P strings, sampled scalar calls, narrow dtypes, decimal-string IDs and rejection cases. Held-on-observed, not a proof: fields are swept one at a time with the others at their extremes, combinations are sampled.',
   note='Trusts the bit layout transcribed from the docstrings and numpy integer semantics; run2d strings with out-of-range components are outside the claim.',
   tech='runtime monitoring: boundary recorder + reference-model oracle over swept/sampled calls'),
}

def main():
    props = [json.loads(l)['id'] for l in open(os.path.join(HERE, 'properties.jsonl'))]
    na_path = os.path.join(HERE, 'tools', 'not_applicable.json')
    na = json.load(open(na_path)) if os.path.exists(na_path) else {}
    checks = []
    for pid in props:
        c = CHECKS.get(pid)
        if not c or not glob.glob(os.path.join(HERE, 'checks', pid.lower() + '_*.py')):
            continue
        checks.append({
            'property_id': pid,
            'quick_cmd': '%s run_check.py %s --tier quick' % (PY, pid),
            'thorough_cmd': '%s run_check.py %s --tier thorough' % (PY, pid),
            'evidence_file': 'evidence/%s.json' % pid,
            'replay_cmd_template': '%s run_check.py %s --replay {path}' % (PY, pid),
            'engine': 'pydl-runtime-monitor',
            'level_claimed': {'category': c['cat'], 'text': c['text'], 'design_ref': 'DESIGN.md section ' + c['sec']},
            'level_note': c['note'],
            'technique': c['tech'],
        })
    claimed = {c['property_id'] for c in checks}
    not_app = [{'property_id': p, 'reason': na.get(p, 'check not built yet in this session; runtime monitoring applies (see DESIGN.md) and the property will be claimed once its monitor exists')}
               for p in props if p not in claimed]
    hooks_commits_path = os.path.join(HERE, 'tools', 'hook_commits.json')
    m = {
        'version': 1,
        'setup_cmd': '%s -m pip install -q --no-index --find-links /opt/veriftools/wheels --target .deps icontract && %s -c "import sys; sys.path.insert(0, \'.deps\'); import icontract; print(icontract.__version__)"' % (PY, PY),
        'hooks': {
            'guard': 'PYDL_VERIF',
            'enable': 'no source hooks: monitors attach from outside (wrappers on module attributes, sys.monitoring, sys.addaudithook, icontract); checks import /repo working tree directly via sys.path',
            'baseline_off_cmd': 'cd /repo && /venv/bin/python -m pytest -ra -q -p no:cacheprovider --timeout=900 --continue-on-collection-errors',
            'source_commits': json.load(open(hooks_commits_path)) if os.path.exists(hooks_commits_path) else [],
            'add_only': True,
        },
        'engines': [{'name': 'pydl-runtime-monitor', 'path': 'run_check.py',
                     'serves_properties': sorted(claimed),
                     'kind_free_text': 'runtime monitoring: boundary recorders, reference-model oracles, history checkers, sys.monitoring reach monitors and failpoints, audit hooks, icontract contracts on real methods; sharded workloads over the real code'}],
        'checks': checks,
        'notes': 'Exit 0 held on observed / 1 VIOLATION / 2 INCONCLUSIVE (monitor not reached). known_findings.json lists repaired (fixed:) and open findings; see DESIGN.md.',
        'not_applicable': not_app,
    }
    json.dump(m, open(os.path.join(HERE, 'MANIFEST.json'), 'w'), indent=1)
    print('MANIFEST.json: %d checks, %d not_applicable' % (len(checks), len(not_app)))

if __name__ == '__main__':
    main()
