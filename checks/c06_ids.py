"""C06 - SDSS objID / specObjID packing is a bijection with the documented bit layout.

Events: calls of sdss_objid, sdss_specobjid, unwrap_objid, unwrap_specobjid (boundary recorder).
Oracle: big-int reference packer written from the docstring tables (vlib/refs/ids.py).
"""
import numpy as np
from vlib.harness import Check
from vlib.refs import ids as R

OBJ_FIELDS = ['skyversion', 'rerun', 'run', 'camcol', 'firstfield', 'field', 'objnum']
SPEC_FIELDS = ['plate', 'fiber', 'mjd', 'run2d', 'line']


class C06(Check):
    ID = 'C06'
    RULE = ('per-field exhaustive sweeps (every value of one field, the others at 0/min or at their maxima) '
            'through the array convention, sampled scalar calls, random tuples in int64 and the narrower signed '
            'dtypes FITS delivers, all vN_M_P strings encoding < 2^14, decimal-string IDs, every bound +-1, '
            '+-2^16 and negative values, mismatched lengths, line+index together.  Non-trivial: a tuple/array '
            'with at least one field at its maximum or in the upper half of its range (or a rejection case); '
            'distinct by hash of the materialised input.')
    ASSUMPTIONS = ['reference layout transcribed from the docstrings of sdss_objid / sdss_specobjid',
                   'out-of-range components inside a vN_M_P string are not asserted to raise (DESIGN C06 D)']
    QUICK_SHARDS = 4
    REQUIRED_COUNTERS = ('objid_calls_with_positional_optional_arguments', 'ids_in_batches_over_65535', 'unwrap_id_array_flavours', 'run2d_mixed_form_string_arrays', 'repeat_calls_same_objects', 'rejections_observed', 'length_mismatch_one', 'length_mismatch_plus1', 'length_mismatch_minus1')

    def setup(self):
        import pydl.pydlutils.sdss as S
        import pydl.photoop.photoobj as P
        self.S, self.P = S, P
        for n in ('sdss_objid', 'sdss_specobjid', 'unwrap_specobjid'):
            self.brd.attach(self.rec, S, n, every=3, own=True)
        self.brd.attach(self.rec, P, 'unwrap_objid', every=3, own=True)
        for n in ('sdss_objid', 'sdss_specobjid', 'unwrap_specobjid'):
            self.rec.wrap(S, n)
        self.rec.wrap(P, 'unwrap_objid')
        for f in (S.sdss_objid, S.sdss_specobjid, S.unwrap_specobjid, P.unwrap_objid):
            self.reach.add(f)

    def budget(self, tier):
        q = tier == 'quick'
        return {
            'objid_sweep': 14, 'spec_sweep': 10,
            'objid_random': 300 if q else 150000,
            'objid_scalar': 1500 if q else 600000,
            'objid_reject': 400 if q else 150000,
            'spec_random': 300 if q else 150000,
            'spec_scalar': 1500 if q else 600000,
            'spec_run2d_strings': 4 if q else 8,
            'spec_reject': 400 if q else 150000,
            'string_ids': 200 if q else 80000,
            'big_batch': 6 if q else 60,
        }

    # ---------------------------------------------------------------- generators
    def gen(self, cls, rng, i):
        if cls == 'objid_sweep':
            return {'kind': cls, 'field': OBJ_FIELDS[i % 7], 'others': 'max' if i >= 7 else 'min'}
        if cls == 'spec_sweep':
            return {'kind': cls, 'field': SPEC_FIELDS[i % 5], 'others': 'max' if i >= 5 else 'min'}
        if cls in ('objid_random', 'objid_scalar'):
            n = 1 if cls == 'objid_scalar' else rng.randint(1, 40)
            vals = {f: [self._pick(rng, *R.OBJ_RANGE[f]) for _ in range(n)] for f in OBJ_FIELDS}
            dt = 'int64'
            if cls == 'objid_random':
                dt = rng.choice(['int64', 'int64', 'int32', 'int16', 'mixed'])
            conv = rng.choice(['pyint', 'npscalar', 'pyint']) if cls == 'objid_scalar' else 'array'
            extras = rng.choice(['all', 'default', 'all'])
            if extras == 'default':
                vals['rerun'] = [301] * n
                vals['skyversion'] = [2] * n
                vals['firstfield'] = [0] * n
            return {'kind': cls, 'vals': vals, 'dtype': dt, 'conv': conv, 'extras': extras}
        if cls == 'objid_reject':
            vals = {f: self._pick(rng, *R.OBJ_RANGE[f]) for f in OBJ_FIELDS}
            mode = rng.choice(['range', 'range', 'range', 'length'])
            bad = rng.choice(OBJ_FIELDS)
            lo, hi = R.OBJ_RANGE[bad]
            off = rng.choice([1, 1, 2, 2**16, 2**20, rng.randint(1, 2**30)])
            badval = hi + off if rng.random() < 0.5 else lo - off
            return {'kind': cls, 'vals': vals, 'mode': mode, 'bad': bad, 'badval': badval,
                    'conv': rng.choice(['pyint', 'array', 'array3']), 'pos': rng.randint(0, 2)}
        if cls in ('spec_random', 'spec_scalar'):
            n = 1 if cls == 'spec_scalar' else rng.randint(1, 40)
            vals = {f: [self._pick(rng, *R.SPEC_RANGE[f]) for _ in range(n)] for f in SPEC_FIELDS}
            run2d_form = rng.choice(['int', 'str', 'intstr', 'mixstr'] if cls == 'spec_random' else ['int', 'str', 'intstr'])
            lineform = rng.choice(['none', 'line', 'index'])
            if lineform == 'none':
                vals['line'] = [0] * n
            dt = 'int64'
            if cls == 'spec_random':
                dt = rng.choice(['int64', 'int64', 'int32', 'narrow'])
            conv = rng.choice(['pyint', 'npscalar', 'pyint']) if cls == 'spec_scalar' else 'array'
            if conv == 'npscalar':
                # numpy scalars are 0-d arrays to the function; a Python str run2d is a length-1 array,
                # so mixing the two conventions is a (documented) shape mismatch, not part of the property
                run2d_form = 'int'
            return {'kind': cls, 'vals': vals, 'run2d_form': run2d_form, 'lineform': lineform,
                    'dtype': dt, 'conv': conv}
        if cls == 'spec_run2d_strings':
            return {'kind': cls, 'part': i, 'parts': self.budget(self.tier)[cls]}
        if cls == 'spec_reject':
            vals = {f: self._pick(rng, *R.SPEC_RANGE[f]) for f in SPEC_FIELDS}
            mode = rng.choice(['range', 'range', 'range', 'length', 'line_and_index'])
            bad = rng.choice(SPEC_FIELDS)
            lo, hi = R.SPEC_RANGE[bad]
            off = rng.choice([1, 1, 2, 2**16, 2**20, rng.randint(1, 2**30)])
            badval = hi + off if rng.random() < 0.5 else lo - off
            return {'kind': cls, 'vals': vals, 'mode': mode, 'bad': bad, 'badval': badval,
                    'conv': rng.choice(['pyint', 'array', 'array3']), 'pos': rng.randint(0, 2),
                    'lineform': rng.choice(['line', 'index'])}
        if cls == 'big_batch':
            # one call for very many IDs: sizes around the block sizes an implementation may process in (2**16 and neighbours)
            return {'kind': cls, 'n': [65535, 65536, 65537, 70001, 131073, 98304][i % 6], 'seed': rng.getrandbits(32),
                    'which': ['spec', 'obj'][(i // 6) % 2] if i >= 6 else ['spec', 'spec', 'spec', 'obj', 'spec', 'obj'][i]}
        if cls == 'string_ids':
            n = rng.randint(1, 12)
            which = rng.choice(['obj', 'spec'])
            if which == 'obj':
                tuples = [{f: self._pick(rng, *R.OBJ_RANGE[f]) for f in OBJ_FIELDS} for _ in range(n)]
            else:
                tuples = [{f: self._pick(rng, *R.SPEC_RANGE[f]) for f in SPEC_FIELDS} for _ in range(n)]
            return {'kind': cls, 'which': which, 'tuples': tuples, 'strtype': rng.choice(['U', 'S']),
                    'run2d_integer': rng.random() < 0.5, 'specLineIndex': rng.random() < 0.5}
        raise KeyError(cls)

    @staticmethod
    def _pick(rng, lo, hi):
        r = rng.random()
        if r < 0.2:
            return hi
        if r < 0.3:
            return lo
        if r < 0.4:
            return hi - 1 if hi - 1 >= lo else hi
        if r < 0.6:
            return rng.randint((lo + hi + 1) // 2, hi)
        return rng.randint(lo, hi)

    # ---------------------------------------------------------------- execution
    def run(self, case, out):
        getattr(self, 'run_' + case['kind'])(case, out)

    # -- objID ---------------------------------------------------------------
    def _objid_call(self, vals, dtype='int64', conv='array', extras='all', reuse_out=None):
        S = self.S

        def arr(f):
            v = vals[f]
            if conv == 'pyint':
                return int(v[0])
            if conv == 'npscalar':
                return np.int64(v[0])
            dt = dtype
            if dtype == 'mixed':
                dt = {'run': 'int32', 'camcol': 'int16', 'field': 'int16', 'objnum': 'int32',
                      'rerun': 'int16', 'skyversion': 'int16', 'firstfield': 'int16'}[f]
            if dtype == 'int16' and f in ('run', 'objnum'):
                dt = 'int32'      # 0..65535 does not fit int16; these come as int32 in FITS
            return np.array(v, dtype=dt)
        kw = {}
        if extras == 'all':
            kw = dict(rerun=arr('rerun'), skyversion=arr('skyversion'), firstfield=arr('firstfield'))
        args = (arr('run'), arr('camcol'), arr('field'), arr('objnum'))
        if kw:
            # the optional arguments in the documented positional order (run, camcol, field, objnum, rerun, skyversion,
            # firstfield): all three positional, only rerun positional, or all by keyword
            how = (int(np.sum(np.asarray(vals['run'], dtype='int64'))) + int(np.asarray(vals['rerun']).ravel()[0])) % 3
            if how == 0:
                args = args + (kw.pop('rerun'), kw.pop('skyversion'), kw.pop('firstfield'))
                self._objid_positional = getattr(self, '_objid_positional', 0) + 1
            elif how == 1:
                args = args + (kw.pop('rerun'),)
        res = S.sdss_objid(*args, **kw)
        if reuse_out is not None:
            keep = [a.copy() if isinstance(a, np.ndarray) else a for a in args] + [kw[k].copy() if isinstance(kw[k], np.ndarray) else kw[k] for k in sorted(kw)]
            reuse_out.count('objid_calls_with_positional_optional_arguments', len(args) > 4)
            try:
                res2 = S.sdss_objid(*args, **kw)
            except Exception as e:
                reuse_out.fail('repeat-call', 'second call with the same argument objects raised %s: %s' % (type(e).__name__, e))
            else:
                reuse_out.expect(np.array_equal(np.asarray(res), np.asarray(res2)), 'repeat-call',
                                 'second call with the same argument objects returned different IDs')
            for a, b in zip(list(args) + [kw[k] for k in sorted(kw)], keep):
                if isinstance(a, np.ndarray):
                    reuse_out.expect(np.array_equal(a, b), 'repeat-call', 'sdss_objid modified one of the caller\'s arrays')
            reuse_out.count('repeat_calls_same_objects')
        return res

    def _check_objid_result(self, out, res, vals, n, what):
        exp = [R.pack_objid(*(vals[f][k] for f in OBJ_FIELDS)) for k in range(n)]
        got = [int(x) for x in np.atleast_1d(res).tolist()]
        if not out.expect(got == exp, 'layout', '%s: packed objID differs from the documented layout' % what,
                          first_bad=next(((k, got[k], exp[k]) for k in range(min(len(got), n)) if got[k] != exp[k]), None),
                          lengths=(len(got), n), result_dtype=str(getattr(res, 'dtype', type(res)))):
            return None
        return exp

    def _check_unwrap_objid(self, out, ids, vals, n, what):
        un = self.P.unwrap_objid(ids)
        names = {'skyversion': 'skyversion', 'rerun': 'rerun', 'run': 'run', 'camcol': 'camcol',
                 'firstfield': 'firstfield', 'field': 'frame', 'objnum': 'id'}
        for f, col in names.items():
            got = [int(x) for x in np.atleast_1d(un[col]).tolist()]
            out.expect(got == [int(x) for x in vals[f][:n]], 'roundtrip',
                       '%s: unwrap_objid.%s differs from packed field %s' % (what, col, f),
                       got=got[:5], exp=vals[f][:5])

    def run_objid_sweep(self, case, out):
        f = case['field']
        lo, hi = R.OBJ_RANGE[f]
        n = hi - lo + 1
        vals = {}
        for g in OBJ_FIELDS:
            glo, ghi = R.OBJ_RANGE[g]
            vals[g] = list(range(lo, hi + 1)) if g == f else [ghi if case['others'] == 'max' else glo] * n
        res = self._objid_call(vals)
        exp = self._check_objid_result(out, res, vals, n, 'sweep %s' % f)
        if exp is not None:
            out.expect(res.dtype == np.int64, 'layout', 'objID dtype is %s, not int64' % res.dtype)
            self._check_unwrap_objid(out, np.array(exp, dtype=np.int64), vals, n, 'sweep %s' % f)
            sids = np.array([str(e) for e in exp[:: max(1, n // 500)]])
            sub = {g: vals[g][:: max(1, n // 500)] for g in OBJ_FIELDS}
            self._check_unwrap_objid(out, sids, sub, len(sids), 'sweep %s (decimal strings)' % f)
        out.count('objid_values_swept', n)
        out.nontrivial = True

    def run_objid_random(self, case, out):
        vals = case['vals']
        n = len(vals['run'])
        res = self._objid_call(vals, case['dtype'], case['conv'], case['extras'], reuse_out=out)
        exp = self._check_objid_result(out, res, vals, n, 'random dtype=%s' % case['dtype'])
        if exp is not None:
            self._check_unwrap_objid(out, np.asarray(res).astype(np.int64), vals, n, 'random')
        out.count('narrow_dtype_arrays', case['dtype'] != 'int64')
        out.nontrivial = any(vals[f][k] >= (R.OBJ_RANGE[f][1] + 1) // 2 and R.OBJ_RANGE[f][1] > 1
                             for f in OBJ_FIELDS for k in range(n))

    def run_objid_scalar(self, case, out):
        vals = case['vals']
        res = self._objid_call(vals, 'int64', case['conv'], case['extras'])
        exp = self._check_objid_result(out, res, vals, 1, 'scalar conv=%s' % case['conv'])
        res_a = self._objid_call(vals, 'int64', 'array', 'all')
        out.expect([int(x) for x in np.atleast_1d(res).tolist()] == [int(x) for x in res_a.tolist()], 'scalar==array',
                   'scalar and array call disagree', scalar=res, array=res_a)
        if exp is not None:
            self._check_unwrap_objid(out, np.atleast_1d(np.asarray(res)).astype(np.int64), vals, 1, 'scalar')
        out.nontrivial = any(vals[f][0] >= (R.OBJ_RANGE[f][1] + 1) // 2 and R.OBJ_RANGE[f][1] > 1 for f in OBJ_FIELDS)

    def run_objid_reject(self, case, out):
        S = self.S
        base = case['vals']
        conv = case['conv']
        n = {'pyint': 1, 'array': 1, 'array3': 3}[conv]
        vals = {f: [base[f]] * n for f in OBJ_FIELDS}
        if case['mode'] == 'range':
            vals[case['bad']][case['pos'] % n] = case['badval']
            args = {f: (int(vals[f][0]) if conv == 'pyint' else np.array(vals[f], dtype=np.int64)) for f in OBJ_FIELDS}
        else:
            N = 2 + case['pos'] + n
            lk = ['plus1', 'one', 'minus1', 'double', 'one'][(case['badval'] + case['pos']) % 5]
            m = {'plus1': N + 1, 'minus1': N - 1, 'double': 2 * N, 'one': 1}[lk]
            args = {f: np.array([base[f]] * N, dtype=np.int64) for f in OBJ_FIELDS}
            args[case['bad']] = np.array([base[case['bad']]] * m, dtype=np.int64)
            out.count('length_mismatch_' + lk)
        try:
            r = S.sdss_objid(args['run'], args['camcol'], args['field'], args['objnum'], rerun=args['rerun'],
                             skyversion=args['skyversion'], firstfield=args['firstfield'])
        except ValueError:
            out.checks += 1
            out.count('rejections_observed')
        else:
            out.fail('rejects', 'out-of-range / inconsistent input returned a value instead of ValueError',
                     mode=case['mode'], bad=case['bad'], badval=case['badval'], returned=r)
        out.nontrivial = True

    # -- specObjID -------------------------------------------------------------
    @staticmethod
    def _run2d_str(v):
        return 'v%d_%d_%d' % (v // 10000 + 5, (v % 10000) // 100, v % 100)

    def _spec_call(self, vals, run2d_form='int', lineform='none', dtype='int64', conv='array', reuse_out=None):
        S = self.S

        def arr(f):
            v = vals[f]
            if f == 'run2d' and run2d_form == 'str':
                s = [self._run2d_str(x) for x in v]
                return s[0] if conv != 'array' else np.array(s)
            if f == 'run2d' and run2d_form == 'intstr' and conv != 'array':
                return str(v[0])
            if f == 'run2d' and run2d_form in ('intstr', 'mixstr') and conv == 'array':
                # a string array in the integer form throughout, or mixing both forms element by element
                s = [str(x) if (run2d_form == 'intstr' or (i + x) % 2) else self._run2d_str(x) for i, x in enumerate(v)]
                return np.array(s)
            if conv == 'pyint':
                return int(v[0])
            if conv == 'npscalar':
                return np.int64(v[0])
            dt = dtype
            if dtype == 'narrow':
                dt = {'plate': 'int16', 'fiber': 'int16', 'mjd': 'int32', 'run2d': 'int16', 'line': 'int16'}[f]
            return np.array(v, dtype=dt)
        kw = {}
        if lineform == 'line':
            kw['line'] = arr('line')
        elif lineform == 'index':
            kw['index'] = arr('line')
        args = (arr('plate'), arr('fiber'), arr('mjd'), arr('run2d'))
        if 'line' in kw and int(np.asarray(vals['fiber']).ravel()[0]) % 2:
            args = args + (kw.pop('line'),)          # plate, fiber, mjd, run2d, line in the documented positional order
        res = S.sdss_specobjid(*args, **kw)
        if reuse_out is not None:
            # the same argument objects are used for a second call (a caller packing IDs twice from one table):
            # the answer must not change and the caller's arrays must not have been rewritten
            keep = [a.copy() if isinstance(a, np.ndarray) else a for a in args]
            try:
                res2 = S.sdss_specobjid(*args, **kw)
            except Exception as e:
                reuse_out.fail('repeat-call', 'second call with the same argument objects raised %s: %s' % (type(e).__name__, e))
            else:
                reuse_out.expect(np.array_equal(np.asarray(res), np.asarray(res2)), 'repeat-call',
                                 'second call with the same argument objects returned different IDs')
            for a, b in zip(args, keep):
                if isinstance(a, np.ndarray):
                    reuse_out.expect(np.array_equal(a, b), 'repeat-call', 'sdss_specobjid modified one of the caller\'s arrays', before=b, after=a)
            reuse_out.count('repeat_calls_same_objects')
        return res

    def _check_spec_result(self, out, res, vals, n, what):
        exp = [R.pack_specobjid(*(vals[f][k] for f in SPEC_FIELDS)) for k in range(n)]
        got = [int(x) for x in np.atleast_1d(res).tolist()]
        if not out.expect(got == exp, 'layout', '%s: packed specObjID differs from the documented layout' % what,
                          first_bad=next(((k, got[k], exp[k]) for k in range(min(len(got), n)) if got[k] != exp[k]), None),
                          lengths=(len(got), n)):
            return None
        return exp

    def _check_unwrap_spec(self, out, ids, vals, n, what, run2d_integer=False, specLineIndex=False):
        un = self.S.unwrap_specobjid(ids, run2d_integer=run2d_integer, specLineIndex=specLineIndex)
        if isinstance(ids, np.ndarray) and ids.dtype == np.uint64 and 1 <= ids.size <= 5000:
            # the same IDs as a big-endian array (network-order data, FITS) and as a strided view
            for flav, arr in (('>u8', ids.astype('>u8')), ('strided', np.repeat(ids, 2)[::2])):
                un2 = self.S.unwrap_specobjid(arr, run2d_integer=run2d_integer, specLineIndex=specLineIndex)
                same = all(np.array_equal(np.atleast_1d(un2[k]), np.atleast_1d(un[k])) for k in un.dtype.names)
                out.expect(same, 'roundtrip', '%s: unwrap_specobjid of the same IDs given as %s differs' % (what, flav))
                out.count('unwrap_id_array_flavours')
        for f in ('plate', 'fiber', 'mjd'):
            got = [int(x) for x in np.atleast_1d(un[f]).tolist()]
            out.expect(got == [int(x) for x in vals[f][:n]], 'roundtrip', '%s: unwrap_specobjid.%s' % (what, f),
                       got=got[:5], exp=vals[f][:5])
        col = 'index' if specLineIndex else 'line'
        got = [int(x) for x in np.atleast_1d(un[col]).tolist()]
        out.expect(got == [int(x) for x in vals['line'][:n]], 'roundtrip', '%s: unwrap_specobjid.%s' % (what, col),
                   got=got[:5], exp=vals['line'][:5])
        if run2d_integer:
            got = [int(x) for x in np.atleast_1d(un['run2d']).tolist()]
            exp = [int(x) for x in vals['run2d'][:n]]
        else:
            got = [str(x) for x in np.atleast_1d(un['run2d']).tolist()]
            exp = [self._run2d_str(int(x)) for x in vals['run2d'][:n]]
        out.expect(got == exp, 'roundtrip', '%s: unwrap_specobjid.run2d (integer=%s)' % (what, run2d_integer),
                   got=got[:5], exp=exp[:5])

    def run_spec_sweep(self, case, out):
        f = case['field']
        lo, hi = R.SPEC_RANGE[f]
        n = hi - lo + 1
        vals = {}
        for g in SPEC_FIELDS:
            glo, ghi = R.SPEC_RANGE[g]
            vals[g] = list(range(lo, hi + 1)) if g == f else [ghi if case['others'] == 'max' else glo] * n
        res = self._spec_call(vals, 'int', 'line')
        exp = self._check_spec_result(out, res, vals, n, 'sweep %s' % f)
        if exp is not None:
            out.expect(res.dtype == np.uint64, 'layout', 'specObjID dtype is %s, not uint64' % res.dtype)
            ids = np.array(exp, dtype=np.uint64)
            self._check_unwrap_spec(out, ids, vals, n, 'sweep %s' % f, run2d_integer=True)
            self._check_unwrap_spec(out, ids, vals, n, 'sweep %s' % f, run2d_integer=False, specLineIndex=True)
            step = max(1, n // 500)
            sids = np.array([str(e) for e in exp[::step]])
            sub = {g: vals[g][::step] for g in SPEC_FIELDS}
            self._check_unwrap_spec(out, sids, sub, len(sids), 'sweep %s (decimal strings)' % f)
        out.count('spec_values_swept', n)
        out.nontrivial = True

    def run_spec_random(self, case, out):
        vals = case['vals']
        n = len(vals['plate'])
        res = self._spec_call(vals, case['run2d_form'], case['lineform'], case['dtype'], case['conv'], reuse_out=out)
        exp = self._check_spec_result(out, res, vals, n, 'random run2d=%s dtype=%s' % (case['run2d_form'], case['dtype']))
        if exp is not None:
            self._check_unwrap_spec(out, np.asarray(res), vals, n, 'random', specLineIndex=case['lineform'] == 'index')
        out.count('run2d_string_arrays', case['run2d_form'] == 'str')
        out.count('run2d_mixed_form_string_arrays', case['run2d_form'] == 'mixstr' and n >= 2)
        out.nontrivial = any(vals[f][k] >= (R.SPEC_RANGE[f][1] + R.SPEC_RANGE[f][0] + 1) // 2
                             for f in SPEC_FIELDS for k in range(n))

    def run_spec_scalar(self, case, out):
        vals = case['vals']
        res = self._spec_call(vals, case['run2d_form'], case['lineform'], 'int64', case['conv'])
        exp = self._check_spec_result(out, res, vals, 1, 'scalar conv=%s run2d=%s' % (case['conv'], case['run2d_form']))
        try:
            res_a = self._spec_call(vals, 'int', case['lineform'], 'int64', 'array')
        except Exception as e:
            out.fail('scalar==array', 'array call raised %s: %s where the scalar call returned' % (type(e).__name__, e))
        else:
            out.expect([int(x) for x in np.atleast_1d(res).tolist()] == [int(x) for x in res_a.tolist()],
                       'scalar==array', 'scalar and array call disagree', scalar=res, array=res_a)
        if exp is not None:
            self._check_unwrap_spec(out, np.atleast_1d(np.asarray(res)), vals, 1, 'scalar',
                                    specLineIndex=case['lineform'] == 'index')
        out.nontrivial = any(vals[f][0] >= (R.SPEC_RANGE[f][1] + R.SPEC_RANGE[f][0] + 1) // 2 for f in SPEC_FIELDS)

    def run_spec_run2d_strings(self, case, out):
        allv = list(range(0, 2**14))
        part = allv[case['part']::case['parts']]
        n = len(part)
        # scalar string calls for a slice of the space, array-of-strings for the whole part
        vals = {'plate': [4055] * n, 'fiber': [408] * n, 'mjd': [55359] * n, 'run2d': part, 'line': [0] * n}
        res = self._spec_call(vals, 'str', 'none', 'int64', 'array')
        exp = self._check_spec_result(out, res, vals, n, 'all vN_M_P strings (array)')
        if exp is not None:
            self._check_unwrap_spec(out, np.asarray(res), vals, n, 'all vN_M_P strings')
        for k in range(0, n, 7):
            v1 = {f: [vals[f][k]] for f in SPEC_FIELDS}
            r1 = self._spec_call(v1, 'str', 'none', 'int64', 'pyint')
            self._check_spec_result(out, r1, v1, 1, 'vN_M_P scalar string %s' % self._run2d_str(part[k]))
        out.count('run2d_strings', n)
        out.nontrivial = True

    def run_spec_reject(self, case, out):
        S = self.S
        base = case['vals']
        conv = case['conv']
        n = {'pyint': 1, 'array': 1, 'array3': 3}[conv]
        vals = {f: [base[f]] * n for f in SPEC_FIELDS}
        kw = {}
        if case['mode'] == 'range':
            vals[case['bad']][case['pos'] % n] = case['badval']
            args = {f: (int(vals[f][0]) if conv == 'pyint' else np.array(vals[f], dtype=np.int64)) for f in SPEC_FIELDS}
            kw[case['lineform']] = args['line']
        elif case['mode'] == 'length':
            # N >= 2 for every field but one, whose array is one longer, one shorter, twice as long, or has exactly one
            # element (a length-1 array is not a scalar: nothing says it applies to all spectra)
            N = 2 + case['pos'] + n
            lk = ['plus1', 'one', 'minus1', 'double', 'one'][(case['badval'] + case['pos']) % 5]
            m = {'plus1': N + 1, 'minus1': N - 1, 'double': 2 * N, 'one': 1}[lk]
            args = {f: np.array([base[f]] * N, dtype=np.int64) for f in SPEC_FIELDS}
            args[case['bad']] = np.array([base[case['bad']]] * m, dtype=np.int64)
            if case['bad'] == 'run2d' and case['badval'] % 2:
                args['run2d'] = np.array([self._run2d_str(base['run2d'])] * m)
            kw[case['lineform']] = args['line']
            out.count('length_mismatch_' + lk)
        else:
            args = {f: (int(vals[f][0]) if conv == 'pyint' else np.array(vals[f], dtype=np.int64)) for f in SPEC_FIELDS}
            kw = {'line': args['line'], 'index': args['line']}
        try:
            r = S.sdss_specobjid(args['plate'], args['fiber'], args['mjd'], args['run2d'], **kw)
        except ValueError:
            out.checks += 1
            out.count('rejections_observed')
        else:
            out.fail('rejects', 'out-of-range / inconsistent input returned a value instead of ValueError',
                     mode=case['mode'], bad=case['bad'], badval=case['badval'], returned=r)
        out.nontrivial = True

    def run_big_batch(self, case, out):
        g = np.random.default_rng(case['seed'])
        n = case['n']
        if case['which'] == 'spec':
            vals = {f: g.integers(R.SPEC_RANGE[f][0], R.SPEC_RANGE[f][1] + 1, n).tolist() for f in SPEC_FIELDS}
            # values that change from element to element also next to every block boundary
            res = self._spec_call(vals, 'int', 'line', 'int64', 'array')
            exp = self._check_spec_result(out, res, vals, n, 'batch of %d' % n)
            if exp is not None:
                ids = np.array(exp, dtype=np.uint64)
                self._check_unwrap_spec(out, ids, vals, n, 'batch of %d' % n, run2d_integer=False)
                self._check_unwrap_spec(out, ids, vals, n, 'batch of %d' % n, run2d_integer=True, specLineIndex=True)
        else:
            vals = {f: g.integers(R.OBJ_RANGE[f][0], R.OBJ_RANGE[f][1] + 1, n).tolist() for f in OBJ_FIELDS}
            res = self._objid_call(vals, 'int64', 'array', 'all')
            exp = self._check_objid_result(out, res, vals, n, 'batch of %d' % n)
            if exp is not None:
                self._check_unwrap_objid(out, np.asarray(res), vals, n, 'batch of %d' % n)
        out.count('ids_in_batches_over_65535', n)
        out.nontrivial = True

    def run_string_ids(self, case, out):
        t = case['tuples']
        n = len(t)
        if case['which'] == 'obj':
            vals = {f: [x[f] for x in t] for f in OBJ_FIELDS}
            ids = [R.pack_objid(*(x[f] for f in OBJ_FIELDS)) for x in t]
            sarr = np.array([str(x) for x in ids], dtype=case['strtype'])
            self._check_unwrap_objid(out, sarr, vals, n, 'decimal string %s' % case['strtype'])
        else:
            vals = {f: [x[f] for x in t] for f in SPEC_FIELDS}
            ids = [R.pack_specobjid(*(x[f] for f in SPEC_FIELDS)) for x in t]
            sarr = np.array([str(x) for x in ids], dtype=case['strtype'])
            self._check_unwrap_spec(out, sarr, vals, n, 'decimal string %s' % case['strtype'],
                                    run2d_integer=case['run2d_integer'], specLineIndex=case['specLineIndex'])
            out.count('string_ids_ge_2^63', sum(1 for x in ids if x >= 2**63))
        out.nontrivial = True

    def summarise(self, case):
        c = dict(case)
        if 'vals' in c and isinstance(c['vals'].get('run', c['vals'].get('plate')), list):
            c['vals'] = {k: v[:4] for k, v in c['vals'].items()}
        if 'tuples' in c:
            c['tuples'] = c['tuples'][:2]
        return c


CHECK = C06()
