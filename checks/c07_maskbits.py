"""C07 - bitmask names and values convert consistently for any maskbits file.

Events: set_maskbits(maskbits_file=<generated file>), then sdss_flagval / sdss_flagname / sdss_flagexist calls.
Oracle: the generated definition {GROUP: {LABEL: bit}} + aliases, evaluated in Python ints.
"""
import os
import numpy as np
from vlib.harness import Check

LETTERS = 'ABCDEFGHIJKLMNOPQRSTUVWXYZ'
IDCH = LETTERS + '0123456789_'
HOT_BITS = [0, 31, 32, 62, 63]


def ident(rng, lo, hi):
    n = rng.randint(lo, hi)
    return rng.choice(LETTERS) + ''.join(rng.choice(IDCH) for _ in range(n - 1))


def random_of(rng):
    import random
    return random.Random(rng.getrandbits(48))


def M_words(row):
    import shlex
    return shlex.split(row)


def recase(rng, s):
    m = rng.randint(0, 3)
    if m == 0:
        return s
    if m == 1:
        return s.lower()
    if m == 2:
        return s.capitalize()
    return ''.join(c.lower() if rng.random() < 0.5 else c for c in s)


class C07(Check):
    ID = 'C07'
    RULE = ('random maskbits files (1-8 groups, 1-64 labels on sparse bits always drawn with some of {0,31,32,62,63}, '
            '0-4 aliases; 35% with shrunk declared char widths and some names longer than declared, 30% with the typedef columns in another order) rendered with comments, blank lines, blanks/tabs, trailing comments and (40%) the lines of different groups interleaved, parsed by the real '
            'raw-mode yanny path via set_maskbits; ~40 queries per file: label subsets in random order and letter case, '
            'random/single-bit/all-ones/undefined-only 64-bit values as Python int, numpy uint64 and int64 (two\'s '
            'complement), aliases, unknown groups/labels, existence queries in all four flag combinations.  '
            'Non-trivial: a file whose queries touch a bit >= 32 or an alias; distinct by hash of definition+queries.')
    ASSUMPTIONS = ['file content in upper case, one label per bit, distinct labels per group (property domain)',
                   'negative numpy int64 values are read as their two\'s complement bit pattern']
    REQUIRED_COUNTERS = ('exist_queries_with_a_label_asked_twice', 'queries_with_blank_or_composite_unknown_labels', 'files_with_columns_in_another_order', 'names_longer_than_declared_width', 'alias_of_alias_definitions', 'queries_touching_bit63', 'alias_queries', 'keyerrors_expected_and_seen', 'roundtrips_of_values_without_defined_bits')

    def setup(self):
        import pydl.pydlutils.sdss as S
        self.S = S
        self._saved = S.maskbits
        for n in ('sdss_flagval', 'sdss_flagname', 'sdss_flagexist'):
            self.brd.attach(self.rec, S, n, every=2, own=True)
        for n in ('set_maskbits', 'sdss_flagval', 'sdss_flagname', 'sdss_flagexist'):
            self.rec.wrap(S, n)
        for f in (S.set_maskbits, S.sdss_flagval, S.sdss_flagname, S.sdss_flagexist):
            self.reach.add(f)

    def teardown(self):
        self.S.maskbits = self._saved

    def budget(self, tier):
        q = tier == 'quick'
        return {'random_files': 400 if q else 100000, 'dense64': 40 if q else 8000, 'tiny': 60 if q else 12000}

    # ------------------------------------------------------------------ gen
    def gen(self, cls, rng, i):
        if cls == 'tiny':
            ngroups, maxlab = rng.randint(1, 2), 3
        elif cls == 'dense64':
            ngroups, maxlab = rng.randint(1, 3), 64
        else:
            ngroups, maxlab = rng.randint(1, 8), rng.choice([4, 10, 30, 64])
        groups = {}
        names = set()
        for _ in range(ngroups):
            g = ident(rng, 1, 18 if rng.random() < 0.85 else 36)
            while g in names:
                g = ident(rng, 1, 18)
            names.add(g)
            nl = 64 if cls == 'dense64' else rng.randint(1, maxlab)
            bits = set(rng.sample(HOT_BITS, rng.randint(1, min(nl, 5))))
            pool = [b for b in range(64) if b not in bits]
            rng.shuffle(pool)
            bits |= set(pool[:max(0, nl - len(bits))])
            labels = set()
            d = {}
            for b in sorted(bits, key=lambda _: rng.random()):
                l = ident(rng, 1, 24 if rng.random() < 0.9 else 48)
                while l in labels:
                    l = ident(rng, 1, 24)
                labels.add(l)
                d[l] = b
            groups[g] = d
        aliases = {}
        for _ in range(rng.choice([0, 0, 1, 2, 4])):
            a = ident(rng, 2, 18 if rng.random() < 0.85 else 36)
            if a in names:
                continue
            names.add(a)
            # the alias of a group, or (rows are applied in file order) the alias of an alias defined by an earlier row
            aliases[a] = rng.choice(sorted(aliases)) if (aliases and rng.random() < 0.4) else rng.choice(sorted(groups))
        queries = []
        allnames = sorted(groups) + sorted(aliases)

        def chain(g):
            while g in aliases:
                g = aliases[g]
            return g
        for _ in range(40 if cls != 'tiny' else 15):
            g = rng.choice(allnames)
            real = groups[chain(g)]
            labels = sorted(real)
            op = rng.choice(['val', 'val', 'name', 'name', 'name', 'exist', 'unknown'])
            gq = recase(rng, g)
            if op == 'val':
                k = rng.choice([1, 1, 2, 3, len(labels), rng.randint(1, len(labels)), 0])      # 0: the empty set of labels
                sub = rng.sample(labels, min(k, len(labels)))
                form = 'str' if len(sub) == 1 and rng.random() < 0.5 else 'list'
                queries.append({'op': 'val', 'group': gq, 'labels': [recase(rng, l) for l in sub], 'form': form})
            elif op == 'name':
                m = rng.randint(0, 6)
                defined = sorted(real.values())
                if m == 0:
                    v = rng.getrandbits(64)
                elif m == 1:
                    v = 1 << rng.choice(defined)
                elif m == 2:
                    v = 2**64 - 1
                elif m == 3:
                    und = [b for b in range(64) if b not in defined]
                    v = sum(1 << b for b in rng.sample(und, min(len(und), rng.randint(0, 5))))
                elif m == 4:
                    v = sum(1 << b for b in rng.sample(defined, rng.randint(1, len(defined))))
                elif m == 5:
                    v = (1 << 63) | rng.getrandbits(63)
                else:
                    v = 0
                vt = rng.choice(['int', 'uint64', 'int64'])
                queries.append({'op': 'name', 'group': gq, 'value': v, 'vtype': vt, 'concat': rng.random() < 0.25})
            elif op == 'exist':
                sub = [recase(rng, l) for l in rng.sample(labels, min(len(labels), rng.choice([0, 1, 1, 2, 3])))]
                if rng.random() < 0.5:
                    # a label that is not defined: an ordinary name, the empty string, blanks, or two defined labels in one string
                    # (one string is one label)
                    sub.insert(rng.randint(0, len(sub)), rng.choice(['ZZ_NOT_A_LABEL_' + str(rng.randint(0, 99))] * 3 + ['', ' ', ' '.join(rng.sample(labels, min(2, len(labels)))) + ' ']))
                if sub and rng.random() < 0.3:
                    # the same label asked twice (possibly in another letter case): one answer per label asked
                    sub.insert(rng.randint(0, len(sub)), recase(rng, rng.choice(sub)))
                form = 'str' if len(sub) == 1 and rng.random() < 0.5 else 'list'
                queries.append({'op': 'exist', 'group': gq if rng.random() < 0.8 else 'ZZ_NO_GROUP', 'labels': sub,
                                'form': form, 'flagexist': rng.random() < 0.5, 'whichexist': rng.random() < 0.5})
            else:
                m = rng.randint(0, 3)
                if m == 0:
                    queries.append({'op': 'val', 'group': 'ZZ_NO_GROUP', 'labels': [rng.choice(labels)], 'form': 'list', 'unknown': 'group'})
                elif m == 1:
                    sub = rng.sample(labels, min(len(labels), 2)) + [rng.choice(['ZZ_NOT_A_LABEL', 'ZZ_NOT_A_LABEL', '', '  ', ' '.join(rng.sample(labels, min(2, len(labels)))) + ' '])]
                    rng.shuffle(sub)
                    queries.append({'op': 'val', 'group': gq, 'labels': sub, 'form': 'list', 'unknown': 'label'})
                elif m == 2:
                    queries.append({'op': 'name', 'group': 'ZZ_NO_GROUP', 'value': rng.getrandbits(64) | 1, 'vtype': 'int',
                                    'concat': False, 'unknown': 'group'})
                else:
                    queries.append({'op': 'name', 'group': 'ZZ_NO_GROUP', 'value': 0, 'vtype': 'int', 'concat': False,
                                    'unknown': 'group-zero'})
        header = {}
        hr = random_of(rng)
        if hr.random() < 0.35:
            header['widths'] = [hr.choice([4, 8, 20]), hr.choice([6, 12, 30]), hr.choice([4, 8, 20])]
        if hr.random() < 0.3:
            b = ['flag', 'bit', 'label', 'description']
            hr.shuffle(b)
            header['bits_columns'] = b
        if hr.random() < 0.3:
            a = ['flag', 'alias', 'description']
            hr.shuffle(a)
            header['alias_columns'] = a
        return {'groups': groups, 'aliases': aliases, 'layout': rng.getrandbits(32), 'queries': queries, 'header': header}

    # --------------------------------------------------------------- render
    def render(self, case):
        import random
        L = random.Random(case['layout'])

        def sp(minimum=1):
            return ''.join(L.choice('  \t') for _ in range(L.randint(minimum, 4)))

        def junk(lines):
            r = L.random()
            if r < 0.15:
                lines.append('')
            elif r < 0.3:
                lines.append('#' + sp(0) + L.choice(['a comment line with maskbits X 3 Y "z" inside',
                                                     'non-ASCII comment: \u00b5-lensing, \u00c5ngstr\u00f6m, \u03b1 > 3']))
            elif r < 0.35:
                lines.append(sp())
        lines = []
        if L.random() < 0.5:
            lines.append('#%yanny')
        lines += ['#', '# generated maskbits file', '#']
        # the header is part of the input: the declared char widths (a yanny file read "raw" keeps the whole word, so a name
        # longer than the declared width is still that name) and the order of the columns (the typedef decides which word
        # of a row is the flag, the bit and the label) vary like everything else
        hv = case.get('header', {})
        wf, wl, wa = hv.get('widths', [20, 30, 20])
        bcols = hv.get('bits_columns', ['flag', 'bit', 'label', 'description'])
        acols = hv.get('alias_columns', ['flag', 'alias', 'description'])
        decl = {'flag': 'char flag[%d]; # Flag name' % wf, 'bit': 'short bit; # Bit number, 0-indexed',
                'label': 'char label[%d]; # Bit label' % wl, 'description': 'char description[100]; # text description',
                'alias': 'char alias[%d]; # Alias' % wa}
        tds = ['typedef struct {\n' + ''.join('    %s\n' % decl[c] for c in bcols) + '} maskbits;',
               'typedef struct {\n    char flag[%d]; # Flag name\n    short datatype; # Data type {8, 16, 32, 64}\n'
               '    char description[100]; # text description\n} masktype;' % wf,
               'typedef struct {\n' + ''.join('    %s\n' % decl[c] for c in acols) + '} maskalias;']
        if not case['aliases'] and L.random() < 0.5:
            tds = tds[:2]
        for t in tds:
            lines.append(t)
            junk(lines)
        rows = []
        # bit numbers as any decimal spelling of the integer: 7, 07, 007, +7
        bitfmt = L.choice(['%d', '%d', '%02d', '%03d', '+%d'])
        for g, d in case['groups'].items():
            block = []
            if L.random() < 0.7:
                block.append('masktype%s%s%s%d%s"%s"' % (sp(), g, sp(), L.choice([8, 16, 32, 64]), sp(), 'Mask bits for ' + g))
            for l, b in d.items():
                desc = L.choice(['x', 'some description', 'Bit %d of %s' % (b, g), '', 'S/N > 3 \u03c3 (\u00b5-lensing)'])
                struct = L.choice(['maskbits', 'maskbits', 'MASKBITS', 'Maskbits'])
                words = {'flag': g, 'bit': bitfmt % b, 'label': l, 'description': '"%s"' % desc}
                use = list(bcols)
                if bcols[-1] == 'description' and L.random() < 0.15:
                    # the trailing description is optional text: a row may simply leave it out
                    use = use[:-1]
                row = struct + ''.join(sp() + words[c] for c in use)
                if L.random() < 0.2:
                    row += sp() + '# trailing comment'
                if L.random() < 0.15:
                    row += sp()
                block.append(row)
            rows.append(block)
        for a, g in case['aliases'].items():
            words = {'flag': g, 'alias': a, 'description': '"alias of %s"' % g}
            use = list(acols)
            if acols[-1] == 'description' and L.random() < 0.2:
                use = use[:-1]
            rows.append(['maskalias' + ''.join(sp() + words[c] for c in use)])
        # aliases must follow nothing in particular (set_maskbits resolves them after all rows are read)
        L.shuffle(rows)
        if L.random() < 0.4:
            # the lines of one group need not be contiguous in the file (e.g. bits appended in a later section)
            flat = [r for block in rows for r in block]
            L.shuffle(flat)
            rows = [flat]
        flat = [r for block in rows for r in block]
        # alias rows keep their mutual order (an alias of an alias needs the earlier row first); everything else stays shuffled
        pos = [i for i, r in enumerate(flat) if r.startswith('maskalias')]
        ai = 1 + acols.index('alias')
        inorder = [r for a in case['aliases'] for r in flat if r.startswith('maskalias') and M_words(r)[ai] == a]
        for i, r in zip(pos, inorder):
            flat[i] = r
        for r in flat:
            lines.append(r)
            junk(lines)
        text = '\n'.join(lines)
        if L.random() < 0.8:
            text += '\n'
        return text

    # ------------------------------------------------------------------ run
    def run(self, case, out):
        S = self.S
        # always the same path, rewritten for every case: a definition file that changes on disk between two loads in
        # one process must be re-read (no memo keyed by file name may survive)
        path = os.path.join(self.workdir, 'sdssMaskbits.par')
        with open(path, 'w') as f:
            f.write(self.render(case))
        try:
            S.maskbits = S.set_maskbits(maskbits_file=path)
        finally:
            os.remove(path)
        groups = case['groups']
        aliases = case['aliases']

        def resolve(g):
            g = g.upper()
            while g in aliases:
                g = aliases[g]
            return groups.get(g)
        out.count('alias_of_alias_definitions', sum(1 for t in aliases.values() if t in aliases))
        hv = case.get('header', {})
        wf, wl, wa = hv.get('widths', [20, 30, 20])
        out.count('files_with_columns_in_another_order', int('bits_columns' in hv or 'alias_columns' in hv))
        out.count('names_longer_than_declared_width', sum(len(g) > wf for g in groups) + sum(len(a) > wa for a in aliases)
                  + sum(len(l) > wl for d in groups.values() for l in d))
        touched_hi = False
        touched_alias = False
        for qi, q in enumerate(case['queries']):
            real = resolve(q['group'])
            isalias = q['group'].upper() in aliases
            if q['op'] == 'val':
                arg = q['labels'][0] if q['form'] == 'str' else q['labels']
                want_err = real is None or any(l.upper() not in real for l in q['labels'])
                try:
                    v = S.sdss_flagval(q['group'], arg)
                except KeyError:
                    if want_err:
                        out.checks += 1
                        out.count('keyerrors_expected_and_seen')
                    else:
                        out.fail('flagval', 'KeyError for a defined group/label', query=q)
                    continue
                if want_err:
                    out.fail('keyerror', 'sdss_flagval returned %r for an unknown group/label' % (v,), query=q)
                    continue
                exp = 0
                for l in q['labels']:
                    exp |= 1 << real[l.upper()]
                out.expect(int(v) == exp and isinstance(v, np.uint64), 'flagval',
                           'value %r (type %s) != OR of 2^bit = %d' % (v, type(v).__name__, exp), query=q)
                # round trip names -> value -> names
                back = S.sdss_flagname(q['group'], v)
                expn = [l for l, b in sorted(real.items(), key=lambda kv: kv[1]) if exp >> b & 1]
                out.expect(back == expn, 'names->value->names', 'got %r expected %r' % (back, expn), query=q)
                if exp >> 32:
                    touched_hi = True
                if exp >> 63:
                    out.count('queries_touching_bit63')
                if isalias:
                    touched_alias = True
                    out.count('alias_queries')
                    tgt = aliases[q['group'].upper()]
                    out.expect(int(S.sdss_flagval(tgt, arg)) == int(v), 'alias', 'alias and target differ', query=q)
            elif q['op'] == 'name':
                val = q['value']
                if q['vtype'] == 'uint64':
                    arg = np.uint64(val)
                elif q['vtype'] == 'int64':
                    arg = np.int64(val - 2**64 if val >= 2**63 else val)
                else:
                    arg = val
                want_err = real is None and val != 0
                try:
                    names = S.sdss_flagname(q['group'], arg, concat=q['concat'])
                except KeyError:
                    if want_err:
                        out.checks += 1
                        out.count('keyerrors_expected_and_seen')
                    else:
                        out.fail('flagname', 'KeyError although no conversion needed the group / group defined', query=q)
                    continue
                if want_err:
                    out.fail('keyerror', 'sdss_flagname returned %r for an unknown group and non-zero value' % (names,), query=q)
                    continue
                if real is None:
                    out.expect(names == ('' if q['concat'] else []), 'flagname', 'zero value must name no bits', query=q, got=names)
                    continue
                expn = [l for l, b in sorted(real.items(), key=lambda kv: kv[1]) if val >> b & 1]
                if q['concat']:
                    out.expect(names == ' '.join(expn), 'flagname', 'concat form differs', got=names, exp=expn, query=q)
                    names = names.split() if names else []
                else:
                    out.expect(names == expn, 'flagname', 'names of defined set bits in ascending bit order',
                               got=names, exp=expn, query=q)
                # value -> names -> value on defined bits
                if names == expn:
                    out.count('roundtrips_of_values_without_defined_bits', not names)
                    v2 = int(S.sdss_flagval(q['group'], names))
                    defined = sum(1 << b for b in real.values())
                    out.expect(v2 == val & defined, 'value->names->value', 'got %d expected %d' % (v2, val & defined), query=q)
                if val >> 32 & sum(1 << (b - 32) for b in real.values() if b >= 32):
                    touched_hi = True
                if val >> 63 and 63 in real.values():
                    out.count('queries_touching_bit63')
                if isalias:
                    touched_alias = True
                    out.count('alias_queries')
                    tgt = aliases[q['group'].upper()]
                    out.expect(S.sdss_flagname(tgt, arg, concat=q['concat']) ==
                               S.sdss_flagname(q['group'], arg, concat=q['concat']), 'alias', 'alias and target differ', query=q)
            elif q['op'] == 'exist':
                arg = q['labels'][0] if q['form'] == 'str' else q['labels']
                try:
                    r = S.sdss_flagexist(q['group'], arg, flagexist=q['flagexist'], whichexist=q['whichexist'])
                except Exception as e:
                    out.fail('flagexist', 'existence query raised %s: %s' % (type(e).__name__, e), query=q)
                    continue
                f = real is not None
                which = [f and l.upper() in real for l in q['labels']]
                l = f and all(which)
                if q['flagexist'] and q['whichexist']:
                    exp = (l, f, which)
                elif q['flagexist']:
                    exp = (l, f)
                elif q['whichexist']:
                    exp = (l, which)
                else:
                    exp = l
                out.expect(r == exp and type(r) is type(exp), 'flagexist', 'got %r expected %r' % (r, exp), query=q)
                ups = [x.upper() for x in q['labels']]
                out.count('exist_queries_with_a_label_asked_twice', len(set(ups)) < len(ups))
                out.count('queries_with_blank_or_composite_unknown_labels', any((not x.strip()) or ' ' in x for x in q['labels']))
                if isalias:
                    touched_alias = True
                    out.count('alias_queries')
        out.count('queries', len(case['queries']))
        out.nontrivial = touched_hi or touched_alias

    def summarise(self, case):
        c = dict(case)
        c['groups'] = {g: dict(list(d.items())[:4]) for g, d in list(case['groups'].items())[:2]}
        c['queries'] = case['queries'][:4]
        c['rendered_head'] = self.render(case)[-300:]
        return c


CHECK = C07()
