"""C10 - iterfit is order-independent and its mask honours weights and rejection limits.

Events: iterfit(x, y, invvar, upper, lower, maxiter, nord, breakpoint option) -> (sset, outmask), sset.value(x); a recorder
on djs_reject and bspline.fit inside the call counts the refits actually performed (also used to explain a witness).
Oracle: (1) permutation metamorphic; (2) non-positive weights flagged False and deletable; (3) maxiter=0 == dense weighted
LS on the positively weighted points; (4) an independent rejection loop (dense lstsq on a Cox-de Boor design matrix).
"""
import math
import warnings
import numpy as np
from vlib.harness import Check, np_rng
from vlib.refs import bspline_ref as BR


def ref_loop(x, y, iv, t, k, upper, lower, maxiter, band):
    """fit, reject beyond lower/upper sigma (cumulatively), refit, until nothing changes or maxiter+1 fits done.
    Returns (fit at x, mask, number of fits, near, cond, stat) with near=True if any decision was within `band` of a limit;
    stat['margin'] is the smallest relative distance of any decision from its limit, stat['close'] the number of decisions taken
    within 3 % of a limit (near-threshold elements)."""
    A = BR.basis_matrix(t, k, x, extrapolate=True)
    mask = iv > 0
    sq = np.sqrt(np.where(iv > 0, iv, 0.0))
    it = 0
    qdone = False
    near = False
    fit = None
    cond = 1.0
    stat = {'margin': np.inf, 'close': 0}
    while (not qdone) and it <= maxiter:
        c, rank, sv = BR.wls(A, y, np.where(mask, iv, 0.0))
        if rank < A.shape[1]:
            return None, None, it, True, np.inf, stat      # reference problem became ill-posed: not in the domain
        cond = max(cond, float(sv[0] / sv[-1]))
        fit = A @ c
        r = (y - fit) * sq
        bad = (r < -lower) | (r > upper)
        scale = band * max(1.0, float(np.abs(r[mask]).max()) if mask.any() else 1.0)
        near |= bool(np.any(mask & ((np.abs(r + lower) < band * max(1, lower)) | (np.abs(r - upper) < band * max(1, upper)))))
        if mask.any():
            dist = np.minimum(np.abs(r + lower) / max(1, lower), np.abs(r - upper) / max(1, upper))[mask]
            stat['margin'] = min(stat['margin'], float(dist.min()))
            stat['close'] += int((dist < 3e-2).sum())
        new = mask & ~bad
        qdone = bool(np.all(new == mask))
        mask = new
        it += 1
    stat['converged'] = qdone          # the last pass rejected nothing: the last fit was made with the returned mask
    return fit, mask, it, near, cond, stat


def sample_variance(y):
    """Unbiased sample variance (divisor n-1, IDL's variance()) of float64 values by exactly rounded sums (math.fsum): mean,
    then the corrected two-pass formula.  Independent of ndarray.var() and of the size of the mean relative to the scatter."""
    v = [float(t) for t in y]
    n = len(v)
    m = math.fsum(v) / n
    d = [t - m for t in v]
    return (math.fsum(t * t for t in d) - math.fsum(d) ** 2 / n) / (n - 1)


def space_basis(edges, k, x):
    """Some basis (end knots repeated) of the splines of order k on the breakpoints `edges`: a least-squares fit over the space
    does not depend on which basis (which padding knots outside the range) is used."""
    t = np.concatenate([[edges[0]] * (k - 1), edges, [edges[-1]] * (k - 1)])
    return BR.basis_matrix(t, k, x, extrapolate=True)


class C10(Check):
    ID = 'C10'
    RULE = ('smooth signal + Gaussian noise on 80-400 abscissae (random, clustered, with duplicates; sorted or not), order 2-5, '
            'breakpoints by bkspace/nbkpts/everyn with >= order+4 good points per interval, 0-6 injected outliers of 8-60 sigma, '
            '0-10% zero and negative weights, contiguous zero-weight gaps several breakpoint intervals wide (class gap), limits 2-8 (also asymmetric), maxiter 0-10, invvar=None path, float32 input; class default_weights: invvar omitted on ydata whose mean is 1e2-1e10 times its standard deviation, on integer counts, on exactly constant data (zero sample variance), with limits / maxiter / order left to their defaults, and points planted at a limit times (1 +- 1e-5 ... 3e-2) after the first fit (default or given weights).  Each '
            'problem is run as given, under a random permutation, and with the non-positively weighted points deleted, and is '
            'compared with an independent dense rejection loop.  Non-trivial: >= 1 point rejected by a limit and a permutation '
            'applied; distinct by input hash.  Problems where any residual comes within 1e-6 (float32: 2e-3) of a limit in the '
            'reference loop are undecided.')
    ASSUMPTIONS = ['well-supported problems only (ill-posed fits are C09); x2 / 2-D fits excluded (deprecated by the code itself)',
                   'curves are compared at abscissae inside the returned knot range only',
                   'the documented procedure is cumulative: a point rejected in one pass is not re-admitted (inmask = previous mask)',
                   'invvar omitted: the documented weights are 1 / (sample variance of ydata, divisor n-1), computed here with exactly rounded '
                   'sums; unit weights when that variance is exactly zero.  Exactly constant data whose mean is not representable (7.1) are '
                   'outside the domain: no weights are defined for them and what ndarray.var() returns is rounding noise',
                   'class default_weights: decisions closer to a limit than 100 eps cond^2 max|y| sqrt(invvar) are undecided']
    REQUIRED_COUNTERS = ('starved_fixed_points_checked', 'few_points_exactly_order_usable', 'one_sided_limit_exactly_zero', 'good_points_sorted_bad_points_out_of_order', 'canary_sequences', 'fixed_point_optimality_checked', 'fixed_point_mask_checked', 'breakpoint_dropped_cases', 'permutations_checked', 'refits_observed', 'reference_loops_agreeing', 'maxiter0_cases',
                         'nonpositive_weight_points', 'outliers_flagged', 'deletion_checks', 'invvar_none_cases', 'float32_cases',
                         'default_weights_mean_over_1e7_scatter_with_rejection', 'near_threshold_decisions_with_default_weights',
                         'near_threshold_decisions', 'default_limits_omitted_decided', 'default_weights_zero_variance',
                         'default_weights_float32_decided', 'default_weights_integer_ydata_decided')
    CASE_CPU_S = 120

    def setup(self):
        import pydl.pydlutils.bspline as B
        self.B = B
        self._lastfit = None

        self._statuses = []

        def fit_seen(a, k, r):
            # the data and weights the last refit received (in iterfit's own, sorted, order) and the status it returned
            self._lastfit = tuple(np.array(v, dtype='f8') for v in a[1:4]) + (int(r[0]),)
            self._statuses.append(int(r[0]))
        self.brd.per_case = 2
        self.brd.attach(self.rec, B, 'iterfit', every=3)                     # buffer-reuse differential (vlib/brd.py)
        self.rec.wrap(B.bspline, 'fit', result=fit_seen)
        self.rec.wrap(B, 'djs_reject')
        self.rec.wrap(B, 'iterfit')
        for f in (B.iterfit, B.bspline.fit, B.bspline.value):
            self.reach.add(f)
        import pydl.pydlutils.math as PM
        self.reach.add(PM.djs_reject)

    def teardown(self):
        self.rec.unwrap_all()

    def budget(self, tier):
        k = 1 if tier == 'quick' else 100
        return {'random': 500 * k, 'strong_outliers': 150 * k, 'maxiter0': 100 * k, 'invvar_none': 60 * k, 'float32': 80 * k,
                'gap': 150 * k, 'starved': 120 * k, 'few_points': 120 * k, 'default_weights': 240 * k}

    # ------------------------------------------------------------------ gen
    def gen(self, cls, rng, i):
        g = np_rng(rng)
        if cls == 'starved':
            # a cosmic-ray hit: every point of one or two breakpoint intervals is a strong outlier, so that rejection leaves those
            # intervals without data; fitted the way combine1fiber does (requiren=1: a breakpoint whose interval holds no usable
            # point is dropped before each fit), with explicit breakpoints
            k = rng.randint(2, 5)
            nint = rng.randint(8, 20)
            n = rng.randint(12, 30) * nint
            x = np.sort(g.uniform(0, 10, n))
            x[0], x[-1] = 0.0, 10.0
            sig = 10 ** rng.uniform(-2, 0)
            y = np.polyval(g.normal(size=k), (x - 5) / 5) * rng.uniform(0.5, 3) + g.normal(0, sig, n)
            iv = np.full(n, 1.0 / sig ** 2) * 10 ** g.uniform(-0.3, 0.3, n)
            edges = np.linspace(0, 10, nint + 1)
            hit = sorted(rng.sample(range(2, nint - 2), rng.choice([1, 1, 2])))
            io = np.nonzero(np.isin(np.searchsorted(edges, x, side='right') - 1, hit))[0]
            y[io] += g.uniform(30, 80, io.size) / np.sqrt(iv[io]) * (g.choice([-1, 1], io.size) if rng.random() < 0.7 else rng.choice([-1, 1]))
            bad = g.uniform(size=n) < rng.choice([0, 0.03])
            bad[io] = False
            bad[[0, -1]] = False
            iv[bad] = 0.0
            p = g.permutation(n) if rng.random() < 0.5 else np.arange(n)
            return {'kind': cls, 'x': x[p].tolist(), 'y': y[p].tolist(), 'iv': iv[p].tolist(), 'dtype': 'f8', 'nord': k,
                    'bkpt': edges.tolist(), 'upper': float(rng.choice([5, 4, 8])), 'lower': float(rng.choice([5, 4, 8])),
                    'maxiter': rng.choice([5, 10, 20]), 'hit': hit, 'perm_seed': rng.getrandbits(32)}
        if cls == 'few_points':
            # a heavily masked chunk: exactly order, order+1 or order+2 usable points on a single breakpoint interval (nbkpts=2,
            # a bkspace of the whole range, a two-element bkpt) carrying a polynomial of degree < order without noise, among
            # any number of zero / negative weight points
            k = rng.randint(2, 5)
            ngood = k + rng.choice([0, 0, 0, 1, 2])
            nbad = rng.choice([0, 1, 3, 10, 40])
            xg = np.sort(g.uniform(0, 10, ngood))
            xg[0], xg[-1] = 0.0, 10.0
            xg[1:-1] = np.linspace(0, 10, ngood + 2)[2:-2 or None][: ngood - 2] + g.uniform(-0.3, 0.3, ngood - 2) if ngood > 2 else xg[1:-1]
            xb = g.uniform(0.2, 9.8, nbad)
            x = np.concatenate([xg, xb])
            pc = g.normal(size=k)
            y = np.polyval(pc, (x - 5) / 5)
            y[ngood:] += g.normal(0, 5, nbad)
            iv = np.concatenate([10 ** g.uniform(-0.3, 0.3, ngood), g.choice([0.0, 0.0, -1.0], nbad)])
            p = g.permutation(x.size)
            opt = rng.choice(['nbkpts', 'bkspace', 'bkpt'])
            val = {'nbkpts': 2, 'bkspace': rng.choice([10.0, 10.5, 25.0]), 'bkpt': [0.0, 10.0]}[opt]
            return {'kind': cls, 'x': x[p].tolist(), 'y': y[p].tolist(), 'iv': iv[p].tolist(), 'dtype': 'f8', 'nord': k,
                    'opt': opt, 'optval': val, 'upper': 5.0, 'lower': 5.0, 'maxiter': rng.choice([0, 1, 3, 10]),
                    'poly': pc.tolist(), 'ngood': ngood}
        if cls == 'default_weights':
            return self.gen_default_weights(rng, g)
        k = rng.randint(2, 5)
        n = rng.randint(80, 400)
        m = rng.randint(0, 2)
        if m == 0:
            x = g.uniform(0, 10, n)
        elif m == 1:
            x = np.concatenate([g.uniform(0, 10, n // 2), g.normal(5, 1.5, n - n // 2).clip(0, 10)])
        else:
            x = g.uniform(0, 10, n)
            x[g.integers(0, n, n // 10)] = x[g.integers(0, n, n // 10)]
        sig = 10 ** rng.uniform(-2, 0)
        # the signal must be representable by the spline to noise level, otherwise the documented procedure itself
        # rejects (nearly) everything: polynomial of degree < order (exact for every knot vector), or a slow sine with
        # noise well above the interpolation error
        if rng.random() < 0.7:
            y = np.polyval(g.normal(size=k), (x - 5) / 5) * rng.uniform(0.5, 3) + g.normal(0, sig, n)
        else:
            sig = 10 ** rng.uniform(-0.7, 0)
            y = np.sin(x * rng.uniform(0.05, 0.2)) * rng.uniform(0.5, 2) + g.normal(0, sig, n)
        iv = np.full(n, 1.0 / sig ** 2) * 10 ** g.uniform(-0.3, 0.3, n)
        nout = rng.randint(0, 6) if cls != 'strong_outliers' else rng.randint(1, 5)
        io = g.choice(n, nout, replace=False) if nout else np.array([], dtype=int)
        if cls == 'strong_outliers':
            # "clear" outliers: not among the few points at either end of the range, where a single point has leverage ~1
            # and the spline can follow it (then the documented procedure itself does not reject it)
            inner = np.argsort(x)[n // 10: n - n // 10]
            io = g.choice(inner, nout, replace=False)
        amp = g.uniform(8, 60, nout) if cls != 'strong_outliers' else g.uniform(40, 80, nout)
        y[io] += g.choice([-1, 1], nout) * amp / np.sqrt(iv[io])
        zfrac = rng.choice([0, 0.03, 0.1])
        bad = (g.uniform(size=n) < zfrac)
        bad[io] = False
        iv[bad] = g.choice([0.0, 0.0, -1.0], int(bad.sum()))
        if cls == 'gap':
            # a contiguous block of zero-weight points (a data gap several breakpoint intervals wide): the fit has to
            # drop breakpoints mid-iteration and carry on with the reduced set
            a = rng.uniform(1.0, 6.0)
            wgap = rng.uniform(1.5, 3.5)
            blk = (x > a) & (x < a + wgap)
            blk[io] = False
            iv[blk] = 0.0
        # intervals with >= k+4 good points: choose the breakpoint option value accordingly
        good = x[iv > 0]
        ngood = good.size
        maxint = max(1, ngood // (3 * (k + 4)))
        nint = rng.randint(1, maxint)
        opt = rng.choice(['nbkpts', 'bkspace', 'everyn'])
        if cls == 'gap':
            nint = max(8, min(25, ngood // (k + 6)))         # intervals of ~0.4-1.2: the gap spans several of them
            opt = rng.choice(['nbkpts', 'bkspace'])
        # well-supported: every (uniform) interval keeps >= k+4 good points even after the outliers are rejected
        keep = iv > 0
        keep[io] = False
        gk = x[keep]
        while cls != 'gap' and nint > 1 and np.histogram(gk, bins=np.linspace(good.min(), good.max(), nint + 1))[0].min() < k + 4:
            nint -= 1
        if opt == 'nbkpts':
            val = nint + 1
        elif opt == 'bkspace':
            val = float((good.max() - good.min()) / nint) * 1.0000001
        else:
            val = min(max(ngood // nint, 2 * (k + 4)), ngood // 2)     # at least two breakpoints (see F-B0)
        upper = rng.choice([5, 5, 3, 4, 8, rng.uniform(2, 8)])
        lower = upper if rng.random() < 0.6 else rng.choice([5, 3, 8, rng.uniform(2, 8)])
        maxiter = 0 if cls == 'maxiter0' else rng.choice([1, 2, 3, 10, 10, rng.randint(0, 10)])
        if cls == 'random' and rng.random() < 0.08:
            # a one-sided limit of exactly zero (envelope / continuum fitting): everything on that side of the curve is rejected
            if rng.random() < 0.5:
                lower = 0.0
            else:
                upper = 0.0
            maxiter = rng.choice([1, 1, 2])
        if cls == 'gap':
            maxiter = rng.choice([5, 10, 10, 20])
        # the documented procedure has no absolute flux scale: a third of the cases are in other units (counts ... micro-flux),
        # flux times u and inverse variance over u^2
        if rng.random() < 0.35:
            u = 10 ** rng.uniform(-6, 6)
            y = y * u
            iv = iv / u ** 2
        dt = 'f4' if cls == 'float32' else 'f8'
        return {'kind': cls, 'x': x.astype(dt).astype('f8').tolist(), 'y': y.astype(dt).astype('f8').tolist(),
                'iv': None if cls == 'invvar_none' else iv.astype(dt).astype('f8').tolist(), 'dtype': dt,
                'nord': k, 'opt': opt, 'optval': val, 'upper': float(upper), 'lower': float(lower), 'maxiter': int(maxiter),
                'outliers': sorted(int(j) for j in io), 'perm_seed': rng.getrandbits(32), 'sorted': rng.random() < 0.3,
                'good_sorted': rng.random() < 0.3}

    def gen_default_weights(self, rng, g):
        """invvar omitted (weights = inverse sample variance of ydata) on the kinds of ydata for which that variance is delicate,
        and decisions planted close to the limits, which is where a wrong weight shows:
        offset   - a stable quantity measured to high relative precision: |mean| 1e2 ... 1e10 times the standard deviation of
                   ydata, float64 (float32: 3 ... 300 times), clear outliers; limits, maxiter and order given or left to their defaults
        ladder   - 2-10 points planted so that their residual after the first fit lies at a limit times (1 +- 1e-5 ... 3e-2), on both
                   sides of it (default weights, or given weights); explicit breakpoints or nbkpts
        counts   - integer ydata (photon counts) with a large mean
        constant - exactly constant ydata whose sample variance is exactly zero (the documented fallback to unit weights),
                   alone or with one or two spikes"""
        mode = rng.choice(['offset'] * 9 + ['ladder'] * 7 + ['counts'] * 2 + ['constant'] * 2)
        defaults = rng.random() < 0.35
        k = 4 if defaults and rng.random() < 0.5 else rng.randint(2, 5)
        dt, xdt = 'f8', 'f8'
        iv = None
        io = np.array([], dtype=int)
        upper = float(rng.choice([5, 5, 4, 3, 6, round(rng.uniform(3, 7), 3)]))
        lower = upper if rng.random() < 0.6 else float(rng.choice([5, 4, 3, 6, round(rng.uniform(3, 7), 3)]))
        maxiter = rng.choice([0, 1, 2, 3, 10, 10, 20])
        if defaults:
            upper, lower, maxiter = 5.0, 5.0, 10
        ratio = 0.0
        if mode == 'ladder':
            n = rng.randint(300, 500)
            x = g.uniform(0, 10, n)
            x[0], x[1] = 0.0, 10.0
            nint = rng.randint(2, 10)
            edges = np.linspace(0.0, 10.0, nint + 1)
            noise = 10 ** rng.uniform(-3, 0)
            amp = noise * 10 ** rng.uniform(-1, 1)
            ratio = rng.choice([0.0, 10 ** rng.uniform(0, 4)])
            y = rng.choice([-1, 1]) * noise * ratio + amp * np.polyval(g.normal(size=k), (x - 5) / 5) + g.normal(0, noise, n)
            given = rng.random() < 0.35
            w = np.full(n, 1.0 / noise ** 2) * 10 ** g.uniform(-0.3, 0.3, n) if given else None
            lim = max(upper, lower)
            nl = max(2, min(10, int(0.4 * n / lim ** 2))) if not given else rng.randint(4, 10)
            inner = np.argsort(x)[n // 10: n - n // 10]
            L = g.choice(inner, nl, replace=False)
            side = g.choice([-1.0, 1.0], nl)
            d = g.choice([-1.0, 1.0], nl) * 10 ** g.uniform(-5, -1.5, nl)
            target = side * np.where(side > 0, upper, lower) * (1 + d)          # residual / sigma after the first fit
            A = space_basis(edges, k, x)
            sw = np.sqrt(w) if given else np.ones(n)
            P = np.linalg.pinv(A * sw[:, None])
            for it in range(200):
                f = A @ (P @ (y * sw))
                sigma = 1.0 / sw[L] if given else math.sqrt(sample_variance(y))
                new = f[L] + target * sigma
                delta = float(np.abs(new - y[L]).max())
                y[L] = new
                if delta <= 1e-13 * float(np.abs(y).max()):
                    break
            io = np.sort(L)
            iv = w
            opt = rng.choice(['bkpt', 'nbkpts'])
            val = edges.tolist() if opt == 'bkpt' else nint + 1
            if maxiter == 0:
                maxiter = 1
        elif mode == 'constant':
            n = rng.randint(30, 400)
            x = g.uniform(0, 10, n)
            # n * c and every partial sum exactly representable: the sample variance is exactly zero however it is summed
            if rng.random() < 0.3:
                dt, xdt = 'f4', 'f4'
            c = rng.choice([0.0, 1.0, 7.25, -3.5])
            if dt == 'f8' and rng.random() < 0.5:
                c = rng.randint(-2 ** 20, 2 ** 20) / 2.0 ** rng.randint(0, 10) * 2.0 ** rng.randint(-30, 30)
            y = np.full(n, c)
            nsp = rng.choice([0, 0, 1, 2])
            if nsp:
                io = np.sort(g.choice(np.argsort(x)[n // 10: n - n // 10], nsp, replace=False))
                y[io] += g.choice([-1.0, 1.0], nsp) * (abs(c) + 1.0) * g.uniform(0.01, 3.0, nsp)
            nint = rng.randint(1, max(1, n // (3 * (k + 4))))
            while nint > 1 and np.histogram(np.delete(x, io), bins=np.linspace(x.min(), x.max(), nint + 1))[0].min() < k + 4:
                nint -= 1
            opt = rng.choice(['nbkpts', 'bkspace'])
            val = nint + 1 if opt == 'nbkpts' else float((x.max() - x.min()) / nint) * 1.0000001
        else:
            n = rng.randint(150, 400)
            if rng.random() < 0.6:
                x = g.uniform(0, 10, n)
            else:
                x = np.concatenate([g.uniform(0, 10, n // 2), g.normal(5, 1.5, n - n // 2).clip(0, 10)])
            if mode == 'counts':
                level = 10 ** rng.uniform(2, 7)
                yy = level * (1 + 0.03 * rng.uniform(0, 3) * np.polyval(g.normal(size=k), (x - 5) / 5).clip(-3, 3))
                y = g.poisson(yy).astype('f8')
                noise, amp = math.sqrt(level), 0.03 * level
                dt = 'i8'
            else:
                noise = 10 ** rng.uniform(-4, 0)
                if rng.random() < 0.15:
                    dt, xdt = 'f4', 'f4'
                    ratio = 10 ** rng.uniform(0.5, 2.5)
                else:
                    ratio = 10 ** rng.uniform(2, 10)
                amp = noise * 10 ** rng.uniform(-1, 1.5)
                if rng.random() < 0.7:
                    sig = np.polyval(g.normal(size=k), (x - 5) / 5)
                else:
                    amp = min(amp, noise)             # a sine is not in the spline space: keep it below the noise
                    sig = np.sin(x * rng.uniform(0.05, 0.2))
                y = amp * sig + g.normal(0, noise, n)
            nout = rng.randint(0, min(4, n // 60))
            if nout:
                io = np.sort(g.choice(np.argsort(x)[n // 10: n - n // 10], nout, replace=False))
                bump = g.choice([-1, 1], nout) * (3 * amp + noise) * g.uniform(30, 300, nout)
                y[io] += np.round(bump) if mode == 'counts' else bump
            if mode == 'counts':
                y = np.maximum(y, 0)
                ratio = float(y.mean() / y.std())
            else:
                # `ratio` is |mean| / standard deviation of ydata as the caller hands it over (signal, noise and outliers)
                y = y - y.mean() + rng.choice([-1, 1]) * float(y.std()) * ratio
            keep = np.ones(n, dtype=bool)
            keep[io] = False
            nint = rng.randint(1, max(1, n // (3 * (k + 4))))
            while nint > 1 and np.histogram(x[keep], bins=np.linspace(x.min(), x.max(), nint + 1))[0].min() < k + 4:
                nint -= 1
            opt = rng.choice(['nbkpts', 'bkspace', 'everyn', 'bkpt'])
            if opt == 'nbkpts':
                val = nint + 1
            elif opt == 'bkspace':
                val = float((x.max() - x.min()) / nint) * 1.0000001
            elif opt == 'everyn':
                val = min(max(n // nint, 2 * (k + 4)), n // 2)
            else:
                val = np.linspace(x.astype(xdt).min(), x.astype(xdt).max(), nint + 1).astype(xdt).astype('f8').tolist()
        ylist = [int(v) for v in y] if dt == 'i8' else y.astype(dt).astype('f8').tolist()
        return {'kind': 'default_weights', 'mode': mode, 'x': x.astype(xdt).astype('f8').tolist(), 'y': ylist,
                'iv': None if iv is None else iv.tolist(), 'dtype': dt, 'xdtype': xdt, 'nord': k, 'opt': opt, 'optval': val,
                'upper': upper, 'lower': lower, 'maxiter': int(maxiter), 'defaults': bool(defaults),
                'omit_nord': bool(defaults and k == 4), 'ratio': float(ratio), 'outliers': [int(j) for j in io],
                'perm_seed': rng.getrandbits(32), 'sorted': rng.random() < 0.3, 'good_sorted': False}

    # ------------------------------------------------------------------ run
    def _call(self, x, y, iv, case):
        kw = {case['opt']: np.array(case['optval'], dtype=x.dtype) if case['opt'] == 'bkpt' else case['optval']}
        if not case.get('omit_nord'):
            kw['nord'] = case['nord']
        if not case.get('defaults'):
            # 'defaults': the caller leaves upper, lower and maxiter (and possibly nord) to their documented defaults 5, 5, 10 (4)
            kw.update(upper=case['upper'], lower=case['lower'], maxiter=case['maxiter'])
        with warnings.catch_warnings():
            warnings.simplefilter('ignore')
            with np.errstate(all='ignore'):
                if iv is None:
                    s, m = self.B.iterfit(x, y, **kw)
                else:
                    s, m = self.B.iterfit(x, y, invvar=iv, **kw)
                c, vm = s.value(x)
        return s, m, c, vm

    # ------------------------------------------------------------------ canary
    def canary(self):
        """A fixed, ordinary call sequence whose answer cannot depend on what ran before it in this process: a fit whose
        breakpoints are denser than the sampling (takes the fit's not-positive-definite fallback), then a fit with rejection
        on data carrying negative 'bad pixel' inverse variances and zeros.  Returns something comparable."""
        g = np.random.default_rng(12345)
        x = np.linspace(0.0, 10.0, 60)
        y = np.sin(x) + g.normal(0, 0.05, 60)
        iv = np.full(60, 400.0)
        iv[[3, 17, 40]] = -1.0
        iv[[8, 9]] = 0.0
        y[25] += 3.0
        res = []
        for kw, xx, yy, ii in (({'nbkpts': 40, 'maxiter': 1}, x[::3], y[::3], np.abs(iv[::3]) + 1),
                               ({'nbkpts': 6, 'maxiter': 3, 'upper': 4, 'lower': 4}, x, y, iv),
                               ({'everyn': 1, 'maxiter': 0}, x[:12], y[:12], None),
                               ({'bkspace': 2.5, 'maxiter': 2}, x, y, None)):
            try:
                # no np.errstate() here: the context manager would put back whatever the calls leave behind
                with warnings.catch_warnings():
                    warnings.simplefilter('ignore')
                    sset, m = (self.B.iterfit(xx, yy, invvar=ii, nord=3, **kw) if ii is not None
                               else self.B.iterfit(xx, yy, nord=3, **kw))
                    c = sset.value(xx)[0]
                res.append(('ok', m.tobytes(), np.asarray(c, dtype='f8').round(9).tobytes()))
            except Exception as e:
                res.append(('raised', type(e).__name__, str(e)[:80]))
        return res

    def run_few_points(self, case, out):
        x, y, iv = (np.array(case[n]) for n in ('x', 'y', 'iv'))
        k = case['nord']
        kw = {case['opt']: np.array(case['optval']) if case['opt'] == 'bkpt' else case['optval'], 'nord': k, 'upper': case['upper'],
              'lower': case['lower'], 'maxiter': case['maxiter']}
        with warnings.catch_warnings():
            warnings.simplefilter('ignore')
            with np.errstate(all='ignore'):
                s, m = self.B.iterfit(x, y, invvar=iv, **kw)
        pos = iv > 0
        out.count('few_points_cases')
        out.count('few_points_exactly_order_usable', int(pos.sum()) == k)
        out.expect(isinstance(m, np.ndarray) and m.shape == x.shape and bool(np.array_equal(m, pos)), 'weights',
                   '%d usable points on a noise-free polynomial of degree %d, order %d: the mask is not (invvar > 0); %d usable points flagged False'
                   % (int(pos.sum()), k - 1, k, int((pos & ~np.asarray(m, dtype=bool)).sum())))
        try:
            with np.errstate(all='ignore'):
                c, vm = s.value(x)
        except Exception as e:
            out.fail('maxiter0' if case['maxiter'] == 0 else 'procedure-curve', 'the returned spline set cannot be evaluated: %s: %s'
                     % (type(e).__name__, str(e)[:100]), usable=int(pos.sum()), order=k)
            return
        p = np.polyval(np.array(case['poly']), (x - 5) / 5)
        dev = float(np.abs(np.asarray(c, dtype='f8') - p).max())
        out.expect(dev <= 1e-7 * max(1.0, float(np.abs(p).max())), 'maxiter0' if case['maxiter'] == 0 else 'procedure-curve',
                   'the weighted fit of order %d through %d usable points of a degree-%d polynomial differs from it by %.3g'
                   % (k, int(pos.sum()), k - 1, dev))
        out.nontrivial = True
        out.info.update(order=k, n=x.size, usable=int(pos.sum()), maxiter=case['maxiter'], opt=case['opt'])

    def run_starved(self, case, out):
        x, y, iv = (np.array(case[n]) for n in ('x', 'y', 'iv'))
        k = case['nord']

        def call(w, maxiter):
            self._statuses = []
            self._lastfit = None
            with warnings.catch_warnings():
                warnings.simplefilter('ignore')
                with np.errstate(all='ignore'):
                    s, m = self.B.iterfit(x, y, invvar=w, nord=k, bkpt=np.array(case['bkpt']), requiren=1, upper=case['upper'],
                                          lower=case['lower'], maxiter=maxiter)
                    c = np.asarray(s.value(x)[0], dtype='f8')
            return s, np.asarray(m, dtype=bool), c, list(self._statuses), self._lastfit
        s, m, c, st, last = call(iv, case['maxiter'])
        pos = iv > 0
        out.count('starved_cases')
        out.expect(not bool(np.any(m[~pos])), 'weights', 'point with non-positive inverse variance flagged good')
        edges = np.array(case['bkpt'])
        cell = np.searchsorted(edges, x, side='right') - 1
        emptied = [h for h in case['hit'] if not np.any(m[cell == h])]
        out.count('starved_intervals_emptied_by_rejection', len(emptied))
        o = np.argsort(x, kind='stable')
        converged = last is not None and bool(np.array_equal(last[2] > 0, m[o]))
        if not emptied or not converged or any(v != 0 for v in st):
            out.count('starved_not_decidable_no_convergence_or_failed_refit', bool(emptied))
            out.undecide()
            return
        # the end state of a converged run is a fixed point: the same data with the rejected points given zero weight from the
        # start lead to the same breakpoints and the same curve (with requiren=1 the dropped breakpoints are a function of the
        # usable points alone: those whose interval holds none)
        s2, m2, c2, st2, last2 = call(np.where(m, iv, 0.0), case['maxiter'])
        if any(v != 0 for v in st2):
            out.undecide()
            return
        inside = (x >= edges[0]) & (x <= edges[-1])
        out.expect(bool(np.array_equal(np.asarray(s.mask, dtype=bool), np.asarray(s2.mask, dtype=bool))), 'outliers',
                   'rejected points keep influencing the fit: with them at zero weight from the start breakpoints %s are dropped, '
                   'after rejecting them %s' % (np.nonzero(~np.asarray(s2.mask, dtype=bool))[0].tolist(),
                                                np.nonzero(~np.asarray(s.mask, dtype=bool))[0].tolist()), emptied=emptied)
        both = np.isfinite(c) & np.isfinite(c2) & inside & m
        ys = max(float(np.abs(y[m]).max()), 1e-300)
        dev = float(np.abs(c - c2)[both].max()) if both.any() else 0.0
        out.expect(bool(np.array_equal(m2, m)) and dev <= 1e-6 * ys, 'outliers',
                   'the curve is affected by rejected outliers: with them at zero weight from the start it differs by %.3g (scale %.3g), '
                   'masks differ at %d points' % (dev, ys, int((m2 != m).sum())), emptied=emptied)
        out.count('starved_fixed_points_checked')
        out.nontrivial = True
        out.info.update(order=k, n=x.size, emptied=emptied, fits=len(st))

    def run(self, case, out):
        if case['kind'] in ('starved', 'few_points'):
            return getattr(self, 'run_' + case['kind'])(case, out)
        dt = case['dtype']
        dw = case['kind'] == 'default_weights'
        x = np.array(case['x'], dtype=case.get('xdtype', dt))
        y = np.array(case['y'], dtype=dt)
        iv = None if case['iv'] is None else np.array(case['iv'], dtype=dt)
        if case['sorted']:
            o = np.argsort(x, kind='stable')
            x, y = x[o], y[o]
            iv = None if iv is None else iv[o]
        elif case.get('good_sorted') and iv is not None:
            # the usable points in increasing order, the zero / negative weight points left wherever they were (junk abscissae
            # at bad pixels, two segments joined with a masked overlap): still just another order of the same data
            gi = np.nonzero(iv > 0)[0]
            o = np.argsort(x[gi], kind='stable')
            x[gi], y[gi], iv[gi] = x[gi][o], y[gi][o], iv[gi][o]
            self._remap = np.arange(x.size)
            self._remap[gi[o]] = gi          # where each original index went
            out.count('good_points_sorted_bad_points_out_of_order', bool(np.any(np.diff(x) < 0)))
        n = x.size
        f32 = dt == 'f4'
        band = 2e-3 if f32 else 1e-6
        ctol = 3e-3 if f32 else 1e-7
        nfit0 = self.rec.calls.get('bspline.fit', 0)
        self._lastfit = None
        s, m, c, vm = self._call(x, y, iv, case)
        nfits = self.rec.calls.get('bspline.fit', 0) - nfit0
        out.count('refits_observed', max(0, nfits - 1))
        out.count('float32_cases', f32)
        out.count('invvar_none_cases', iv is None)
        out.count('maxiter0_cases', case['maxiter'] == 0)
        out.count('one_sided_limit_exactly_zero', case['lower'] == 0 or case['upper'] == 0)
        out.expect(isinstance(m, np.ndarray) and m.dtype == bool and m.shape == x.shape, 'mask-shape', 'mask %r' % (getattr(m, 'shape', m),))
        if out.fails:
            return
        if not bool(np.all(s.mask)):
            # the fit's own conditioning guard dropped a breakpoint (typically after the right-most points were
            # rejected): by the code's own criterion the problem was not well supported -> outside C10's domain (C09
            # decides whether a drop was legitimate); counted, never a verdict
            out.count('breakpoint_dropped_cases')
            self._fixed_point(out, case, s, m, c, x, y, iv)
            return
        # effective weights as the documented procedure sees them
        xd, yd = x.astype('f8'), y.astype('f8')
        if iv is None:
            # documented default weights: the inverse of the sample variance of ydata (unit weights when that is zero)
            var = sample_variance(yd) or 1.0
            ivd = np.full(n, 1.0 / var)
        else:
            ivd = iv.astype('f8')
        pos = ivd > 0
        out.count('nonpositive_weight_points', int((~pos).sum()))
        # (2) non-positive weights are flagged False
        out.expect(not bool(np.any(m[~pos])), 'weights', 'point with non-positive inverse variance flagged good',
                   idx=np.nonzero(m & ~pos)[0][:5])
        t = np.asarray(s.breakpoints, dtype='f8')
        k = case['nord']
        nk = len(t) - k
        inside = (xd >= t[k - 1]) & (xd <= t[nk])
        ys = max(float(np.abs(yd).max()), 1e-300)
        # (4)/(3) reference loop
        fit, rmask, rit, near, cond, stat = ref_loop(xd, yd, ivd, t, k, case['upper'], case['lower'], case['maxiter'], band)
        # the code solves the normal equations (error ~ cond(A sqrt(W))^2 * eps); tolerance derived from that conditioning
        eps = 6e-8 if f32 else 1.1e-16
        craw = max(1e4 * eps, 100 * eps * cond ** 2)
        ctol = max(ctol, 100 * eps * cond ** 2)
        band_eff = band
        if dw:
            # data with a large mean: the floor of 1e-7 of the largest |y| would be far above the scatter; the derived bound alone
            # (observed on the unchanged code: at most 12 eps cond^2, i.e. 5e-15 of the largest |y|) with a floor of 1e4 eps
            if not f32:
                ctol = craw
            # a curve error of that size moves a residual by craw * max|y| * sqrt(invvar) sigma: decisions closer than that to a
            # limit are undecided (for the other classes max|y| * sqrt(invvar) is a few hundred and the fixed band covers it)
            band_eff = max(band, craw * ys * math.sqrt(float(ivd[pos].max())))
            near = near or not stat['margin'] >= band_eff
        out.info['cond'] = cond
        if near or fit is None or ctol > (3e-2 if f32 else 1e-4):
            out.undecide()
            decided = False
        else:
            decided = True
            out.expect(bool(np.array_equal(m, rmask)), 'procedure-mask',
                       'returned mask differs from the documented fit/reject/refit procedure at %d points (reference did %d fits, code %d)'
                       % (int((m != rmask).sum()), rit, nfits), idx=np.nonzero(m != rmask)[0][:8], maxiter=case['maxiter'])
            dev = float(np.abs(c.astype('f8') - fit)[inside].max())
            out.expect(dev <= ctol * ys, 'procedure-curve',
                       'returned curve differs from the documented procedure by %.3g (limit %.3g; reference %d fits, code %d fits)'
                       % (dev, ctol * ys, rit, nfits), maxiter=case['maxiter'])
            out.expect(nfits == rit, 'procedure-iterations', 'code performed %d fits, the documented procedure %d (maxiter=%d)'
                       % (nfits, rit, case['maxiter']))
            if not out.fails:
                out.count('reference_loops_agreeing')
            if case['maxiter'] == 0:
                A = BR.basis_matrix(t, k, xd, extrapolate=True)
                c0, rank, sv = BR.wls(A, yd, np.where(pos, ivd, 0.0))
                dev0 = float(np.abs(c.astype('f8') - A @ c0)[inside].max())
                out.expect(dev0 <= ctol * ys, 'maxiter0', 'maxiter=0 curve is not the plain weighted fit (dev %.3g)' % dev0)
            # injected strong outliers end up False and do not influence the curve
            if dw:
                self._default_weights_clauses(out, case, m, c, rmask, stat, xd, yd, ivd, pos, t, k, inside, ctol, ys, band_eff)
            if case['kind'] == 'strong_outliers' and case['maxiter'] >= 3 and iv is not None:
                o = np.array(case['outliers'], dtype=int)
                if case['sorted']:
                    inv = np.empty(n, dtype=int)
                    inv[np.argsort(np.array(case['x'], dtype=dt), kind='stable')] = np.arange(n)
                    o = inv[o]
                elif case.get('good_sorted'):
                    o = self._remap[o]
                if bool(np.any(rmask[o])):
                    out.undecide()          # the documented procedure itself keeps it (leverage): not a "clear" outlier
                else:
                    out.expect(not bool(np.any(m[o])), 'outliers', 'a >= 40 sigma outlier is flagged good', idx=o[m[o]])
                out.count('outliers_flagged', int((~m[o]).sum()))
                clean = pos.copy()
                clean[o] = False
                if np.array_equal(m, clean):
                    A = BR.basis_matrix(t, k, xd, extrapolate=True)
                    cc, rank, sv = BR.wls(A, yd, np.where(clean, ivd, 0.0))
                    devc = float(np.abs(c.astype('f8') - A @ cc)[inside].max())
                    out.expect(devc <= ctol * ys, 'outliers', 'curve is affected by rejected outliers (dev from the clean fit %.3g)' % devc)
        # (1) permutation
        g = np.random.default_rng(case['perm_seed'])
        p = g.permutation(n)
        s2, m2, c2, vm2 = self._call(x[p], y[p], None if iv is None else iv[p], case)
        if decided:
            out.expect(bool(np.array_equal(m2, m[p])), 'permutation-mask', 'mask of the permuted problem is not the permuted mask (%d differ)'
                       % int((m2 != m[p]).sum()))
            devp = float(np.abs(c2.astype('f8') - c.astype('f8')[p])[inside[p]].max())
            out.expect(devp <= (ctol if dw and not f32 else max(3e-3 if f32 else 1e-8, ctol / 10)) * ys, 'permutation-curve', 'curve depends on the order of the data (dev %.3g)' % devp)
            out.count('permutations_checked')
        # (2b) deleting the non-positively weighted points changes nothing
        if iv is not None and (~pos).any() and decided:
            s3, m3, c3, vm3 = self._call(x[pos], y[pos], iv[pos], case)
            out.expect(bool(np.array_equal(m3, m[pos])), 'deletion', 'deleting zero-weight points changed the mask')
            devd = float(np.abs(c3.astype('f8') - c.astype('f8')[pos])[inside[pos]].max())
            out.expect(devd <= max(3e-3 if f32 else 1e-8, ctol / 10) * ys, 'deletion', 'deleting zero-weight points changed the curve by %.3g' % devd)
            out.count('deletion_checks')
        rejected_by_limit = int((pos & ~m).sum())
        out.nontrivial = decided and rejected_by_limit >= 1
        out.info.update(order=k, n=n, fits=nfits, rejected=rejected_by_limit, maxiter=case['maxiter'], opt=case['opt'])

    def _default_weights_clauses(self, out, case, m, c, rmask, stat, xd, yd, ivd, pos, t, k, inside, ctol, ys, band_eff):
        """Counters of the deciding branches of class default_weights, and the 'clear outliers' clause for invvar omitted."""
        mode = case['mode']
        n = xd.size
        o = np.array(case['outliers'], dtype=int)
        if case['sorted'] and o.size:
            inv = np.empty(n, dtype=int)
            inv[np.argsort(np.array(case['x'], dtype=case['xdtype']), kind='stable')] = np.arange(n)
            o = inv[o]
        rej = int((pos & ~rmask).sum())
        out.count('default_weights_decided_' + mode)
        out.count('default_limits_omitted_decided', bool(case['defaults']))
        if case['iv'] is None:
            out.count('default_weights_rejections', rej)
            out.count('default_weights_mean_over_1e7_scatter_with_rejection', case['ratio'] >= 1e7 and rej >= 1)
            out.count('default_weights_float32_decided', case['dtype'] == 'f4')
            out.count('default_weights_integer_ydata_decided', case['dtype'] == 'i8')
            out.count('default_weights_zero_variance', mode == 'constant' and not o.size)
        if mode == 'ladder':
            out.count('near_threshold_decisions', stat['close'])
            out.count('near_threshold_decisions_with_default_weights', stat['close'] if case['iv'] is None else 0)
        elif o.size and case['maxiter'] >= 1 and not bool(np.any(rmask[o])):
            # clear outliers: the documented procedure, with the inverse sample variance as weights, rejects every one of them
            out.expect(not bool(np.any(m[o])), 'outliers', '%d of %d clear outliers (%.1f ... %.1f sigma of the data, limits -%g/+%g) '
                       'are flagged good' % (int(m[o].sum()), o.size, float(np.abs(yd[o] - np.median(yd)).min() * math.sqrt(ivd[0])),
                                             float(np.abs(yd[o] - np.median(yd)).max() * math.sqrt(ivd[0])), case['lower'], case['upper']),
                       idx=o[m[o]])
            out.count('outliers_flagged', int((~m[o]).sum()))
            clean = pos.copy()
            clean[o] = False
            if np.array_equal(m, clean) and stat.get('converged'):
                # (a run stopped by maxiter may reject the last outlier in its final pass: its curve is then the fit that still held it)
                A = BR.basis_matrix(t, k, xd, extrapolate=True)
                cc, rank, sv = BR.wls(A, yd, np.where(clean, ivd, 0.0))
                devc = float(np.abs(c.astype('f8') - A @ cc)[inside].max())
                out.expect(devc <= ctol * ys, 'outliers', 'curve is affected by rejected outliers (dev from the clean fit %.3g, limit %.3g)'
                           % (devc, ctol * ys))
                out.count('default_weights_curve_equals_clean_fit')
        out.info.update(mode=mode, ratio=case['ratio'], band=band_eff, margin=stat['margin'])

    def _fixed_point(self, out, case, s, m, c, x, y, iv):
        """The fit dropped breakpoints (data gap).  The intermediate knot sets are the code's own business, but the END
        state is decidable: weights clause; the returned curve must be the weighted LS optimum, over the breakpoints still
        unmasked, of the data and weights the last refit received (recorded at the bspline.fit boundary); and the returned mask
        must be the rejection rule applied to that curve."""
        xd, yd = x.astype('f8'), y.astype('f8')
        n = x.size
        if iv is None:
            var = sample_variance(yd) or 1.0
            ivd = np.full(n, 1.0 / var)
        else:
            ivd = iv.astype('f8')
        pos = ivd > 0
        out.expect(not bool(np.any(m[~pos])), 'weights', 'point with non-positive inverse variance flagged good')
        k = case['nord']
        gb = np.asarray(s.breakpoints, dtype='f8')[np.asarray(s.mask, dtype=bool)]
        if len(gb) < 2 * k or not np.all(np.isfinite(c)):
            out.undecide()
            return
        if self._lastfit is None or int(m.sum()) <= 1:
            out.undecide()
            return
        # Which mask the last refit used cannot be told from (curve, mask) alone - the returned mask is by construction what the
        # rejection rule makes of the returned curve, converged or stopped by maxiter - so the weights that refit received
        # are taken from the recorded call.
        xl, yl, wl, last_status = self._lastfit
        if last_status != 0:
            # the last refit itself reported (documented status -1) that it dropped breakpoints and left the coefficients of
            # the previous fit in place; the loop would have refitted had iterations remained
            out.count('last_refit_reported_failure')
            out.undecide()
            return
        if xl.size != n or not np.array_equal(np.sort(xd), xl):
            out.fail('harness-error', 'the recorded last bspline.fit call does not belong to this iterfit call')
            return
        cl = np.asarray(s.value(xl.astype(x.dtype))[0], dtype='f8')
        # (a) the returned mask is the rejection rule applied to the returned curve, within the points the last refit used
        o = np.argsort(xd, kind='stable')
        ivs, ms = ivd[o], m[o]
        if np.array_equal(xd[o], xl) and not np.any(np.diff(xl) == 0):
            r = (yl - cl) * np.sqrt(np.where(ivs > 0, ivs, 0.0))
            band = 1e-6
            near = (np.abs(r + case['lower']) < band * max(1, case['lower'])) | (np.abs(r - case['upper']) < band * max(1, case['upper']))
            expect_mask = (wl > 0) & ~((r < -case['lower']) | (r > case['upper']))
            dec = ~near
            out.expect(bool(np.array_equal(ms[dec], expect_mask[dec])), 'fixed-point-mask',
                       'returned mask is not the rejection rule applied to the returned curve over the points of the last refit '
                       '(%d points differ)' % int((ms[dec] != expect_mask[dec]).sum()))
            out.count('fixed_point_mask_checked')
        A = BR.basis_matrix(gb, k, xl, extrapolate=True)
        wfin = np.where(wl > 0, wl, 0.0)
        cref, rank, sv = BR.wls(A, yl, wfin)
        cond = float(sv[0] / sv[-1]) if sv[-1] > 0 else np.inf
        if rank < A.shape[1] or cond ** 2 * 1.1e-16 > 1e-6:
            out.undecide()
            return
        chi = float(np.sum(wfin * (yl - cl) ** 2))
        chi_ref = float(np.sum(wfin * (yl - A @ cref) ** 2))
        scale = float(np.sum(wfin * yl * yl)) + 1e-300
        out.expect(chi <= chi_ref + 1e-7 * scale, 'fixed-point-optimum',
                   'the returned curve is not the weighted LS optimum, over the %d unmasked breakpoints, of the data and weights '
                   'its last refit received: chi-square %.6g vs %.6g' % (len(gb), chi, chi_ref),
                   rejected=int((pos & ~m).sum()), dropped_breakpoints=int((~np.asarray(s.mask, dtype=bool)).sum()))
        out.count('fixed_point_optimality_checked')
        out.nontrivial = True

    def summarise(self, case):
        c = dict(case)
        for kk in ('x', 'y', 'iv'):
            if c.get(kk):
                c[kk] = c[kk][:5] + ['... %d values' % len(case[kk])]
        return c


CHECK = C10()
