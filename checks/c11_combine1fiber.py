"""C11 - combine1fiber resamples spectra: finite flux, conservative inverse variance.

Events: combine1fiber(inloglam, objflux, newloglam, objivar=..., aesthetics=...) -> (newflux, newivar);
preprocess_spectra(flux, ivar, loglam, zfit, newloglam=...).  A socket.connect audit event makes the case a harness error
(the maskbits cache is pre-loaded from a committed fixture, nothing may be downloaded).
Oracle: lengths / finiteness / ivar >= 0; the must-be-zero set computed from the input good-pixel pattern; for a single
spectrum non-zero output ivar == np.interp of the input ivar; reproduction / constant / scaling relations on smooth
noise-free inputs; de-redshift moves a narrow feature by log10(1+z).
"""
import os
import warnings
import numpy as np
from vlib.harness import Check, np_rng, VERIF
from vlib.monitors import AuditLog

METHODS = ['traditional', 'noconst', 'mean', 'damp', 'nothing']
# dtypes of the flux array handed to preprocess_spectra (deredshift_forms): double, single, big-endian as read from FITS, and
# whole counts in signed / unsigned integer dtypes
FLUX_KINDS = ['i4', 'f4', 'u2', '>f4', 'i2', 'f8', 'i8', '>f8', 'u4']


def must_be_zero(ll2, good2, x, binsz):
    """Output pixels that do NOT lie between two adjacent good input pixels of any exposure (and are not within the
    boundary band of a good pixel).  ll2: (nspec, n) increasing rows; good2 bool; returns (Z, free)."""
    allowed = np.zeros(x.size, dtype=bool)
    free = np.zeros(x.size, dtype=bool)
    band = 1e-6 * abs(binsz) + 8 * np.finfo(np.float64).eps * np.abs(x).max()
    if ll2.dtype == np.float32:
        band = 1e-3 * abs(binsz)
    for ll, good in zip(ll2.astype('f8'), good2):
        n = ll.size
        k = np.searchsorted(ll, x, side='right') - 1          # ll[k] <= x < ll[k+1]
        ok = (k >= 0) & (k < n - 1)
        kk = np.clip(k, 0, n - 2)
        allowed |= ok & good[kk] & good[kk + 1]
        allowed |= (k == n - 1) & (x == ll[-1]) & good[-1] & good[-2]
        # boundary band: on (or a rounding error away from) a good pixel
        for j in (np.clip(k, 0, n - 1), np.clip(k + 1, 0, n - 1)):
            free |= good[j] & (np.abs(x - ll[j]) <= band)
    return ~allowed & ~free, free


class C11(Check):
    ID = 'C11'
    RULE = ('1-D spectra of 150-600 pixels and stacked 2-D exposures (2-4 rows, >= 101 good pixels each, sub-pixel dithers and different wavelength coverage, isolated single bad pixels) x '
            'zero-weight patterns (none, edges, runs of 1-40, isolated good pixels, alternating, dense random, all bad) x output '
            'grids (same, sub-pixel shifted, wider by 1-100 px, narrower, disjoint, coarser x2-x4, finer) x all five aesthetics '
            'methods, with objivar and without, float32 and float64; plus smooth noise-free reproduction / constant / scaling '
            'cases and de-redshift cases through preprocess_spectra.  Non-trivial: >= 1 interior zero-weight run and an output '
            'grid that is not the input grid (or a relation / de-redshift case); distinct by input hash.')
    ASSUMPTIONS = ['increasing log-wavelength grids; finalmask/indisp/skyflux keyword paths are outside the property',
                   'the must-be-zero clause is one-directional (the code may zero more, e.g. spline rejections and region growth)',
                   'output pixels within 1e-6 pixel (float32 grids: 1e-3 pixel) of a good input pixel are free (boundary band)',
                   'reproduction is asserted only >= 5 input pixels away from any bad pixel or edge, for noise-free inputs of period >= 60 px']
    REQUIRED_COUNTERS = ('deredshift_integer_flux_objects_with_fractional_shift', 'deredshift_without_zfit', 'deredshift_default_output_grid', 'deredshift_flux_not_native_double', 'deredshift_arrays_not_c_contiguous', 'deredshift_objects_with_masked_pixels', 'grid_tiny_cases', 'deredshift_integer_zfit_nonzero', 'good_stretches_shorter_than_the_spline_order', 'canary_sequences', 'reproduce_without_ivar', 'reproduce_integer_flux', 'reproduce_one_sided_windows', 'scaling_noisy_cases', 'scaling_without_ivar', 'tiny_flux_unit_cases', 'calls_1d', 'calls_2d', 'calls_no_ivar', 'must_be_zero_pixels', 'nonzero_ivar_pixels_interp_checked',
                         'allbad_cases', 'disjoint_grid_cases', 'reproduction_cases', 'scaling_cases', 'deredshift_cases',
                         'method_traditional', 'method_noconst', 'method_mean', 'method_damp', 'method_nothing', 'float32_cases',
                         'isolated_good_pixel_cases', 'multi_group_cases')
    CASE_CPU_S = 120

    def setup(self):
        import pydl.pydlutils.sdss as S
        import pydl.pydlspec2d.spec2d as SP2
        import pydl.pydlspec2d.spec1d as SP1
        self.S, self.SP2, self.SP1 = S, SP2, SP1
        self._saved = S.maskbits
        S.maskbits = S.set_maskbits(maskbits_file=os.path.join(VERIF, 'fixtures', 'maskbits.par'))
        self.brd.per_case = 2
        self.brd.max_call_s = 0.06
        self.brd.attach(self.rec, SP2, 'combine1fiber', every=3)             # buffer-reuse differential (vlib/brd.py)
        self.rec.wrap(SP2, 'combine1fiber')
        self.rec.wrap(SP2, 'iterfit')
        self.rec.wrap(SP2, 'aesthetics')
        self.rec.wrap(SP1, 'preprocess_spectra')
        for f in (SP2.combine1fiber, SP2.aesthetics, SP1.preprocess_spectra):
            self.reach.add(f)
        self.audit = AuditLog.get()

    def teardown(self):
        self.S.maskbits = self._saved
        self.rec.unwrap_all()

    def budget(self, tier):
        k = 1 if tier == 'quick' else 60
        return {'single': 260 * k, 'stack2d': 90 * k, 'no_ivar': 40 * k, 'allbad': 20 * k, 'reproduce': 150 * k,
                'scaling': 80 * k, 'deredshift': 40 * k, 'float32': 40 * k, 'deredshift_forms': 36 * k}

    # ------------------------------------------------------------------ gen
    def _mask(self, rng, g, n, pat=None):
        iv = g.uniform(1, 5, n)
        pat = pat if pat is not None else rng.choice(['none', 'edges', 'runs', 'random', 'alternating', 'isolated', 'runs', 'single_pixels', 'tiny_weights', 'islands'])
        if pat == 'edges':
            iv[:rng.randint(1, 20)] = 0
            iv[-rng.randint(1, 20):] = 0
        elif pat == 'runs':
            for _ in range(rng.randint(1, 5)):
                a = rng.randint(0, n - 2)
                iv[a:a + rng.randint(1, 40)] = 0
        elif pat == 'random':
            iv[g.uniform(size=n) < rng.uniform(0.02, 0.5)] = 0
        elif pat == 'alternating':
            iv[rng.randint(0, 1)::2] = 0
        elif pat == 'single_pixels':
            for _ in range(rng.randint(1, 6)):
                iv[rng.randint(3, n - 4)] = 0            # isolated single zero-weight pixels
        elif pat == 'tiny_weights':
            # a stretch of pixels whose weight is positive but negligible (below 1e-10 of the rest): at the blue end, right after a
            # masked run, in the middle or at the red end - the fit has to drop breakpoints there and carry on
            m = rng.randint(4, 9)
            where = rng.choice(['start', 'after_run', 'middle', 'end'])
            if where == 'start':
                a = 0
            elif where == 'end':
                a = n - m
            else:
                a = rng.randint(20, n - 20 - m)
                if where == 'after_run':
                    iv[max(0, a - rng.randint(2, 12)):a] = 0
            iv[a:a + m] = iv.mean() * 10 ** g.uniform(-14, -11, m)
        elif pat == 'islands':
            # short stretches of 2-6 good pixels, each cut off on both sides by a run of 2-8 zero-weight pixels
            a = rng.randint(10, 40)
            for _ in range(rng.randint(1, 4)):
                w1, m, w2 = rng.randint(2, 8), rng.randint(2, 6), rng.randint(2, 8)
                if a + w1 + m + w2 >= n - 10:
                    break
                iv[a:a + w1] = 0
                iv[a + w1 + m:a + w1 + m + w2] = 0
                a += w1 + m + w2 + rng.randint(0, 30)
        elif pat == 'isolated':
            a = rng.randint(20, n - 20)
            iv[a - 6:a] = 0
            iv[a + 1:a + 7] = 0
        return iv, pat

    def _grid(self, rng, ll, dl, kind=None):
        n = ll.size
        kind = kind or rng.choice(['same', 'same_rounded', 'shift', 'wider', 'narrower', 'coarser', 'finer', 'disjoint', 'wider', 'touching', 'tiny'])
        l0 = float(ll[0])
        if kind == 'same':
            nl = ll.copy()
        elif kind == 'same_rounded':
            # the input grid again, but computed another way: equal to it only up to a rounding error per pixel
            nl = rng.choice([np.linspace(ll[0], ll[-1], n), np.nextafter(ll, -np.inf), np.nextafter(ll, np.inf),
                             l0 + dl * np.arange(n, dtype='f4').astype('f8'), (ll * 3.0) / 3.0])
        elif kind == 'shift':
            nl = ll + rng.uniform(-1, 1) * dl
        elif kind == 'wider':
            nl = l0 + dl * (np.arange(-rng.randint(1, 100), n + rng.randint(1, 100)) + rng.choice([0.0, rng.uniform(0, 1)]))
        elif kind == 'narrower':
            nl = ll[rng.randint(5, 40):-rng.randint(5, 40)] + rng.choice([0.0, rng.uniform(0, 1)]) * dl
        elif kind == 'coarser':
            f = rng.randint(2, 4)
            nl = l0 + dl * f * np.arange(max(3, n // f)) + rng.uniform(0, 1) * dl
        elif kind == 'finer':
            nl = l0 + dl * 0.5 * np.arange(2 * n - 1) + rng.choice([0.0, rng.uniform(0, 0.5)]) * dl
        elif kind == 'tiny':
            # an output grid of one, two or three pixels (a single line window), inside the data, across an end, or outside
            m = rng.randint(1, 3)
            a = rng.choice([rng.uniform(5, n - 8), rng.uniform(5, n - 8), -1.5, n - 2.3, n + 4.0, float(rng.randint(5, n - 8))])
            nl = l0 + dl * (a + np.arange(m) * rng.choice([1.0, 1.0, 2.5]))
        elif kind == 'touching':
            # a grid that reaches into the data by only 1-4 pixels, with its first or with its last pixels (F-C5: the only
            # good output pixels are the first one or two)
            m, k = rng.randint(5, 60), rng.randint(1, 4)
            off = rng.choice([0.0, rng.uniform(0, 1)])
            if rng.random() < 0.5:
                nl = l0 + dl * (n - 1 - k + off + np.arange(m))           # first k pixels inside the data range
            else:
                nl = l0 + dl * (k - m + off + np.arange(m))               # last k pixels inside
        else:
            nl = l0 + dl * (n + 10 + np.arange(rng.randint(5, 60)))
            if rng.random() < 0.5:
                nl = l0 - dl * (10 + np.arange(rng.randint(5, 60)))[::-1]
        if rng.random() < 0.12:
            # the same grid in decreasing wavelength order (red to blue)
            nl, kind = nl[::-1].copy(), kind + '_decreasing'
        return nl, kind

    def gen(self, cls, rng, i):
        g = np_rng(rng)
        dl = 1e-4
        l0 = rng.choice([3.5, 3.5798, 3.9, 4.0])
        meth = METHODS[i % 5] if cls in ('single', 'stack2d', 'no_ivar', 'float32') else rng.choice(METHODS[:3])
        if cls in ('single', 'no_ivar', 'allbad', 'float32'):
            n = rng.randint(150, 600)
            ll = l0 + dl * np.arange(n)
            fl = 10 + np.sin(np.arange(n) / rng.uniform(10, 40)) * rng.uniform(0, 3) + g.normal(0, rng.choice([0, 0.05, 0.3]), n)
            iv, pat = self._mask(rng, g, n)
            if cls == 'allbad':
                iv[:] = 0
                pat = 'allbad'
            nl, gk = self._grid(rng, ll, dl)
            dt = 'f4' if cls == 'float32' else 'f8'
            # the order of the fitted spline is the caller's choice (keyword nord, default 3)
            kw = {'nord': rng.choice([2, 4, 4, 5])} if rng.random() < 0.3 else {}
            return {'kind': cls, 'll': ll.tolist(), 'fl': fl.tolist(), 'iv': None if cls == 'no_ivar' else iv.tolist(),
                    'nl': nl.tolist(), 'method': meth, 'pattern': pat, 'grid': gk, 'dtype': dt, 'kw': kw}
        if cls == 'stack2d':
            nspec = rng.randint(2, 4)
            n = rng.randint(220, 500)
            # sub-pixel dithers, and (half of the cases) exposures with different wavelength coverage (offset by 20-150 px)
            offs = [0.0] + [rng.uniform(0, 1) + (rng.randint(20, 150) * rng.choice([-1, 1]) if rng.random() < 0.5 else 0)
                            for _ in range(nspec - 1)]
            ll = np.array([l0 + dl * (np.arange(n) + o) for o in offs])
            fl = 10 + np.sin((ll - l0) / dl / rng.uniform(15, 40)) * rng.uniform(0, 3) + g.normal(0, 0.05, ll.shape)
            iv = np.zeros_like(ll)
            pats = []
            for s in range(nspec):
                while True:
                    ivs, pat = self._mask(rng, g, n, rng.choice(['none', 'edges', 'runs', 'isolated', 'random', 'single_pixels']))
                    if (ivs > 0).sum() >= 101:
                        break
                if rng.random() < 0.15:
                    # the smallest exposure the property allows: exactly 101 pixels of positive weight (one contiguous stretch)
                    a = rng.randint(0, n - 101)
                    ivs = np.where((np.arange(n) >= a) & (np.arange(n) < a + 101), np.maximum(ivs, 1.0), 0.0)
                    pat = 'exactly101'
                iv[s] = ivs
                pats.append(pat)
            nl, gk = self._grid(rng, ll[0], dl)
            if rng.random() < 0.5:
                # output grid spanning the union of all exposures (parts of it are covered by one exposure only)
                lo, hi = float(ll.min()), float(ll.max())
                nl = lo - 5 * dl + dl * np.arange(int(round((hi - lo) / dl)) + 11) + rng.choice([0.0, rng.uniform(0, 1)]) * dl
                gk = 'union'
            return {'kind': cls, 'll': ll.tolist(), 'fl': fl.tolist(), 'iv': iv.tolist(), 'nl': nl.tolist(), 'method': meth,
                    'pattern': pats, 'grid': gk, 'dtype': 'f8'}
        if cls in ('reproduce', 'scaling'):
            n = rng.randint(200, 500)
            ll = l0 + dl * np.arange(n)
            per = rng.uniform(60, 300)
            amp = rng.uniform(0.5, 3)
            const = rng.random() < 0.25
            iv, pat = self._mask(rng, g, n, rng.choice(['none', 'edges', 'runs']))
            shift = 0.0 if rng.random() < 0.5 else rng.uniform(0.05, 0.95)
            case = {'kind': cls, 'n': n, 'l0': l0, 'dl': dl, 'period': per, 'amp': amp, 'level': rng.uniform(5, 20), 'const': const,
                    'iv': iv.tolist(), 'shift': shift, 'c': rng.choice([2.0, 0.5, 3.7, 1e3, 1e-3, -1.0, 1e-10, 1e-17, 1e12]), 'method': meth, 'pattern': pat,
                    'unit': rng.choice([1.0, 1.0, 1e-17, 1e5])}
            # output windows whose two ends differ (one end at / beyond the data edge, the other inside good data), and flux given
            # in other dtypes (float32; integer counts for constant spectra)
            case['decreasing'] = rng.random() < 0.15
            case['jitter'] = rng.choice([0, 1, 2, 3, 4])         # same grid "up to rounding" when the shift is zero
            case['window'] = rng.choice(['same', 'same', 'left', 'right', 'interior'])
            case['wpar'] = [rng.randint(0, 10), rng.uniform(0.35, 0.65)]
            if cls == 'reproduce' and rng.random() < 0.25:
                # no inverse variance given at all; for constant spectra also levels whose sample variance is exactly zero
                case['omit_ivar'] = True
                if const:
                    case['level'] = rng.choice([0.0, 1.0, 4.0, 250.0, 7.3, rng.uniform(5, 20)])
            if cls == 'reproduce':
                case['fdtype'] = rng.choice(['f8', 'f8', 'f4', 'i2', 'i4', 'i8']) if const else rng.choice(['f8', 'f8', 'f4'])
                if case['fdtype'].startswith('i'):
                    case['level'] = float(rng.randint(3, 2000))
                    case['unit'] = 1.0
            if cls == 'scaling' and rng.random() < 0.5:
                # noisy spectra (pixel-to-pixel structure, so the fit's own rejection is exercised), with or without an inverse
                # variance: c is a power of two, for which (c*flux, ivar/c^2) is an exact rescaling of every intermediate
                # quantity and any dependence on c is a dependence on the units
                case['noise'] = rng.choice([0.05, 0.3, 1.0])
                case['noise_seed'] = rng.getrandbits(32)
                case['omit_ivar'] = rng.random() < 0.5
                case['c'] = 2.0 ** rng.choice([10, 14, 20, 40, -10, -20, -40, 1, 8])
                case['unit'] = 1.0
            return case
        if cls == 'deredshift_forms':
            # the de-redshift case again, with the arrays in the forms real data come in: flux as single precision, big-endian
            # (FITS) or whole detector counts in a signed / unsigned integer dtype, inverse variance in single precision or
            # big-endian, Fortran-ordered or strided 2-D arrays; without zfit (nothing is shifted); without newloglam (the
            # output grid is the function's own, derived from the input grid and the shifts)
            case = self.gen('deredshift', rng, i)
            case['kind'] = 'deredshift'
            case['fkind'] = FLUX_KINDS[i % len(FLUX_KINDS)]
            case['ivkind'] = rng.choice(['f8', 'f8', 'f4', '>f4', '>f8'])
            case['layout'] = rng.choice(['C', 'C', 'F', 'strided'])
            if i % 8 == 5:
                case['zfit_none'] = True
                case['z'] = [0.0] * len(case['z'])
                case['zkind'] = 'f8'
            if i % 5 == 3:
                case['default_grid'] = True
                case['loglam2d'] = False
            return case
        if cls == 'deredshift':
            n = rng.randint(300, 600)
            nobj = rng.randint(1, 4)
            ll = l0 + dl * np.arange(n)
            z = [rng.choice([rng.uniform(0.003, 0.05), rng.uniform(0.05, 0.3)]) for _ in range(nobj)]
            zkind = rng.choice(['f8', 'f8', 'f4'])
            if rng.random() < 0.15:
                # whole-number redshifts held in an integer column (z = 0, 1, 2) on a coarser grid, so that the shifted feature stays on it
                zkind = rng.choice(['i8', 'i4', 'i2', 'u1'])
                dl = 1e-3
                n = rng.randint(560, 700)
                z = [rng.choice([0, 1, 1, 2]) for _ in range(nobj)]
            # feature position such that it stays inside the output grid after shifting
            feats = []
            for kz, zz in enumerate(z):
                sh = np.log10(1 + zz) / dl
                lo = int(sh) + 30
                if lo >= n - 30:
                    # the shifted feature must stay on the output grid: use a redshift that fits this spectrum
                    zz = 10 ** (rng.uniform(0.1, 0.6) * (n - 60) * dl) - 1
                    z[kz] = zz
                    sh = np.log10(1 + zz) / dl
                    lo = int(sh) + 30
                feats.append(rng.uniform(lo, n - 30))
            return {'kind': cls, 'n': n, 'l0': l0, 'dl': dl, 'z': z, 'zkind': zkind, 'feat_pix': feats, 'loglam2d': rng.random() < 0.4,
                    'mask_seed': rng.getrandbits(32) if rng.random() < 0.6 else None,
                    'dead': rng.choice([None, 0, 1, 2, 1, 2]),
                    'method': rng.choice(['mean', 'traditional', 'nothing']), 'noise': rng.choice([0.0, 0.02])}
        raise KeyError(cls)

    # ------------------------------------------------------------------ run
    def _c1f(self, ll, fl, nl, iv, meth, **extra):
        self.audit.begin()
        try:
            with warnings.catch_warnings():
                warnings.simplefilter('ignore')
                with np.errstate(all='ignore'):
                    if iv is None:
                        r = self.SP2.combine1fiber(ll, fl, nl, aesthetics=meth, **extra)
                    else:
                        r = self.SP2.combine1fiber(ll, fl, nl, objivar=iv, aesthetics=meth, **extra)
        finally:
            ev = self.audit.end()
        if any(e[0].startswith('socket') for e in ev):
            raise RuntimeError('harness: network access attempted (maskbits fixture not loaded?)')
        return r

    def _basic(self, out, f, i, nl, what):
        ok = out.expect(isinstance(f, np.ndarray) and isinstance(i, np.ndarray) and f.shape == (len(nl),) and i.shape == (len(nl),),
                        'shape', '%s: output shapes %s %s for a grid of %d' % (what, getattr(f, 'shape', None), getattr(i, 'shape', None), len(nl)))
        if not ok:
            return False
        out.expect(bool(np.all(np.isfinite(f))), 'finite', '%s: non-finite flux at %d pixels' % (what, int((~np.isfinite(f)).sum())))
        out.expect(bool(np.all(np.isfinite(i))), 'finite', '%s: non-finite inverse variance' % what)
        out.expect(bool(np.all(i >= 0)), 'ivar-nonneg', '%s: negative inverse variance %r' % (what, float(i.min())))
        return True

    def canary(self):
        """Fixed, ordinary calls one after another (see vlib.harness.canary_setup): a grid beyond the data with a masked run,
        a call without inverse variance, a two-exposure stack, an all-bad spectrum."""
        C = self.SP2.combine1fiber
        g = np.random.default_rng(4321)
        ll = 3.6 + 1e-4 * np.arange(260)
        fl = 5 + np.sin(np.arange(260) / 20.0) + g.normal(0, 0.05, 260)
        iv = np.full(260, 4.0)
        iv[100:108] = 0.0
        nl = 3.6 + 1e-4 * (np.arange(-20, 300) + 0.4)
        res = []
        for args, kw in (((ll, fl, nl), {'objivar': iv.copy(), 'aesthetics': 'mean'}),
                         ((ll, fl * 250.0, ll.copy()), {}),
                         ((np.array([ll, ll + 3e-5]), np.array([fl, fl]), nl), {'objivar': np.array([iv, iv]), 'aesthetics': 'damp'}),
                         ((ll, fl, nl), {'objivar': np.zeros(260), 'aesthetics': 'traditional'})):
            try:
                with warnings.catch_warnings():
                    warnings.simplefilter('ignore')
                    f, i = C(*[a.copy() for a in args], **kw)
                res.append(('ok', np.asarray(f, dtype='f8').round(9).tobytes(), np.asarray(i, dtype='f8').round(9).tobytes()))
            except Exception as e:
                res.append(('raised', type(e).__name__, str(e)[:80]))
        return res

    def run(self, case, out):
        getattr(self, 'run_' + case['kind'])(case, out)

    def run_single(self, case, out):
        dt = case['dtype']
        ll = np.array(case['ll'], dtype=dt)
        fl = np.array(case['fl'], dtype=dt)
        nl = np.array(case['nl'], dtype=dt)
        iv0 = None if case['iv'] is None else np.array(case['iv'], dtype=dt)
        two_d = ll.ndim == 2
        f, i = self._c1f(ll.copy(), fl.copy(), nl.copy(), None if iv0 is None else iv0.copy(), case['method'], **case.get('kw', {}))
        out.count('calls_2d' if two_d else 'calls_1d')
        nord = case.get('kw', {}).get('nord', 3)
        out.count('calls_with_spline_order_given', 'nord' in case.get('kw', {}))
        if not two_d and iv0 is not None:
            gd = np.concatenate([[0], (iv0 > 0).astype(int), [0]])
            runs = np.diff(np.flatnonzero(np.diff(gd)))[::2]
            out.count('good_stretches_shorter_than_the_spline_order', int(((runs > 2) & (runs < nord)).sum()))
        out.count('calls_no_ivar', iv0 is None)
        out.count('method_' + case['method'])
        out.count('float32_cases', dt == 'f4')
        if not self._basic(out, f, i, nl, case['kind']):
            return
        ll2 = np.atleast_2d(ll)
        good2 = np.ones(ll2.shape, dtype=bool) if iv0 is None else np.atleast_2d(iv0) > 0
        binsz = float(ll2[0, 1] - ll2[0, 0])
        Z, free = must_be_zero(ll2, good2, nl.astype('f8'), binsz)
        bad = Z & (i != 0)
        out.expect(not bool(bad.any()), 'must-be-zero',
                   'inverse variance non-zero at %d output pixels that do not lie between two adjacent good input pixels' % int(bad.sum()),
                   pixels=np.nonzero(bad)[0][:6], x=nl[bad][:6], ivar=i[bad][:6], pattern=case['pattern'], grid=case['grid'])
        out.count('must_be_zero_pixels', int(Z.sum()))
        out.count('disjoint_grid_cases', case['grid'] == 'disjoint')
        out.count('grid_tiny_cases', case['grid'].startswith('tiny'))
        out.count('allbad_cases', not good2.any())
        out.count('isolated_good_pixel_cases', case['pattern'] == 'isolated' or (two_d and 'isolated' in case['pattern']))
        ncalls_iter = sum(1 for e in self.rec.events if e[0] == 'call' and e[1].endswith('iterfit'))
        out.count('multi_group_cases', ncalls_iter >= 2)
        if not good2.any():
            out.expect(bool(np.all(i == 0)), 'must-be-zero', 'no good input pixel but non-zero output inverse variance')
        # single spectrum: non-zero ivar == linear interpolation of the input ivar, never above the local maximum
        if not two_d:
            nz = (i > 0) & ~free
            if nz.any():
                src = np.ones(ll.size) if iv0 is None else iv0.astype('f8')
                ref = np.interp(nl[nz].astype('f8'), ll.astype('f8'), src)
                tol = (1e-9 if dt == 'f8' else 2e-3) * max(float(ref.max()), 1e-300)
                dev = float(np.abs(i[nz].astype('f8') - ref).max())
                out.expect(dev <= tol, 'ivar-interp', 'non-zero output ivar differs from the linear interpolation of the input ivar by %.3g' % dev)
                k = np.clip(np.searchsorted(ll.astype('f8'), nl[nz].astype('f8'), side='right') - 1, 0, ll.size - 2)
                localmax = np.maximum(src[k], src[k + 1])
                out.expect(bool(np.all(i[nz] <= localmax * (1 + (1e-9 if dt == 'f8' else 1e-3)))), 'ivar-interp',
                           'output ivar above the local maximum of the input ivar')
                out.count('nonzero_ivar_pixels_interp_checked', int(nz.sum()))
        interior_run = bool(np.any(~good2[:, 5:-5]))
        out.nontrivial = interior_run and case['grid'] != 'same'
        out.info.update(pattern=case['pattern'], grid=case['grid'], method=case['method'], nonzero_frac=float((i > 0).mean()))

    run_stack2d = run_single
    run_no_ivar = run_single
    run_allbad = run_single
    run_float32 = run_single

    def _smooth_case(self, case):
        n, l0, dl = case['n'], case['l0'], case['dl']
        ll = l0 + dl * np.arange(n)
        unit = case.get('unit', 1.0)       # flux units (e.g. erg/s/cm^2/A ~ 1e-17): flux * unit, ivar / unit^2
        sig = (lambda L: np.full_like(L, case['level'] * unit)) if case['const'] else \
            (lambda L: unit * (case['level'] + case['amp'] * np.sin((L - l0) / dl * 2 * np.pi / case['period'])))
        iv = np.array(case['iv']) / unit ** 2
        nl = ll + case['shift'] * dl
        if case.get('jitter') and case['shift'] == 0.0:
            nl = [np.linspace(ll[0], ll[-1], n), np.nextafter(ll, -np.inf), np.nextafter(ll, np.inf), (ll * 3.0) / 3.0][case['jitter'] - 1]
        if case.get('decreasing'):
            return ll, sig, iv, self._window(case, ll, nl, n, dl)[::-1].copy()
        return ll, sig, iv, self._window(case, ll, nl, n, dl)

    @staticmethod
    def _window(case, ll, nl, n, dl):
        win = case.get('window', 'same')
        if win != 'same':
            e, frac = case['wpar']
            m = int(frac * n)
            if win == 'left':            # starts e pixels before the data, ends inside
                nl = ll[0] + dl * (np.arange(-e, m) + case['shift'])
            elif win == 'right':         # starts inside, ends e pixels beyond the data
                nl = ll[0] + dl * (np.arange(m, n + e) + case['shift'])
            else:                        # both ends inside good data
                nl = ll[0] + dl * (np.arange(n // 5, n - n // 5) + case['shift'])
        return nl

    def _far_from_bad(self, ll, iv, nl, dl):
        bad_pos = np.concatenate([ll[iv == 0], [ll[0] - dl, ll[-1] + dl]])
        d = np.abs(nl[:, None] - bad_pos[None, :]).min(axis=1)
        return (d >= 5.0 * dl) & (nl >= ll[0]) & (nl <= ll[-1])

    def run_reproduce(self, case, out):
        ll, sig, iv, nl = self._smooth_case(case)
        dl = case['dl']
        fdt = case.get('fdtype', 'f8')
        fin = sig(ll).astype(fdt)
        if case.get('omit_ivar'):
            iv = np.ones_like(iv)             # "no inverse variance" means every input pixel is good
            f, i = self._c1f(ll.copy(), fin, nl.copy(), None, case['method'])
            out.count('reproduce_without_ivar')
            out.count('calls_no_ivar')
        else:
            f, i = self._c1f(ll.copy(), fin, nl.copy(), iv.copy(), case['method'])
        out.count('method_' + case['method'])
        out.count('calls_1d')
        out.count('reproduce_integer_flux', fdt.startswith('i'))
        out.count('reproduce_one_sided_windows', case.get('window', 'same') in ('left', 'right'))
        if not self._basic(out, f, i, nl, 'reproduce'):
            return
        far = self._far_from_bad(ll, iv, nl, dl)
        amp = max(abs(case['level']), case['amp']) * case.get('unit', 1.0)
        if far.any():
            if case['const'] and case.get('omit_ivar'):
                # a constant spectrum without inverse variance has no noise to estimate: the self-estimated variance is zero
                # or pure rounding noise, and which pixels the fit's rejection then drops is not fixed by the property - only
                # the flux is (it must stay the constant)
                out.count('reproduce_constant_without_ivar')
            elif case['const'] and case['level'] == 0.0:
                # an identically zero spectrum gives zero spline coefficients, which the code (like the IDL original) cannot tell
                # from a failed fit and reports with zero inverse variance: allowed by the property (the flux, 0, is still right)
                out.count('reproduce_zero_spectrum')
            else:
                out.expect(bool(np.all(i[far] > 0)), 'reproduce', 'good, smooth region lost its inverse variance (%d pixels)' % int((i[far] == 0).sum()))
            dev = float(np.abs(f[far] - sig(nl[far])).max())
            lim = max((1e-10 if case['const'] else 1e-4) * amp, 1e-300)
            if fdt == 'f4':
                lim = max(lim, 1e-5 * amp)
            out.expect(dev <= lim, 'reproduce', 'resampled flux deviates from the smooth input by %.3g (limit %.3g; shift %.2f px, const=%s)'
                       % (dev, lim, case['shift'], case['const']))
        out.count('reproduction_cases')
        out.count('tiny_flux_unit_cases', case.get('unit', 1.0) < 1e-10)
        out.nontrivial = True

    def run_scaling(self, case, out):
        ll, sig, iv, nl = self._smooth_case(case)
        c = case['c']
        fl = sig(ll)
        if case.get('noise'):
            fl = fl + case['noise'] * np.random.default_rng(case['noise_seed']).normal(size=fl.size)
            out.count('scaling_noisy_cases')
        omit = bool(case.get('omit_ivar'))
        out.count('scaling_without_ivar', omit)
        f1, i1 = self._c1f(ll.copy(), fl.copy(), nl.copy(), None if omit else iv.copy(), case['method'])
        f2, i2 = self._c1f(ll.copy(), c * fl, nl.copy(), None if omit else iv.copy() / c ** 2, case['method'])
        if omit:
            # without an inverse variance the weights are unit weights in both calls: only the flux carries the units
            i2 = i2 / c ** 2
        out.count('calls_1d', 2)
        out.count('method_' + case['method'])
        if not (self._basic(out, f1, i1, nl, 'scaling-a') and self._basic(out, f2, i2, nl, 'scaling-b')):
            return
        fs = max(float(np.abs(f1).max()), 1e-300)
        out.expect(bool(np.array_equal(i1 > 0, i2 > 0)), 'scaling', 'set of good output pixels changed under (c*flux, ivar/c^2)')
        out.expect(float(np.abs(f2 - c * f1).max()) <= 1e-9 * abs(c) * fs, 'scaling', 'flux does not scale by c=%g (dev %.3g)' % (c, float(np.abs(f2 - c * f1).max())))
        out.expect(float(np.abs(i2 * c ** 2 - i1).max()) <= 1e-9 * max(float(i1.max()), 1e-300), 'scaling', 'ivar does not scale by 1/c^2')
        out.count('scaling_cases')
        out.count('tiny_flux_unit_cases', case.get('unit', 1.0) < 1e-10 or abs(c) < 1e-9)
        out.nontrivial = True

    def run_deredshift(self, case, out):
        n, l0, dl = case['n'], case['l0'], case['dl']
        ll = l0 + dl * np.arange(n)
        nobj = len(case['z'])
        g = np.random.default_rng(12345)
        flux = np.zeros((nobj, n))
        for k, p in enumerate(case['feat_pix']):
            flux[k] = 1.0 + 50.0 * np.exp(-0.5 * ((np.arange(n) - p) / 2.0) ** 2) + case['noise'] * g.normal(size=n)
        ivar = np.full((nobj, n), 4.0)
        # zero-weight pixels in the objects (isolated single pixels, runs, edges), away from the feature
        if case.get('mask_seed') is not None:
            import random
            mr = random.Random(case['mask_seed'])
            for k in range(nobj):
                pat = mr.choice(['single_pixels', 'single_pixels', 'runs', 'edges', 'random', 'none'])
                ivk, _ = self._mask(mr, np.random.default_rng(mr.getrandbits(32)), n, pat)
                ivar[k] = np.where(ivk > 0, 4.0, 0.0)
                p = int(round(case['feat_pix'][k]))
                ivar[k, max(0, p - 10):p + 11] = 4.0
            out.count('deredshift_objects_with_masked_pixels', nobj)
        # a dead fibre (no good pixel at all) among the objects, at a position given by the case
        dead = case.get('dead')
        if dead is not None and nobj >= 2:
            dead = dead % nobj
            ivar[dead] = 0.0
            out.count('dead_object_among_several')
            out.count('dead_object_not_first', dead > 0)
        else:
            dead = None
        # representation of the arrays (deredshift_forms): integer dtypes hold whole counts (feature and continuum scaled by 100,
        # inverse variance scaled accordingly, so the object is the same one in other units)
        fkind, ivkind, layout = case.get('fkind', 'f8'), case.get('ivkind', 'f8'), case.get('layout', 'C')
        if np.dtype(fkind).kind in 'iu':
            flux = np.rint(flux * 100.0)
            ivar = ivar / 100.0 ** 2
        flux = flux.astype(fkind)
        ivar = ivar.astype(ivkind)
        if layout == 'F':
            flux, ivar = np.asfortranarray(flux), np.asfortranarray(ivar)
        elif layout == 'strided':
            big_f, big_i = np.zeros((2 * nobj, n), dtype=flux.dtype), np.zeros((2 * nobj, n), dtype=ivar.dtype)
            big_f[::2], big_i[::2] = flux, ivar
            flux, ivar = big_f[::2], big_i[::2]
        out.count('deredshift_flux_' + ('integer' if flux.dtype.kind in 'iu' else 'float'))
        out.count('deredshift_flux_not_native_double', flux.dtype != np.dtype('f8'))
        out.count('deredshift_arrays_not_c_contiguous', not flux.flags.c_contiguous)
        zkind = case.get('zkind', 'f8')
        z = np.array(case['z'], dtype=zkind)
        zarg = None if case.get('zfit_none') else z.copy()
        out.count('deredshift_without_zfit', zarg is None)
        out.count('deredshift_default_output_grid', bool(case.get('default_grid')))
        shifted = [k for k in range(nobj) if k != dead and np.log10(1.0 + float(z[k])) % 1.0 != 0.0]
        out.count('deredshift_integer_flux_objects_with_fractional_shift', len(shifted) if (flux.dtype.kind in 'iu' and zarg is not None) else 0)
        out.count('deredshift_zfit_' + ('integer' if z.dtype.kind in 'iu' else zkind))
        out.count('deredshift_integer_zfit_nonzero', z.dtype.kind in 'iu' and bool(np.any(z != 0)))
        z = z.astype('f8')
        loglam = np.tile(ll, (nobj, 1)) if case['loglam2d'] else ll
        self.audit.begin()
        try:
            with warnings.catch_warnings():
                warnings.simplefilter('ignore')
                nf, niv, nll = self.SP1.preprocess_spectra(flux, ivar, loglam=loglam, zfit=zarg,
                                                             newloglam=None if case.get('default_grid') else ll.copy(), aesthetics=case['method'])
        finally:
            ev = self.audit.end()
        if any(e[0].startswith('socket') for e in ev):
            raise RuntimeError('harness: network access attempted (maskbits fixture not loaded?)')
        ok = out.expect(isinstance(nll, np.ndarray) and nll.ndim == 1 and nll.size >= 2 and bool(np.all(np.isfinite(nll))), 'shape',
                        'preprocess_spectra returned the wavelength grid %r' % (getattr(nll, 'shape', None),))
        if not ok:
            return
        m = nll.size
        if not case.get('default_grid'):
            out.expect(m == n, 'shape', 'preprocess_spectra returned a grid of %d pixels for a requested grid of %d' % (m, n))
        ok = out.expect(getattr(nf, 'shape', None) == (nobj, m) and getattr(niv, 'shape', None) == (nobj, m), 'shape',
                        'preprocess_spectra shapes %s %s for %d objects on a grid of %d' % (getattr(nf, 'shape', None), getattr(niv, 'shape', None), nobj, m))
        if not ok:
            return
        out.expect(bool(np.all(np.isfinite(nf)) and np.all(np.isfinite(niv)) and np.all(niv >= 0)), 'finite', 'non-finite / negative output')
        for k in range(nobj):
            if k == dead:
                out.expect(bool(np.all(niv[k] == 0)), 'must-be-zero',
                           'object %d has no good input pixel, yet %d output pixels carry inverse variance (max %.3g)'
                           % (k, int((niv[k] != 0).sum()), float(niv[k].max())))
                continue
            L = l0 + dl * case['feat_pix'][k]
            target = L - np.log10(1 + z[k])
            # (the feature is looked for among the output pixels that carry weight: with zero-weight input pixels the flux of
            #  zero-weight output pixels is, by method 'nothing', whatever the spline gave there)
            #  and next to zero-weight input pixels the fitted flux is not asserted anywhere in this check - see ASSUMPTIONS: the
            #  reproduction clauses hold >= 5 input pixels away from any bad pixel; the feature itself is kept that far from them)
            restpos = ll - np.log10(1 + z[k])
            far = self._far_from_bad(restpos, ivar[k], np.asarray(nll, dtype='f8'), dl)
            cand = np.where((niv[k] > 0) & far, nf[k], -np.inf)
            if not np.isfinite(cand).any():
                out.undecide()
                continue
            peak = nll[int(np.argmax(cand))]
            out.expect(abs(peak - target) <= 1.0 * dl, 'deredshift',
                       'feature at log-wavelength %.6f with z=%.4f found at %.6f, expected %.6f (off by %.2f pixels)'
                       % (L, z[k], peak, target, (peak - target) / dl))
            # must-be-zero, in the object's rest frame: output pixels that do not lie between two adjacent good (shifted) input pixels
            rest = (ll - np.log10(1 + z[k]))[None, :]
            Z, free = must_be_zero(rest, (ivar[k] > 0)[None, :], np.asarray(nll, dtype='f8'), dl)
            badz = Z & (niv[k] != 0)
            out.expect(not bool(badz.any()), 'must-be-zero',
                       'object %d (z=%.4f): inverse variance non-zero at %d output pixels that do not lie between two adjacent good input '
                       'pixels' % (k, z[k], int(badz.sum())), pixels=np.nonzero(badz)[0][:6], ivar=niv[k][badz][:6])
            out.count('deredshift_must_be_zero_pixels', int(Z.sum()))
            # the blue end that has no data after shifting must carry zero inverse variance
            nodata = nll > ll[-1] - np.log10(1 + z[k]) + 2 * dl
            out.expect(bool(np.all(niv[k][nodata] == 0)), 'must-be-zero', 'inverse variance beyond the shifted data range')
        out.count('deredshift_cases')
        out.nontrivial = True

    def summarise(self, case):
        c = dict(case)
        for k in ('ll', 'fl', 'iv', 'nl'):
            v = c.get(k)
            if isinstance(v, list):
                if v and isinstance(v[0], list):
                    c[k] = [r[:4] + ['... %d' % len(r)] for r in v]
                else:
                    c[k] = v[:6] + ['... %d values' % len(v)]
        return c


CHECK = C11()
