"""C04 - spherematch returns exactly the pairs closer than the match length.

Events : spherematch(ra1, dec1, ra2, dec2, matchlength, chunksize, maxmatch) -> (match1, match2, distance12);
         the ``chunks`` instance built inside each call is captured at ``chunks.assign`` (geometry for the
         guided generators and for the reach counters only - never for the verdict).
Oracle : brute force over all n1*n2 pairs with long-double chord separations (vlib/refs/sphere_match.py).
"""
import math
import warnings
import random
import functools
import numpy as np
from vlib.harness import Check, np_rng
from vlib.refs import sphere_match as R

DECS = [0.0, 30.0, -30.0, 60.0, -60.0, 80.0, -80.0, 85.0, -85.0, 88.0, -88.0, 89.5, -89.5]
HIGH = [60.0, 75.0, 80.0, 84.0, 86.0, 88.0, -80.0, -86.0, 89.0, -89.3]
DECLIM = 90.0 - 1e-9
RA_TOP = math.nextafter(360.0, 0.0)
# exact boundary values of RA: the ends of [0, 360) and the values that become exactly 360.0 when one of the six trial
# offsets (0, 60, ..., 300) of chunks.rarange is added.  360.0 itself is outside the property's domain for C04.
BOUNDARY_RA = [0.0, RA_TOP, 60.0, 120.0, 180.0, 240.0, 300.0]
BOUNDARY_L2 = ('clusters', 'seam', 'allsky', 'wide2', 'shells', 'dups', 'polar', 'clamped', 'maxmatch', 'guided', 'guided_pad',
               'guided_wrap', 'degenerate')           # list 2 never influences the chunk grid
BOUNDARY_L1 = ('allsky', 'polar', 'guided_wrap')      # list 1 already all around the sky
# dense class: list-2 sizes around implementation-typical block sizes, all of them in ONE chunk
WIDE_LENGTHS = [90.0, 120.0, 170.0, 179.9, 180.0, 180.1, 200.0, 270.0, 359.0, 360.0]
DENSE_SIZES = [2 ** k + d for k in range(8, 18) for d in (-1, 0, 1)]
DENSE_QUICK = [65537, 131073, 257, 511, 1025, 4097, 16385, 32769, 256, 8191]
CS_FACT = [1.01, 1.05, 1.2, 1.5, 2.0, 4.0, 4.0, 8.0, 16.0, 64.0]


def clipdec(d):
    return float(min(max(d, -DECLIM), DECLIM))


def log_uniform(rng, lo, hi):
    return float(10.0 ** rng.uniform(math.log10(lo), math.log10(hi)))


def cluster(nr, n, ra0, dec0, spread):
    c0 = max(math.cos(math.radians(dec0)), 0.01)
    ra = np.mod(ra0 + nr.uniform(-spread, spread, n) / c0, 360.0)
    dec = np.clip(dec0 + nr.uniform(-spread, spread, n), -DECLIM, DECLIM)
    ra[ra >= 360.0] = 0.0
    return ra.tolist(), dec.tolist()


def sphere_scatter(nr, n):
    ra = nr.uniform(0.0, 360.0, n)
    ra[ra >= 360.0] = 0.0
    dec = np.clip(np.degrees(np.arcsin(nr.uniform(-1, 1, n))), -DECLIM, DECLIM)
    return ra.tolist(), dec.tolist()


def eff_cs(m, cs):
    return max(4.0 * m, 0.1) if cs is None else cs


def est_cells(ra1, dec1, cs):
    dr = max(dec1) - min(dec1)
    return (dr / cs + 3.0) * (360.0 / cs + 3.0)


BRD_EVERY = 17
PROTOCOL_MAX_CELLS = 1e5
GRID_MEMORY = 4000


class OutsideWorkload(Exception):
    """raised instead of a call that the buffer-reuse monitor composed from two calls and that no generator would make"""


def list1_key(ra1, dec1):
    a, d = np.asarray(ra1), np.asarray(dec1)
    return (a.dtype.str, d.dtype.str, a.shape, np.ascontiguousarray(a).tobytes(), np.ascontiguousarray(d).tobytes())


def grid_bound(dec1, c):
    """upper bound of the number of cells of a grid of chunk size c for a first list with these declinations, whatever its
    RAs and however the RA offset is chosen: (Dec extent / c + 3) slices of at most 360 / c + 3 cells (a cell is never
    narrower than c in RA).  inf when it cannot be said."""
    try:
        dec = np.asarray(dec1, dtype='d').ravel()
        if not (c > 0.0) or dec.size == 0 or not np.all(np.isfinite(dec)):
            return float('inf')
        return (float(dec.max() - dec.min()) / c + 3.0) * (360.0 / c + 3.0)
    except Exception:
        return float('inf')


def perm_from_seed(seed, n):
    p = list(range(n))
    if seed is not None:
        random.Random(seed).shuffle(p)
    return np.array(p, dtype=int)


# Canaries: tiny fixed inputs with known answers; the harness runs C04.canary() (all of them, in CANARY_ORDER) right after
# setup and after every case, in the same process: a call must not leave anything behind (numpy error state, warning filters, module state)
# that changes the answer of the next one.  They walk the warning-prone paths: all points of list 1 at one RA (0/0 in
# chunks.rarange), a pair across RA 0/360, match circles that contain a pole.  A polar canary always precedes an equal-RA one.
CANARIES = {
    'equal_ra': ({'ra1': [10.0, 10.0, 10.0], 'dec1': [20.0, 20.05, 20.3], 'ra2': [10.0, 10.0], 'dec2': [20.02, 20.31],
                  'm': 0.04}, [(2, 1), (0, 0), (1, 0)]),
    'equal_ra_zero': ({'ra1': [0.0, 0.0], 'dec1': [-30.0, -30.01], 'ra2': [0.0], 'dec2': [-30.004], 'm': 0.008},
                      [(0, 0), (1, 0)]),
    'seam': ({'ra1': [359.99, 0.02, 0.3], 'dec1': [-5.0, -5.0, -4.9], 'ra2': [0.012, 359.98], 'dec2': [-5.0, -5.0],
              'm': 0.035}, [(1, 0), (0, 1), (0, 0)]),
    'equal_dec': ({'ra1': [40.0, 40.03, 40.5, 41.0], 'dec1': [60.0, 60.0, 60.0, 60.0], 'ra2': [40.02, 40.52, 41.5],
                   'dec2': [60.0, 60.0, 60.0], 'm': 0.012}, [(1, 0), (0, 0), (2, 1)]),
    'polar': ({'ra1': [0.0, 90.0, 200.0], 'dec1': [89.9, 89.95, 89.0], 'ra2': [180.0, 270.0], 'dec2': [89.92, 89.97],
               'm': 0.2}, [(1, 1), (1, 0), (0, 1), (0, 0)]),
}
CANARY_ORDER = ('polar', 'equal_ra', 'seam', 'equal_dec', 'equal_ra_zero', 'polar', 'equal_ra')


class C04(Check):
    ID = 'C04'
    CASE_CPU_S = 30.0
    MIN_NONTRIVIAL = 20
    RULE = ('two point lists (n1 2-80, n2 1-80), match length log-uniform 1 arcsec - 30 deg, chunk size default or '
            '1.01-64 x match length, maxmatch in {0,1,2,3,n}: clusters at |Dec| 0-89.5, clusters on the RA seam, '
            'all-sky scatter, list 2 wider than / outside list 1 or inside one cell, duplicates and extreme RA values, '
            'threshold shells (partners at m(1 +- 10^-u), u=1..7, biased due E-W / N-S), and geometry-guided cases: the '
            'chunk geometry of a preliminary call is recorded and points are put 1e-9..1e-3 cell widths from RA cell '
            'edges, Dec slice edges, the seam cell, the padded outer bounds and in the polar slice, partners just across '
            'the edge at m(1 +- 10^-u).  Every case is re-run with both lists permuted and with another admissible '
            'chunk size.  Non-trivial: >= 1 true pair, >= 1 non-pair within 2m and >= 1 true pair whose two points lie in '
            'different cells; distinct by hash of the materialised case.  Class degenerate: all points of list 1 and/or list 2 '
            'at exactly one RA (meridian strips, two points at one RA, RA 0, strips into the polar cap) or at one Dec.  '
            'After every case the harness runs the canary sequence in the same process - fixed polar, '
            'equal-RA, seam inputs with known answers, a polar one always before an equal-RA one - so that what a call '
            'leaves behind (e.g. the numpy error state) is seen by the next call.  Class flavours: whole-degree lattice '
            'positions handed over as int64/int32/int16/unsigned, float32, big-endian, strided, reversed-view and '
            'read-only arrays (RA only, Dec only, one list, all four), judged by the same oracle (band max(1e-5 rel, '
            '3e-3 deg) when numpy converts the argument to radians in float32), arguments compared bytewise afterwards.  '
            'Class dense: 2**k, 2**k +- 1 (k = 8..17) list-2 points and 2-5 list-1 points in ONE chunk (quick: 10 sizes incl. '
            '65537 and 131073).  Exact boundary RAs (0.0, nextafter(360,0), 60..300 = 360 - trial offset) are injected into '
            'list 2 of 20 % of the cases of most classes and into all-around first lists.  Class same_lists: SEQUENCES of '
            '5-12 calls in one process on equal values, every call judged by the same oracle: one first list (fresh copies or the '
            'very same array objects) matched again and again with 3-5 match lengths in growing / shrinking / mixed order with '
            'repeats, at one explicit chunk size, the default one (lengths <= 0.025 deg all get 0.1 deg; or any lengths), or two '
            'alternating ones; against the same second list, another one, a twin (same size and bounding box, other interior '
            'points), list 1 itself; list 1 replaced by its twin, permuted, or the two lists in each other\'s place in some '
            'calls; spheregroup on list 1 interleaved and judged against union-find components.  The buffer-reuse monitor '
            '(vlib/brd.py) is attached to spherematch (every 17th call; its own calls are fenced to grids the workload asks for).')
    ASSUMPTIONS = ['separations from a long-double chord formula; pairs within max(1e-9 relative, 1e-11 deg) of the match '
                   'length are undecided (gcirc carries <= 5e-14 deg absolute error from the RA subtraction in radians)',
                   'reported distance must agree with the reference within max(1e-9 relative, 1e-11 deg)',
                   'every chunk size the function accepts without raising (> match length) is admissible',
                   'maxmatch > 0 is judged on validity + cap + greedy-maximality + order, not on a particular tie-break']
    REQUIRED_COUNTERS = ('true_pairs', 'band_pairs_undecided', 'cross_cell_true_pairs', 'near_threshold_pairs', 'wrap_low_arm', 'wrap_high_arm',
                         'multi_slice_arm', 'outside_bounds_arm', 'polar_single_cell_slice', 'maxmatch_pos_calls',
                         'maxmatch_blocked_pairs', 'edge_close_points', 'perm_variants', 'chunksize_variants',
                         'canary_sequences', 'canary_inputs_judged', 'flavour_calls', 'flavour_int_calls', 'flavour_single_precision_calls',
                         'flavour_layout_calls', 'flavour_args_unchanged_checks', 'flavour_true_pairs',
                         'gridline_points_exactly_on_dec_bounds', 'gridline_points_on_outer_dec_bounds', 'gridline_points_on_ra_bounds',
                         'lattice_beyond_cases', 'wide_length_cases', 'wide_length_ge_180_cases', 'near_antipodal_pairs',
                         'seam_tight_cases', 'seam_tight_pairs',
                         'boundary_ra_points', 'dense_cases', 'dense_cases_above_65536_in_one_chunk', 'dense_true_pairs', 'equal_ra_list1_cases', 'equal_dec_list1_cases',
                         'same_lists_cases', 'same_lists_growing_calls', 'same_lists_growing_new_pairs_across_cells',
                         'same_lists_growing_calls_default_chunksize', 'same_lists_growing_calls_after_spheregroup',
                         'same_lists_shrinking_calls', 'same_lists_repeated_length_calls', 'same_lists_other_second_list_calls',
                         'same_lists_calls_after_another_chunksize', 'same_lists_same_object_calls', 'same_lists_twin_calls',
                         'same_lists_spheregroup_judged', 'same_lists_swapped_calls', 'brd_differentials', 'brd_differentials_partial_refill', 'brd_own_calls_made')

    # ------------------------------------------------------------------ wiring
    def setup(self):
        import pydl.pydlutils.spheregroup as SG
        self.SG = SG
        self._chunk = None
        for f in (SG.chunks.__init__, SG.chunks.assign, SG.chunks.getbounds, SG.chunks.get, SG.spherematch):
            self.reach.add(f)
        self._orig_assign = orig = SG.chunks.assign
        chk = self

        def assign(inst, ra, dec, marginSize):
            if not chk.brd.in_protocol:        # (calls the buffer-reuse monitor makes on its own are not the case's geometry)
                chk._chunk = inst
            return orig(inst, ra, dec, marginSize)
        SG.chunks.assign = assign
        # The buffer-reuse monitor repeats a call with the arguments of two observed calls MIXED ("same lists, another match
        # length / chunk size").  A mixture can leave the workload's domain by orders of magnitude - a chunk size of arcseconds
        # for a list that spans tens of degrees is 1e9 cells, and `chunks.__init__` then runs for minutes (seen as a `returns`
        # alarm on the unchanged tree, quick tier seed 0 and thorough tier seed 1, caused by the monitor alone).  The cost of a
        # call is governed by its grid, which depends on list 1 and the chunk size only.  A call the monitor makes on its own
        # is let through when the workload itself has asked for a grid of the same list 1 (same bytes) with a chunk size no
        # larger, or when (Dec extent / c + 3)(360 / c + 3) - an upper bound whatever the RAs - is at most 1e5 cells; otherwise
        # it is refused by an exception, which the monitor compares like any other answer.  Calls of the workload itself are
        # only looked at (list 1 and chunk size remembered), never touched.
        self._orig_spherematch = orig_sm = SG.spherematch
        self.brd_calls = {'made': 0, 'refused': 0}
        self._grids = {}

        @functools.wraps(orig_sm)
        def spherematch(*a, **k):
            try:
                d = dict(zip(('ra1', 'dec1', 'ra2', 'dec2', 'matchlength', 'chunksize'), a), **k)
                c = d.get('chunksize')
                c = eff_cs(float(d['matchlength']), None if c is None else float(c))
                key = list1_key(d['ra1'], d['dec1'])
            except Exception:
                key = c = None
            if chk.brd.in_protocol:
                known = chk._grids.get(key) if key is not None else None
                if not ((known is not None and c >= known) or (key is not None and grid_bound(d['dec1'], c) <= PROTOCOL_MAX_CELLS)):
                    chk.brd_calls['refused'] += 1
                    raise OutsideWorkload('mixture of two calls asks for a grid the workload never asked for')
                chk.brd_calls['made'] += 1
            elif key is not None and c > 0.0:
                if len(chk._grids) >= GRID_MEMORY:
                    chk._grids.pop(next(iter(chk._grids)))
                chk._grids[key] = min(chk._grids.pop(key, c), c)
            return orig_sm(*a, **k)
        SG.spherematch = spherematch
        self.brd.attach(self.rec, SG, 'spherematch', every=BRD_EVERY)
        self.brd.per_case = 2
        self.rec.wrap(SG, 'spherematch')
        # known answers of the canaries, verified once against the independent reference (harness error if they disagree)
        self._canary = {}
        for name, (inp, pairs) in CANARIES.items():
            a = [np.array(inp[k], dtype='d') for k in ('ra1', 'dec1', 'ra2', 'dec2')]
            S = R.checked_sep_matrix(*a)
            sure, maybe = R.classify(S, inp['m'])
            truth = sorted(zip(*[x.tolist() for x in np.nonzero(sure)]))
            if truth != sorted(pairs) or int((maybe & ~sure).sum()):
                raise RuntimeError('canary %s: stored answer disagrees with the reference' % name)
            self._canary[name] = (a, inp, S, S.astype('d'), sure, maybe)

    def teardown(self):
        self.rec.unwrap_all()
        self.SG.spherematch = self._orig_spherematch
        self.SG.chunks.assign = self._orig_assign

    def budget(self, tier):
        q = tier == 'quick'
        return {
            'clusters': 600 if q else 12000,
            'seam': 300 if q else 6000,
            'allsky': 80 if q else 1500,
            'wide2': 300 if q else 6000,
            'shells': 400 if q else 8000,
            'dups': 160 if q else 3000,
            'maxmatch': 400 if q else 8000,
            'clamped': 400 if q else 6000,
            'guided': 800 if q else 16000,
            'guided_pad': 400 if q else 8000,
            'guided_wrap': 200 if q else 4000,
            'polar': 240 if q else 5000,
            'canary_inputs': len(CANARIES),
            'flavours': 400 if q else 8000,
            'gridlines': 240 if q else 5000,
            'wide_lengths': 120 if q else 2500,
            'seam_tight': 160 if q else 3000,
            'dense': len(DENSE_QUICK) if q else 4 * len(DENSE_SIZES),
            'degenerate': 300 if q else 6000,
            'same_lists': 200 if q else 4000,
        }

    # ------------------------------------------------------------------ generator helpers
    def _learn(self, ra1, dec1, cs):
        """geometry of the chunks object the code under test builds for list 1 (None if it refuses)."""
        try:
            c = self.SG.chunks(np.array(ra1, dtype='d'), np.array(dec1, dtype='d'), cs)
        except Exception:
            return None
        return R.Geo(c, ra1, dec1)

    def _variants(self, rng, case, allow_small_cs=True):
        m = case['m']
        lo = 1.01 if allow_small_cs else 2.0
        cs2 = m * log_uniform(rng, lo, 64.0)
        floor = case.get('cs_floor')
        if floor:
            cs2 = max(cs2, floor)
        while est_cells(case['ra1'], case['dec1'], cs2) > 2e5:
            cs2 *= 2.0
        k = case['k']
        case['variants'] = [
            {'p1': rng.getrandbits(32), 'p2': rng.getrandbits(32), 'cs': case['cs'], 'k': k},
            {'p1': None, 'p2': None, 'cs': cs2, 'k': k},
        ]
        return case

    def _partners(self, rng, ra1, dec1, m, n, lo=0.0, hi=2.0):
        ra2, dec2 = [], []
        for _ in range(n):
            i = rng.randrange(len(ra1))
            a, d = R.destination(ra1[i], dec1[i], rng.uniform(0, 360), m * rng.uniform(lo, hi))
            if abs(d) < DECLIM:
                ra2.append(a)
                dec2.append(d)
        return ra2, dec2

    def _pick_k(self, rng, n1, n2):
        return rng.choice([0, 0, 0, 0, 1, 1, 2, 3, max(n1, n2)])

    # ------------------------------------------------------------------ gen
    def gen(self, cls, rng, i):
        nr = np_rng(rng)
        f = getattr(self, 'gen_' + cls)
        case = f(rng, nr, i)
        if case is None:
            return None
        case['cls'] = cls
        if 'variants' not in case:
            self._variants(rng, case)
        # exact boundary values of RA (drawn last, so that everything above is unchanged by this)
        if cls in BOUNDARY_L2 and rng.random() < 0.2:
            for _ in range(rng.randint(1, 2)):
                case['ra2'][rng.randrange(len(case['ra2']))] = rng.choice(BOUNDARY_RA)
        if cls in BOUNDARY_L1 and rng.random() < 0.3:
            case['ra1'][rng.randrange(len(case['ra1']))] = rng.choice(BOUNDARY_RA)
        return case

    def gen_gridlines(self, rng, nr, i):
        """list-2 points exactly ON the lines of the chunk grid that list 1 produces.  'guided': the grid of a preliminary
        chunks(list 1) is read back and list-2 points get Dec = decBounds[k] for every k (first and last included, i.e. 1-1.5
        chunk sizes outside list 1) and rotated RA = raBounds[slice][k] for every k, also both at once (grid nodes).
        'lattice': list 1 on round coordinates, list 2 a regular lattice of step m x {0.5, 1, 1.5, 2, 4} through the same
        origin that extends one to two chunk sizes beyond list 1 on every side (catalogue of field centres)."""
        if rng.random() < 0.5:
            return self._gen_lattice_beyond(rng)
        m = log_uniform(rng, 0.02, 3.0)
        cs = rng.choice([None, None, m * rng.choice([1.3, 2.0, 4.0, 8.0])])
        dec0 = clipdec(rng.choice([0.0, 15.0, -30.0, 45.0, 60.0, -70.0, 80.0]) + rng.uniform(-1, 1))
        ra1, dec1 = self._base(rng, nr, m, dec0, 3.0, 12.0, 5, 20)
        g = self._learn(ra1, dec1, eff_cs(m, cs))
        ra2, dec2 = [], []
        if g is not None:
            pad = eff_cs(m, cs) * 1.6 / max(math.cos(math.radians(dec0)), 0.05)
            xs = lambda: rng.uniform(g.xMin - pad, g.xMax + pad)
            for kk in range(g.nDec + 1):
                d = g.decBounds[kk]
                if abs(d) >= 90.0:
                    continue
                for _ in range(2):
                    ra2.append(g.unrot(xs() % 360.0))
                    dec2.append(d)
                j = rng.randrange(len(ra1))
                ra2.append(ra1[j])
                dec2.append(d)
            for sl in range(g.nDec):
                lo, hi = g.decBounds[sl], g.decBounds[sl + 1]
                for kk in range(g.nRa[sl] + 1):
                    if len(ra2) > 90:
                        break
                    x = g.raBounds[sl][kk]
                    if x >= 360.0:
                        continue
                    d = rng.choice([lo, hi, rng.uniform(lo, hi), rng.uniform(lo, hi)])
                    if abs(d) >= 90.0:
                        d = rng.uniform(lo, hi)
                    ra2.append(g.unrot(x))
                    dec2.append(clipdec(d))
        fa, fd = self._partners(rng, ra1, dec1, m, 6, 0.3, 2.0)
        ra2 += fa
        dec2 += fd
        return {'m': m, 'cs': cs, 'k': rng.choice([0, 0, 0, 1, 2]), 'ra1': ra1, 'dec1': dec1, 'ra2': ra2, 'dec2': dec2,
                'kind': 'guided'}

    def _gen_lattice_beyond(self, rng):
        m = rng.choice([0.1, 0.2, 0.25, 0.5, 1.0, 2.0])
        cs = rng.choice([None, None, 2.0 * m, 4.0 * m, 8.0 * m])
        c = eff_cs(m, cs)
        dec0 = rng.choice([-40.0, -10.0, 0.0, 10.0, 30.0, 50.0])
        ra0 = rng.choice([20.0, 100.0, 200.0, 300.0])
        half = 0.5 * m
        H = half * rng.randint(2, 44)                       # extent of list 1 in Dec and RA: multiples of m/2
        W = half * rng.randint(2, 44)
        while dec0 + H > 80.0:                              # stay inside the domain |Dec| < 90 with room for list 2
            H -= half
        s1 = m * rng.choice([0.5, 1.0, 2.0])
        n1 = rng.randint(2, 30)
        pts = {(ra0, dec0), (ra0 + W, dec0 + H)}            # the box corners are members, so the extremes are round numbers
        for _ in range(20 * n1):                            # bounded: the lattice may have fewer than n1 sites
            if len(pts) >= n1:
                break
            pts.add((ra0 + min(W, s1 * rng.randint(0, int(W / s1))), dec0 + min(H, s1 * rng.randint(0, int(H / s1)))))
        pts = sorted(pts)
        rng.shuffle(pts)
        s2 = m * rng.choice([0.5, 0.5, 1.0, 1.5, 2.0, 4.0])
        ext = c * rng.uniform(1.0, 2.0)
        cosd = max(math.cos(math.radians(dec0 + H)), 0.2)
        na, nb = int((W + 2 * ext / cosd) / s2) + 1, int((H + 2 * ext) / s2) + 1
        a0, b0 = -int(ext / cosd / s2) - 1, -int(ext / s2) - 1
        allp = [(ra0 + (a0 + a) * s2, dec0 + (b0 + b) * s2) for a in range(na + 1) for b in range(nb + 1)]
        allp = [q for q in allp if abs(q[1]) < 89.0]
        if len(allp) > 90:
            # keep the frame (outermost rows/columns carry the grid edges) and a sample of the interior
            dmin, dmax = min(q[1] for q in allp), max(q[1] for q in allp)
            edge = [q for q in allp if q[1] > dec0 + H + 0.5 * c or q[1] < dec0 - 0.5 * c]
            rest = [q for q in allp if q not in set(edge)]
            rng.shuffle(edge)
            rng.shuffle(rest)
            allp = edge[:60] + rest[:30]
        rng.shuffle(allp)
        return {'m': m, 'cs': cs, 'k': rng.choice([0, 0, 0, 1, 2]), 'ra1': [R.wrap360(q[0]) for q in pts], 'dec1': [q[1] for q in pts],
                'ra2': [R.wrap360(q[0]) for q in allp], 'dec2': [q[1] for q in allp], 'kind': 'lattice'}

    def gen_seam_tight(self, rng, nr, i):
        """explicit chunk size barely above the match length (ratio 1.0001 .. 1.1; exactly 1.0 is refused by chunks.assign),
        an all-sky first list (every slice goes all around, no RA offset avoids 0/360), match lengths 5-45 deg, and pairs
        put across RA 0/360 (and other chunk edges) of every all-around slice of the recorded geometry with RA differences
        up to the largest one a pair closer than m can have - the partner sits where the meridian touches the circle of
        radius m(1 - 10^-u) around the list-1 point (RA difference asin(sin m / cos dec)), or due E-W, or anywhere."""
        m = rng.uniform(5.0, 45.0)
        cs = m * rng.choice([1.0001, 1.001, 1.01, 1.01, 1.02, 1.03, 1.05, 1.08, 1.1])
        if rng.random() < 0.3:
            cs = float(rng.choice([8, 10, 15, 20, 25, 30, 40, 45]))       # round chunk sizes, match length just below
            m = cs / rng.choice([1.0001, 1.01, 1.02, 1.03, 1.05])
        n1 = rng.randint(30, 60)
        ra1, dec1 = sphere_scatter(nr, n1)
        g = self._learn(ra1, dec1, cs)
        ra2, dec2 = [], []
        wide = 0
        if g is not None:
            for sl in range(g.nDec):
                if not g.all_around(sl) or g.nRa[sl] < 2:
                    continue
                lo, hi = g.decBounds[sl], g.decBounds[sl + 1]
                w = g.width(sl)
                pw, other = g.poleward(sl)
                for _ in range(rng.randint(2, 4)):
                    r = rng.random()
                    d1 = pw - math.copysign(10.0 ** rng.uniform(-6, -0.3) * (hi - lo), pw - other) if r < 0.6 else rng.uniform(lo, hi)
                    d1 = clipdec(d1)
                    if not (lo <= d1 < hi):
                        continue
                    mm = m * (1.0 - 10.0 ** -rng.choice([2, 3, 4, 5, rng.uniform(1, 6)])) if rng.random() < 0.8 else m * rng.uniform(0.5, 1.0)
                    t = math.tan(math.radians(mm)) * math.tan(math.radians(d1))
                    kind = rng.choice(['tangent', 'tangent', 'ew', 'any'])
                    if kind == 'tangent' and abs(t) < 1.0:
                        b = math.degrees(math.acos(t))
                    elif kind == 'ew':
                        b = 90.0
                    else:
                        b = rng.uniform(5.0, 175.0)
                    a2, d2 = R.destination(0.0, d1, b, mm)          # partner east of a list-1 point at RA 0
                    if abs(d2) >= DECLIM or not (0.0 < a2 < 170.0):
                        continue
                    D = a2
                    edge = rng.choice([0.0, 0.0, 360.0, g.raBounds[sl][rng.randint(0, g.nRa[sl])]])
                    off = D * rng.choice([10.0 ** rng.uniform(-9, -2), rng.uniform(0.0, 0.5)])
                    if rng.random() < 0.5:
                        x2, x1 = edge + off, edge - (D - off)           # list 2 just east of the edge, list 1 up to D west of it
                    else:
                        x1, x2 = edge - off, edge + (D - off)           # the roles of the sides swapped (partner still east)
                    ra1.append(g.unrot(x1 % 360.0))
                    dec1.append(d1)
                    ra2.append(g.unrot(x2 % 360.0))
                    dec2.append(d2)
                    wide += D > w
        fa, fd = self._partners(rng, ra1, dec1, m, 6, 0.3, 1.5)
        ra2 += fa
        dec2 += fd
        if not ra2:
            ra2, dec2 = [ra1[0]], [dec1[0]]
        case = {'m': m, 'cs': cs, 'k': rng.choice([0, 0, 0, 0, 1, 2]), 'ra1': ra1, 'dec1': dec1, 'ra2': ra2, 'dec2': dec2,
                'made': {'pairs': len(ra2) - len(fa), 'wider_than_a_chunk': int(wide)}}
        # variants: permutation, and another tight ratio (the oracle judges each execution)
        case['variants'] = [{'p1': rng.getrandbits(32), 'p2': rng.getrandbits(32), 'cs': cs, 'k': case['k']},
                            {'p1': None, 'p2': None, 'cs': m * rng.choice([1.0001, 1.01, 1.03, 1.05, 1.1]), 'k': case['k']}]
        return case

    def gen_wide_lengths(self, rng, nr, i):
        """the large end of the match length: 30-360 deg (90, 120, 170, 179.9, 180, 180.1, 200, 270, 359, 360 and random), all-sky
        lists, opposite clumps, exactly and nearly antipodal partners; separations never exceed 180, so from 180.1 on
        every pair is a true pair"""
        m = rng.choice(WIDE_LENGTHS) if rng.random() < 0.7 else rng.uniform(30.0, 200.0)
        n1, n2 = rng.randint(2, 30), rng.randint(1, 30)
        if rng.random() < 0.3:
            a0, d0 = rng.uniform(0, 360), rng.uniform(-60, 60)
            ra1, dec1 = cluster(nr, n1, a0, d0, 2.0)
            ra2, dec2 = cluster(nr, n2, (a0 + 180.0) % 360.0, -d0, 2.0)
        else:
            ra1, dec1 = sphere_scatter(nr, n1)
            ra2, dec2 = sphere_scatter(nr, n2)
        for _ in range(rng.randint(0, 4)):
            j = rng.randrange(n1)
            t = rng.choice([0.0, 10.0 ** -rng.randint(1, 8), rng.uniform(0, 5)])
            a, d = R.destination(ra1[j], dec1[j], rng.uniform(0, 360), 180.0 - t)
            if abs(d) < DECLIM:
                ra2.append(a)
                dec2.append(d)
        cs = None if rng.random() < 0.6 else m * rng.choice([1.01, 1.5, 4.0])
        return {'m': m, 'cs': cs, 'k': self._pick_k(rng, n1, len(ra2)), 'ra1': ra1, 'dec1': dec1, 'ra2': ra2, 'dec2': dec2,
                'cs_floor': 1.0}

    def gen_dense(self, rng, nr, i):
        """a crowded field: n2 = 2**k, 2**k +- 1 (k = 8..17) list-2 points within a fraction of a degree and an explicit
        chunk size much larger than the field, so that ONE chunk holds all of them together with the handful of list-1
        points.  Only the recipe is stored (seed, sizes, centre); run() materialises it with numpy's default_rng."""
        n2 = DENSE_QUICK[i % len(DENSE_QUICK)] if self.tier == 'quick' else DENSE_SIZES[i % len(DENSE_SIZES)]
        r = rng.choice([0.1, 0.15, 0.3])
        target = rng.choice([20.0, 60.0, 150.0])          # expected number of partners of a list-1 point
        m = min(r * math.sqrt(target / n2), 0.5 * r)
        return {'m': m, 'cs': rng.choice([1.0, 1.0, 2.5]), 'k': rng.choice([0, 0, 0, 1, 2]), 'variants': [],
                'dense': {'seed': rng.getrandbits(48), 'n1': rng.randint(2, 5), 'n2': n2, 'r': r,
                          'ra0': rng.choice([77.7, 123.4, 200.0, 301.0]), 'dec0': rng.choice([-30.0, 0.0, 45.0, 70.0])}}

    @staticmethod
    def _materialise(case):
        d = case.get('dense')
        if d is None:
            return {k: np.array(case[k], dtype='d') for k in ('ra1', 'dec1', 'ra2', 'dec2')}
        g = np.random.default_rng(d['seed'])
        c0 = math.cos(math.radians(d['dec0']))

        def disc(n, rad):
            rr = rad * np.sqrt(g.uniform(0, 1, n))
            th = g.uniform(0, 2 * math.pi, n)
            ra = np.mod(d['ra0'] + rr * np.cos(th) / c0, 360.0)
            ra[ra >= 360.0] = 0.0
            return ra, d['dec0'] + rr * np.sin(th)
        ra2, dec2 = disc(d['n2'], d['r'])
        ra1, dec1 = disc(d['n1'], 0.8 * d['r'])
        return {'ra1': ra1, 'dec1': dec1, 'ra2': ra2, 'dec2': dec2}

    def gen_canary_inputs(self, rng, nr, i):
        """the canary inputs as ordinary cases, so that their answers are also judged by the oracle on the tree under test"""
        name = sorted(CANARIES)[i % len(CANARIES)]
        inp = CANARIES[name][0]
        return {'m': inp['m'], 'cs': None, 'k': 0, 'ra1': list(inp['ra1']), 'dec1': list(inp['dec1']),
                'ra2': list(inp['ra2']), 'dec2': list(inp['dec2']), 'canary': name}

    def gen_flavours(self, rng, nr, i):
        """whole-degree lattice positions handed over as int64/int32/int16/unsigned, float32, big-endian, strided,
        reversed-view and read-only arrays (RA only, Dec only, both; list 1 only, list 2 only, all four); each flavoured
        call is judged against the reference for the same positions, after the plain float64 call"""
        dec0 = rng.choice([-60, -40, -20, -3, 0, 10, 30, 50, 60, 70])
        ra0 = rng.choice([0, 5, 100, 250, 350, 355, 357])
        gx, gy = rng.randint(3, 9), rng.randint(2, 6)
        sites = [((ra0 + a) % 360, dec0 + b) for a in range(gx) for b in range(gy)]
        n1 = rng.randint(2, min(25, len(sites)))
        n2 = 1 if rng.random() < 0.1 else rng.randint(1, min(25, len(sites)))
        l1 = [rng.choice(sites) for _ in range(n1)] if rng.random() < 0.3 else rng.sample(sites, n1)
        l2 = [rng.choice(sites) for _ in range(n2)] if rng.random() < 0.3 else rng.sample(sites, n2)
        m = rng.choice([0.4, 1.05, 1.05, 1.2, 1.45, 2.1, 2.3, 3.2])
        names = sorted(R.FLAVOURS)
        flav = []
        for _ in range(3):
            f = rng.choice(names)
            which = rng.choice(['ra1', 'dec1', 'list1', 'list2', 'ra2', 'dec2', 'all', 'all', 'ra_both', 'dec_both', 'dec_both'])
            args = {'ra1': ['ra1'], 'dec1': ['dec1'], 'list1': ['ra1', 'dec1'], 'list2': ['ra2', 'dec2'], 'ra2': ['ra2'],
                    'dec2': ['dec2'], 'all': ['ra1', 'dec1', 'ra2', 'dec2'], 'ra_both': ['ra1', 'ra2'], 'dec_both': ['dec1', 'dec2']}[which]
            spec = {}
            for a in args:
                neg = min(p[1] for p in (l1 if a.endswith('1') else l2)) < 0
                spec[a] = f if not (f in R.UNSIGNED and a.startswith('dec') and neg) else 'i4'
            if rng.random() < 0.25:             # mixed: another flavour for one more argument
                spec[rng.choice(['ra1', 'dec1', 'ra2', 'dec2'])] = rng.choice(['i8', 'f4', 'i2', 'strided', '>f8'])
            flav.append(spec)
        cs = None if rng.random() < 0.6 else m * rng.choice([1.3, 2.0, 4.0, 8.0])
        return {'m': m, 'cs': cs, 'k': rng.choice([0, 0, 0, 1, 2]), 'ra1': [p[0] for p in l1], 'dec1': [p[1] for p in l1],
                'ra2': [p[0] for p in l2], 'dec2': [p[1] for p in l2], 'flavours': flav, 'variants': []}

    def gen_degenerate(self, rng, nr, i):
        """all points of list 1 and/or list 2 at exactly one RA (meridian strip, two points at one RA, RA 0 and the
        largest double below 360, strips running into the polar cap), or at exactly one Dec"""
        kind = rng.choice(['meridian1', 'meridian1', 'meridian_both', 'meridian2', 'two_at_one_ra', 'cap_strip',
                           'parallel1', 'parallel_both'])
        m = log_uniform(rng, 1e-3, 3.0)
        ra0 = rng.choice([0.0, 0.0, RA_TOP, 10.0, 180.0, rng.uniform(0, 360), rng.uniform(0, 360)])
        dec0 = clipdec(rng.choice(DECS) + rng.uniform(-0.4, 0.4))
        n1 = 2 if kind == 'two_at_one_ra' else rng.randint(2, 40)
        n2 = rng.randint(1, 40)

        def strip(n, start, sgn):
            d, out_ = start, []
            for _ in range(n):
                out_.append(clipdec(d))
                d += sgn * m * rng.choice([rng.uniform(0.2, 0.95), rng.uniform(1.05, 2.5), 1.0 - 10.0 ** -rng.randint(2, 6)])
                if abs(d) >= DECLIM:
                    d = math.copysign(DECLIM, d)
            return out_

        def row(n, ra_start, dec):
            ra, a = [], ra_start
            for _ in range(n):
                ra.append(R.wrap360(a))
                w = R.ew_width(m * rng.choice([rng.uniform(0.2, 0.95), rng.uniform(1.05, 2.5)]), dec)
                if w is None or w > 20.0:
                    w = 20.0                      # very close to a pole: still one Dec, RA steps of 20 deg
                a += w
            return ra
        sgn = 1.0 if dec0 < 0 else -1.0
        if kind == 'cap_strip':
            pole = rng.choice([1.0, -1.0])
            dec1 = strip(n1, pole * (90.0 - 10.0 ** rng.uniform(-9, -1)), -pole)
            ra1 = [ra0] * n1
        elif kind in ('parallel1', 'parallel_both'):
            ra1 = row(n1, ra0, dec0)
            n1 = len(ra1)
            dec1 = [dec0] * n1
        elif kind == 'meridian2':
            ra1, dec1 = cluster(nr, n1, ra0, dec0, m * rng.uniform(0.5, 4.0))
        else:
            dec1 = strip(n1, dec0, sgn)
            ra1 = [ra0] * n1
        if kind == 'meridian_both':
            dec2 = [clipdec(dec1[rng.randrange(n1)] + m * rng.uniform(-1.6, 1.6)) for _ in range(n2)]
            ra2 = [ra0] * n2
        elif kind == 'meridian2':
            dec2 = strip(n2, clipdec(dec0 - sgn * m * 3.0), sgn)
            ra2 = [ra0] * n2
        elif kind == 'parallel_both':
            ra2 = [R.wrap360(ra1[rng.randrange(n1)] + (R.ew_width(m, dec0) or 1.0) * rng.uniform(-1.6, 1.6)) for _ in range(n2)]
            dec2 = [dec0] * n2
        else:
            ra2, dec2 = self._partners(rng, ra1, dec1, m, n2, 0.0, 2.0)
            if not ra2:
                ra2, dec2 = [ra1[0]], [dec1[0]]
        cs = None if rng.random() < 0.5 else m * rng.choice(CS_FACT)
        return {'m': m, 'cs': cs, 'k': self._pick_k(rng, n1, len(ra2)), 'ra1': ra1, 'dec1': dec1, 'ra2': ra2, 'dec2': dec2,
                'kind': kind}

    def gen_same_lists(self, rng, nr, i):
        """A SEQUENCE of calls in one process on equal content, every call judged by the brute-force oracle: the same first
        list (byte-identical values; fresh copies or the very same array objects) matched again and again with several match
        lengths - growing, shrinking, mixed order with repeats - at one explicit chunk size, at the default chunk size (lengths
        <= 0.025 deg all get 0.1 deg), or alternating between two chunk sizes; against the same second list, another one, a
        "twin" (same size and bounding box, other interior points), the first list itself; the first list permuted or replaced
        by its twin in between; spheregroup on the first list interleaved (shorter and longer linking lengths).  List 1 spans
        3-10 chunks each way and the second lists hold partners at 0-1.25 x the largest length, so that most true pairs of
        the longer lengths straddle chunk edges.  What a call may leave behind for a later call on the same values - a
        geometry or assignment remembered by content, size, extent, chunk size - is what this class looks at."""
        kind = rng.choice(['growing', 'growing', 'growing', 'shrinking', 'mixed', 'mixed', 'default_small', 'default_small',
                           'two_chunksizes', 'default_any'])
        if kind == 'default_small':
            m_max = rng.uniform(0.012, 0.025)
        else:
            m_max = log_uniform(rng, 0.02, 3.0)
        nm = rng.randint(3, 5)
        ms = [m_max]
        for _ in range(nm - 1):
            ms.append(ms[-1] * 10.0 ** -rng.uniform(0.15, 0.8))
        ms = ms[::-1]                                                   # ascending
        f1 = rng.choice([1.05, 1.3, 2.0, 2.0, 4.0, 4.0, 8.0])
        if kind in ('default_small', 'default_any'):
            cs_list = [None]
            c = eff_cs(m_max, None)
        else:
            cs_list = [m_max * f1]
            if kind == 'two_chunksizes':
                cs_list.append(m_max * rng.choice([x for x in (1.05, 1.3, 2.0, 4.0, 8.0, 16.0) if x != f1]))
            c = cs_list[0]
        dec0 = rng.choice(DECS[:9]) + rng.uniform(-0.4, 0.4)
        ra0 = rng.choice([rng.uniform(0, 360), rng.uniform(0, 360), 0.0])
        c0 = max(math.cos(math.radians(dec0)), 0.05)
        half = min(c * rng.uniform(1.5, 5.0), 12.0, 89.0 - abs(dec0))
        n1 = rng.randint(20, 60)

        def box(n):
            return nr.uniform(-half, half, n), nr.uniform(-half, half, n)

        def place(x, y):
            ra = np.mod(ra0 + np.asarray(x) / c0, 360.0)
            ra[ra >= 360.0] = 0.0
            return ra.tolist(), np.clip(dec0 + np.asarray(y), -DECLIM, DECLIM).tolist()

        def twin_xy(x, y):
            """same size and the same extremes (hence the same bounding box), every other point drawn again"""
            keep = {int(np.argmin(x)), int(np.argmax(x)), int(np.argmin(y)), int(np.argmax(y))}
            x2, y2 = box(len(x))
            for j in keep:
                x2[j], y2[j] = x[j], y[j]
            return x2, y2
        x1, y1 = box(n1)
        xt, yt = twin_xy(x1, y1)
        l1 = [dict(zip(('ra', 'dec'), place(x1, y1))), dict(zip(('ra', 'dec'), place(xt, yt)))]

        def partners(n, of):
            ra, dec = [], []
            for _ in range(n):
                j = rng.randrange(n1)
                a, d = R.destination(of['ra'][j], of['dec'][j], rng.uniform(0, 360), m_max * rng.uniform(0.0, 1.25))
                if abs(d) < DECLIM:
                    ra.append(a)
                    dec.append(d)
            return ra, dec
        n2 = rng.randint(40, 110)
        a2, d2 = partners(n2, l1[0])
        if not a2:
            a2, d2 = [l1[0]['ra'][0]], [l1[0]['dec'][0]]
        l2 = [{'ra': a2, 'dec': d2}]
        # twin of the second list: the points of extreme RA / Dec stay, the others become new partners (of either first list)
        rel = [((a - ra0 + 180.0) % 360.0) - 180.0 for a in a2]
        keep = {rel.index(min(rel)), rel.index(max(rel)), d2.index(min(d2)), d2.index(max(d2))}
        ta, td = list(a2), list(d2)
        for j in range(len(a2)):
            if j in keep:
                continue
            for _ in range(4):
                pa, pd = partners(1, l1[rng.randrange(2)])
                if pa and min(rel) <= ((pa[0] - ra0 + 180.0) % 360.0) - 180.0 <= max(rel) and min(d2) <= pd[0] <= max(d2):
                    ta[j], td[j] = pa[0], pd[0]
                    break
        l2.append({'ra': ta, 'dec': td})
        a3, d3 = partners(rng.randint(10, 60), l1[rng.randrange(2)])
        if a3:
            l2.append({'ra': a3, 'dec': d3})
        l2.append({'ra': list(l1[0]['ra']), 'dec': list(l1[0]['dec'])})            # the first list itself
        # ---- the sequence
        nsteps = rng.randint(5, 9)
        if kind in ('growing', 'default_small'):
            order = sorted(rng.choice(ms) for _ in range(nsteps))
            if kind == 'default_small' and rng.random() < 0.4:
                rng.shuffle(order)
        elif kind == 'shrinking':
            order = sorted((rng.choice(ms) for _ in range(nsteps)), reverse=True)
        else:
            order = [rng.choice(ms) for _ in range(nsteps)]
        if len(set(order)) == 1:
            order[-1] = ms[-1] if order[0] != ms[-1] else ms[0]
            if kind != 'shrinking':
                order.sort()
            else:
                order.sort(reverse=True)
        same_objects = rng.random() < 0.4
        steps = []
        for t, m in enumerate(order):
            cs = cs_list[t % len(cs_list)] if kind == 'two_chunksizes' else cs_list[0]
            if rng.random() < 0.2:
                L = m * rng.choice([0.25, 0.5, 1.0]) if rng.random() < 0.7 else ms[-1]
                gcs = cs
                if gcs is not None and gcs < 4.0 * L:                  # (spheregroup would replace such a chunk size by 4 L)
                    L = gcs / 4.0 * rng.choice([1.0, 0.999, 0.5])
                steps.append({'op': 'group', 'l1': 0 if rng.random() < 0.85 else 1, 'm': L, 'cs': gcs})
            r = rng.random()
            j2 = 0 if r < 0.6 else rng.randrange(len(l2))
            steps.append({'op': 'match', 'l1': 0 if rng.random() < 0.88 else 1,
                          'l2': j2, 'm': m, 'cs': cs,
                          'k': rng.choice([0, 0, 0, 0, 0, 1, 2]),
                          'p1': rng.getrandbits(32) if rng.random() < 0.12 else None,
                          'p2': rng.getrandbits(32) if rng.random() < 0.12 else None,
                          'swap': rng.random() < 0.08 and len(l2[j2]['ra']) >= 2})      # the two lists in each other's place
        return {'m': m_max, 'cs': cs_list[0], 'k': 0, 'kind': kind, 'l1': l1, 'l2': l2, 'steps': steps,
                'same_objects': same_objects, 'variants': []}

    def gen_clusters(self, rng, nr, i):
        m = log_uniform(rng, 1.0 / 3600.0, 30.0)
        dec0 = rng.choice(DECS) + rng.uniform(-0.4, 0.4)
        ra0 = rng.uniform(0, 360)
        n1 = rng.choice([rng.randint(2, 12), rng.randint(2, 40), rng.randint(2, 80)])
        n2 = rng.choice([rng.randint(1, 12), rng.randint(1, 40), rng.randint(1, 80)])
        sp1 = m * rng.uniform(0.5, 6.0)
        sp2 = sp1 * rng.choice([0.2, 1.0, 1.0, 3.0])
        ra1, dec1 = cluster(nr, n1, ra0, dec0, sp1)
        na = n2 // 2
        ra2, dec2 = cluster(nr, n2 - na, ra0, dec0, sp2)
        pa, pd = self._partners(rng, ra1, dec1, m, na)
        cs = None if rng.random() < 0.4 else m * rng.choice(CS_FACT)
        return {'m': m, 'cs': cs, 'k': self._pick_k(rng, n1, n2), 'ra1': ra1, 'dec1': dec1,
                'ra2': ra2 + pa, 'dec2': dec2 + pd}

    def gen_seam(self, rng, nr, i):
        m = log_uniform(rng, 1.0 / 3600.0, 10.0)
        dec0 = rng.choice(DECS) + rng.uniform(-0.4, 0.4)
        sp1 = m * rng.uniform(1.0, 8.0)
        c0 = max(math.cos(math.radians(dec0)), 0.01)
        ra0 = rng.uniform(-0.8, 0.8) * sp1 / c0
        n1, n2 = rng.randint(2, 50), rng.randint(1, 50)
        ra1, dec1 = cluster(nr, n1, ra0, dec0, sp1)
        ra2, dec2 = cluster(nr, n2 - n2 // 2, ra0, dec0, sp1 * rng.choice([1.0, 2.0]))
        pa, pd = self._partners(rng, ra1, dec1, m, n2 // 2)
        # exact seam values on both sides
        for lst in (ra1, ra2 + pa):
            if rng.random() < 0.3:
                lst[rng.randrange(len(lst))] = rng.choice([0.0, RA_TOP, 5e-324, 1e-13, 360.0 - 1e-12])
        cs = None if rng.random() < 0.4 else m * rng.choice(CS_FACT)
        return {'m': m, 'cs': cs, 'k': self._pick_k(rng, n1, n2), 'ra1': ra1, 'dec1': dec1,
                'ra2': ra2 + pa, 'dec2': dec2 + pd}

    def gen_allsky(self, rng, nr, i):
        m = log_uniform(rng, 0.5, 30.0)
        n1, n2 = rng.randint(20, 80), rng.randint(20, 80)
        ra1, dec1 = sphere_scatter(nr, n1)
        ra2, dec2 = sphere_scatter(nr, n2 - n2 // 2)
        pa, pd = self._partners(rng, ra1, dec1, m, n2 // 2)
        cs = None if rng.random() < 0.4 else max(1.0, m * rng.choice(CS_FACT))
        if cs is not None and cs <= m:
            cs = 1.01 * m
        case = {'m': m, 'cs': cs, 'k': self._pick_k(rng, n1, n2), 'ra1': ra1, 'dec1': dec1,
                'ra2': ra2 + pa, 'dec2': dec2 + pd, 'cs_floor': 1.0}
        return case

    def gen_wide2(self, rng, nr, i):
        m = log_uniform(rng, 1.0 / 3600.0, 15.0)
        dec0 = rng.uniform(-89, 89) if rng.random() < 0.5 else rng.choice(DECS)
        ra0 = rng.uniform(0, 360)
        n1, n2 = rng.randint(2, 40), rng.randint(4, 80)
        sp1 = m * rng.uniform(0.5, 6.0)
        ra1, dec1 = cluster(nr, n1, ra0, dec0, sp1)
        mode = rng.choice(['x10', 'x10', 'sky', 'cell'])
        if mode == 'x10':
            ra2, dec2 = cluster(nr, n2, ra0, dec0, sp1 * rng.choice([3.0, 10.0, 30.0]))
        elif mode == 'sky':
            ra2, dec2 = sphere_scatter(nr, n2)
        else:
            j = rng.randrange(n1)
            ra2, dec2 = cluster(nr, n2, ra1[j], dec1[j], m * rng.uniform(0.05, 0.6))
        pa, pd = self._partners(rng, ra1, dec1, m, max(2, n2 // 4), 0.3, 2.5)
        cs = None if rng.random() < 0.4 else m * rng.choice(CS_FACT)
        return {'m': m, 'cs': cs, 'k': self._pick_k(rng, n1, n2), 'ra1': ra1, 'dec1': dec1,
                'ra2': ra2 + pa, 'dec2': dec2 + pd, 'mode': mode}

    def gen_shells(self, rng, nr, i):
        m = log_uniform(rng, 1.0 / 3600.0, 30.0)
        dec0 = rng.choice(DECS) + rng.uniform(-0.4, 0.4)
        ra0 = rng.choice([rng.uniform(0, 360), 0.0, 359.9999])
        n1 = rng.randint(2, 30)
        ra1, dec1 = cluster(nr, n1, ra0, dec0, m * rng.uniform(0.5, 6.0))
        ra2, dec2 = [], []
        for _ in range(rng.randint(4, 60)):
            j = rng.randrange(n1)
            u = rng.choice([1, 2, 3, 4, 5, 6, 7, rng.uniform(1, 7)])
            if rng.random() < 0.03:
                u = rng.choice([9.5, 10, 12])           # inside the ambiguity band on purpose (must end up undecided)
            s = rng.choice([-1.0, 1.0])
            r = rng.random()
            if r < 0.4:
                b = rng.choice([90.0, 270.0])
            elif r < 0.8:
                b = rng.choice([0.0, 180.0])
            else:
                b = rng.uniform(0, 360)
            a, d = R.destination(ra1[j], dec1[j], b, m * (1.0 + s * 10.0 ** -u))
            if abs(d) < DECLIM:
                ra2.append(a)
                dec2.append(d)
        if not ra2:
            ra2, dec2 = [ra1[0]], [dec1[0]]
        cs = None if rng.random() < 0.4 else m * rng.choice(CS_FACT)
        return {'m': m, 'cs': cs, 'k': rng.choice([0, 0, 0, 1, 2]), 'ra1': ra1, 'dec1': dec1, 'ra2': ra2, 'dec2': dec2}

    def gen_dups(self, rng, nr, i):
        m = log_uniform(rng, 1.0 / 3600.0, 5.0)
        dec0 = rng.choice(DECS) + rng.uniform(-0.4, 0.4)
        ra0 = rng.choice([rng.uniform(0, 360), 0.0, RA_TOP])
        nb = rng.randint(1, 12)
        bra, bdec = cluster(nr, nb, ra0, dec0, m * rng.uniform(0.3, 4.0))
        special = [0.0, RA_TOP, 180.0, 360.0 - 1e-10, 1e-10]
        ra1, dec1, ra2, dec2 = [], [], [], []
        for _ in range(rng.randint(2, 30)):
            j = rng.randrange(nb)
            ra1.append(bra[j] if rng.random() < 0.8 else rng.choice(special))
            dec1.append(bdec[j])
        for _ in range(rng.randint(1, 30)):
            j = rng.randrange(nb)
            ra2.append(bra[j] if rng.random() < 0.8 else rng.choice(special))
            dec2.append(bdec[j] if rng.random() < 0.8 else clipdec(bdec[j] + m * rng.uniform(-1.5, 1.5)))
        cs = None if rng.random() < 0.5 else m * rng.choice(CS_FACT)
        return {'m': m, 'cs': cs, 'k': self._pick_k(rng, len(ra1), len(ra2)), 'ra1': ra1, 'dec1': dec1,
                'ra2': ra2, 'dec2': dec2}

    def gen_maxmatch(self, rng, nr, i):
        m = log_uniform(rng, 1e-3, 5.0)
        dec0 = rng.choice(DECS[:9]) + rng.uniform(-0.4, 0.4)
        ra0 = rng.choice([rng.uniform(0, 360), 0.0])
        n1, n2 = rng.randint(2, 40), rng.randint(1, 40)
        sp = m * rng.uniform(0.3, 3.0)
        mode = rng.choice(['dense', 'dense', 'lattice', 'twins'])
        if mode == 'lattice':
            # equal distances on purpose (ties in the greedy order)
            g = m * rng.choice([0.3, 0.45, 0.6])
            c0 = math.cos(math.radians(dec0))
            pts = [(R.wrap360(ra0 + a * g / max(c0, 0.01)), clipdec(dec0 + b * g)) for a in range(-3, 4) for b in range(-3, 4)]
            s1 = [pts[rng.randrange(len(pts))] for _ in range(n1)]
            s2 = [pts[rng.randrange(len(pts))] for _ in range(n2)]
            ra1, dec1 = [p[0] for p in s1], [p[1] for p in s1]
            ra2, dec2 = [p[0] for p in s2], [p[1] for p in s2]
        else:
            ra1, dec1 = cluster(nr, n1, ra0, dec0, sp)
            ra2, dec2 = cluster(nr, n2, ra0, dec0, sp)
            if mode == 'twins':
                for j in range(min(n1, n2)):
                    if rng.random() < 0.5:
                        ra2[j], dec2[j] = R.destination(ra1[j], dec1[j], rng.uniform(0, 360), m * rng.uniform(0, 0.2))
                        dec2[j] = clipdec(dec2[j])
        cs = None if rng.random() < 0.5 else m * rng.choice(CS_FACT)
        k = rng.choice([1, 1, 2, 3, max(n1, n2)])
        case = {'m': m, 'cs': cs, 'k': k, 'ra1': ra1, 'dec1': dec1, 'ra2': ra2, 'dec2': dec2, 'mode': mode}
        self._variants(rng, case)
        case['variants'].append({'p1': rng.getrandbits(32), 'p2': None, 'cs': cs, 'k': rng.choice([1, 2, 3])})
        return case

    def gen_clamped(self, rng, nr, i):
        """declination range of the grid clamped at +-90: large chunk sizes relative to the polar distance."""
        m = log_uniform(rng, 0.05, 12.0)
        sgn = rng.choice([1.0, 1.0, 1.0, -1.0])
        n1, n2 = rng.randint(2, 40), rng.randint(1, 40)
        top = rng.uniform(60.0, 89.9)
        # wide Dec extents matter: the last boundary is decMin + (90-decMin)*nDec/nDec, which only rounds above 90
        # when 90-decMin is large (F-G2)
        bot = rng.uniform(-30.0, 40.0) if rng.random() < 0.7 else top - rng.uniform(0.5, 50.0)
        ra0 = rng.uniform(0, 360)
        w = rng.choice([5.0, 30.0, 180.0])
        ra1 = [R.wrap360(ra0 + rng.uniform(-w, w)) for _ in range(n1)]
        dec1 = [sgn * bot, sgn * top] + [sgn * rng.uniform(bot, top) for _ in range(n1 - 2)]
        # chunk size large enough that decMax + pad exceeds 90 - 3*cs
        cs = max(1.01 * m, (90.0 - top) / 3.0 * rng.uniform(1.0, 6.0), rng.uniform(1.0, 15.0))
        ra2 = [R.wrap360(ra0 + rng.uniform(-w, w)) for _ in range(n2 - n2 // 2)]
        dec2 = [sgn * rng.uniform(bot, min(top + 5.0, 89.99)) for _ in range(n2 - n2 // 2)]
        pa, pd = self._partners(rng, ra1, dec1, m, n2 // 2)
        case = {'m': m, 'cs': cs, 'k': self._pick_k(rng, n1, n2), 'ra1': ra1, 'dec1': dec1,
                'ra2': ra2 + pa, 'dec2': dec2 + pd, 'cs_floor': 0.5}
        return case

    # ---- geometry-guided -------------------------------------------------------------------------
    def _base(self, rng, nr, m, dec0, spread_lo=3.0, spread_hi=10.0, nlo=5, nhi=20):
        ra0 = rng.choice([rng.uniform(0, 360), rng.uniform(0, 360), 0.0])
        sp = m * rng.uniform(spread_lo, spread_hi)
        ra1, dec1 = cluster(nr, rng.randint(nlo, nhi), ra0, dec0, sp)
        return ra1, dec1

    def gen_guided(self, rng, nr, i):
        dec0 = rng.choice(HIGH + [0.0, 30.0, -45.0]) + rng.uniform(-1, 1)
        dec0 = clipdec(dec0)
        m = log_uniform(rng, 10 ** -2.5, 10 ** 0.7)
        cs = rng.choice([None, m * rng.choice([4.0, 4.0, 8.0, 2.0, 1.5, 1.05])])
        ra1, dec1 = self._base(rng, nr, m, dec0)
        g = self._learn(ra1, dec1, eff_cs(m, cs))
        ra2, dec2 = [], []
        made = {'ra_edge': 0, 'dec_edge': 0, 'corner': 0, 'seam_cell': 0}
        if g is not None:
            pops = g.populated_slices()
            for _ in range(rng.randint(20, 60)):
                kind = rng.choice(['ra_edge', 'ra_edge', 'ra_edge', 'dec_edge', 'corner', 'seam_cell'])
                r = self._guided_pair(rng, g, m, kind, pops)
                if r is None:
                    continue
                (a1, d1), (a2, d2) = r
                if not (abs(d1) < DECLIM and abs(d2) < DECLIM):
                    continue
                if not g.in_box(a1, d1):
                    continue
                ra1.append(a1)
                dec1.append(d1)
                ra2.append(a2)
                dec2.append(d2)
                made[kind] += 1
        if not ra2:
            ra2, dec2 = self._partners(rng, ra1, dec1, m, 6)
            if not ra2:
                ra2, dec2 = [ra1[0]], [dec1[0]]
        fa, fd = self._partners(rng, ra1, dec1, m, 4, 0.5, 2.0)
        n1, n2 = len(ra1), len(ra2) + len(fa)
        return {'m': m, 'cs': cs, 'k': rng.choice([0, 0, 0, 0, 1, 2]), 'ra1': ra1, 'dec1': dec1,
                'ra2': ra2 + fa, 'dec2': dec2 + fd, 'made': made}

    def _guided_pair(self, rng, g, m, kind, pops):
        """one list-1 point within 1e-9..1e-3 cell widths of an edge and a list-2 partner just across it at
        separation m(1 +- 10^-u) (or the roles swapped).  Coordinates only; the oracle recomputes everything."""
        i = rng.choice(pops)
        lo, hi = g.decBounds[i], g.decBounds[i + 1]
        h = hi - lo
        pw, other = g.poleward(i)
        u = rng.choice([2, 3, 4, 5, 6, 7, rng.uniform(1, 7)])
        s = rng.choice([-1.0, -1.0, 1.0])          # -1: inside the match length
        tiny = 10.0 ** rng.uniform(-9, -3)
        swap = rng.random() < 0.3
        if kind in ('ra_edge', 'seam_cell'):
            if kind == 'ra_edge':
                if g.nRa[i] < 2:
                    return None
                k = rng.randint(1, g.nRa[i] - 1)
            else:
                if not g.all_around(i):
                    return None
                k = rng.choice([0, g.nRa[i]])
            edge = g.raBounds[i][k]
            w = g.width(i)
            # declination inside the slice, mostly hugging the poleward boundary where cos(dec) ~ cosDecMin
            r = rng.random()
            if r < 0.6:
                dec = pw - math.copysign(10.0 ** rng.uniform(-8, -1) * h, pw - other)
            elif r < 0.8:
                dec = other + math.copysign(10.0 ** rng.uniform(-8, -1) * h, pw - other)
            else:
                dec = rng.uniform(lo, hi)
            dec = clipdec(dec)
            dfull = R.ew_width(m, dec)
            if dfull is None or dfull >= 170.0:
                return None
            side = rng.choice([-1.0, 1.0])
            off = tiny * w
            d12 = dfull * (1.0 + s * 10.0 ** -u)
            if d12 <= off:
                return None
            x1 = edge + side * off
            x2 = edge - side * (d12 - off)
            p1 = (g.unrot(x1), dec)
            dec2 = dec if rng.random() < 0.6 else clipdec(dec + rng.gauss(0, 1e-3 * m))
            p2 = (g.unrot(x2), dec2)
        elif kind == 'dec_edge':
            kb = rng.choice([i, i + 1])
            bnd = g.decBounds[kb]
            if abs(bnd) >= 90.0:
                return None
            side = rng.choice([-1.0, 1.0])
            d1 = bnd + side * tiny * h
            x = rng.uniform(g.xMin, g.xMax)
            p1 = (g.unrot(x), clipdec(d1))
            b = rng.choice([0.0, 180.0]) if rng.random() < 0.7 else rng.uniform(0, 360)
            if b in (0.0, 180.0):
                b = 180.0 if side > 0 else 0.0
            p2 = R.destination(p1[0], p1[1], b, m * (1.0 + s * 10.0 ** -u))
        else:  # corner
            if g.nRa[i] < 2:
                return None
            k = rng.randint(1, g.nRa[i] - 1)
            kb = rng.choice([i, i + 1])
            bnd = g.decBounds[kb]
            if abs(bnd) >= 90.0:
                return None
            w = g.width(i)
            x1 = g.raBounds[i][k] + rng.choice([-1.0, 1.0]) * tiny * w
            d1 = bnd + (1.0 if kb == i else -1.0) * 10.0 ** rng.uniform(-9, -3) * h
            p1 = (g.unrot(x1), clipdec(d1))
            p2 = R.destination(p1[0], p1[1], rng.choice([45.0, 135.0, 225.0, 315.0, 90.0, 270.0, 0.0, 180.0,
                                                         rng.uniform(0, 360)]), m * (1.0 + s * 10.0 ** -u))
        if swap:
            # the near-edge point goes to list 2 (free), its partner to list 1 (must stay inside the box)
            return p2, p1
        return p1, p2

    def gen_guided_pad(self, rng, nr, i):
        """list-2 points just outside the padded RA / Dec range of the grid built from list 1, with the RA extent of
        list 1 tuned so that the pad of the target slice is as small as the construction allows."""
        dec0 = clipdec(rng.choice(HIGH + [0.0, 40.0]) + rng.uniform(-1, 1))
        m = log_uniform(rng, 10 ** -2.0, 10 ** 0.7)
        cs = m * rng.choice([1.0001, 1.001, 1.01, 1.01, 1.05, 1.2, 2.0, 4.0])
        ra1, dec1 = self._base(rng, nr, m, dec0, 2.0, 6.0, 6, 14)
        g = self._learn(ra1, dec1, cs)
        ra2, dec2 = [], []
        info = {}
        if g is not None:
            pops = g.populated_slices()
            it = rng.choice(pops)
            if not g.all_around(it) and g.nRa[it] >= 3:
                # tune: move the list-1 point of largest rotated RA so that frac(raRange / w) -> 1-
                w = eff = cs / g.cos_min(it)
                x = [g.rot(a) for a in ra1]
                jmax = max(range(len(x)), key=lambda j: x[j])
                rr = g.xMax - g.xMin
                target = (math.floor(rr / w) + 1.0 - 10.0 ** rng.uniform(-6, -2)) * w
                xnew = g.xMin + target
                if xnew < 360.0 - 3.0 * w:
                    ra1[jmax] = g.unrot(xnew)
                    g2 = self._learn(ra1, dec1, cs)
                    if g2 is not None:
                        g = g2
                        info['tuned'] = True
            pops = g.populated_slices()
            for _ in range(rng.randint(10, 30)):
                i2 = rng.choice(pops)
                lo, hi = g.decBounds[i2], g.decBounds[i2 + 1]
                pw, other = g.poleward(i2)
                u = rng.choice([2, 3, 4, 5, rng.uniform(1, 6)])
                s = rng.choice([-1.0, -1.0, 1.0])
                kind = rng.choice(['ra_pad', 'ra_pad', 'dec_pad'])
                if kind == 'ra_pad':
                    # partner of the list-1 point of extreme rotated RA, due E-W outward; the list-1 point itself
                    # must sit in slice i2 for the slice's pad to matter, so pick extremes among points of that slice
                    idx = [j for j in range(len(ra1)) if lo <= dec1[j] < hi]
                    if not idx:
                        continue
                    xs = {j: g.rot(ra1[j]) for j in idx}
                    side = rng.choice([-1.0, 1.0])
                    j = min(idx, key=lambda q: xs[q]) if side < 0 else max(idx, key=lambda q: xs[q])
                    dfull = R.ew_width(m, dec1[j])
                    if dfull is None or dfull > 170.0:
                        continue
                    a2 = g.unrot(xs[j] + side * dfull * (1.0 + s * 10.0 ** -u))
                    ra2.append(a2)
                    dec2.append(dec1[j])
                else:
                    side = rng.choice([-1.0, 1.0])
                    j = min(range(len(dec1)), key=lambda q: dec1[q]) if side < 0 else max(range(len(dec1)), key=lambda q: dec1[q])
                    a2, d2 = R.destination(ra1[j], dec1[j], 0.0 if side > 0 else 180.0, m * (1.0 + s * 10.0 ** -u))
                    if abs(d2) >= DECLIM:
                        continue
                    ra2.append(a2)
                    dec2.append(d2)
            # a few list-1 points hugging the poleward boundary of populated slices at the extreme RA (they keep
            # the box: same rotated RA as the extreme point is not possible without moving it, so reuse the extreme)
        fa, fd = self._partners(rng, ra1, dec1, m, 6, 0.5, 3.0)
        ra2 += fa
        dec2 += fd
        if not ra2:
            ra2, dec2 = [ra1[0]], [dec1[0]]
        case = {'m': m, 'cs': cs, 'k': rng.choice([0, 0, 0, 1]), 'ra1': ra1, 'dec1': dec1, 'ra2': ra2, 'dec2': dec2,
                'made': info}
        return case

    def gen_guided_wrap(self, rng, nr, i):
        """all-around slices (RA cells cover 0..360) at high |Dec| with large match lengths and chunk size close to
        the match length: margins that span more than one cell across the 0/360 wrap of the cell index."""
        sgn = rng.choice([1.0, -1.0])
        m = log_uniform(rng, 1.0, 12.0)
        cs = m * rng.choice([1.01, 1.05, 1.1, 1.2, 1.5, 2.0])
        dlo = rng.uniform(55.0, 84.0)
        dhi = min(dlo + rng.uniform(2.0, 12.0), 88.5)
        n1 = rng.randint(8, 30)
        ra1 = [rng.uniform(0.0, 360.0) for _ in range(n1)]
        dec1 = [sgn * rng.uniform(dlo, dhi) for _ in range(n1)]
        # make the RA coverage complete enough that no rotation avoids the seam
        for q in range(12):
            ra1.append(R.wrap360(q * 30.0 + rng.uniform(0, 5)))
            dec1.append(sgn * rng.uniform(dlo, dhi))
        g = self._learn(ra1, dec1, cs)
        ra2, dec2 = [], []
        made = 0
        if g is not None:
            pops = [q for q in g.populated_slices() if g.all_around(q) and g.nRa[q] >= 2]
            for _ in range(rng.randint(10, 40)):
                if not pops:
                    break
                i2 = rng.choice(pops)
                lo, hi = g.decBounds[i2], g.decBounds[i2 + 1]
                pw, other = g.poleward(i2)
                w = g.width(i2)
                dec = clipdec(pw - math.copysign(10.0 ** rng.uniform(-6, -1) * (hi - lo), pw - other))
                if not (g.decMin <= dec <= g.decMax):
                    dec = clipdec(rng.uniform(max(lo, g.decMin), min(hi, g.decMax)))
                dfull = R.ew_width(m, dec)
                if dfull is None or dfull > 170.0:
                    continue
                u = rng.choice([2, 3, 4, rng.uniform(1, 5)])
                s = rng.choice([-1.0, -1.0, 1.0])
                d12 = dfull * (1.0 + s * 10.0 ** -u) if rng.random() < 0.5 else rng.uniform(min(w, dfull), dfull) * (1 - 1e-6)
                side = rng.choice([-1.0, 1.0])
                edge = rng.choice([0.0, 360.0] + [g.raBounds[i2][rng.randint(0, g.nRa[i2])]])
                off = 10.0 ** rng.uniform(-9, -1) * w
                x2 = edge + side * off          # list 2: near the wrap / an edge
                x1 = edge - side * (d12 - off)  # list 1: more than one cell away when d12 > w
                a1 = g.unrot(x1 % 360.0)
                if not g.in_box(a1, dec):
                    continue
                ra1.append(a1)
                dec1.append(dec)
                ra2.append(g.unrot(x2 % 360.0))
                dec2.append(dec)
                made += 1
        fa, fd = self._partners(rng, ra1, dec1, m, 8, 0.5, 2.0)
        ra2 += fa
        dec2 += fd
        if not ra2:
            ra2, dec2 = [ra1[0]], [dec1[0]]
        case = {'m': m, 'cs': cs, 'k': rng.choice([0, 0, 0, 1]), 'ra1': ra1, 'dec1': dec1, 'ra2': ra2, 'dec2': dec2,
                'made': {'wrap_pairs': made}, 'cs_floor': 1.0}
        return case

    def gen_polar(self, rng, nr, i):
        """points inside and around the polar slice (single RA cell), pairs across the pole and across the cap boundary."""
        sgn = rng.choice([1.0, -1.0])
        m = log_uniform(rng, 1e-3, 8.0)
        cs = rng.choice([None, m * rng.choice([1.05, 1.5, 2.0, 4.0, 8.0])])
        rad = eff_cs(m, cs) * rng.uniform(0.3, 4.0)          # polar distance range of list 1
        n1 = rng.randint(3, 30)
        ra1 = [rng.uniform(0, 360) for _ in range(n1)]
        dec1 = [sgn * clipdec(90.0 - min(rad * math.sqrt(rng.random()), 60.0)) for _ in range(n1)]
        if rng.random() < 0.5:
            dec1[0] = sgn * (90.0 - 10.0 ** rng.uniform(-9, -4))
        ra2, dec2 = [], []
        g = self._learn(ra1, dec1, eff_cs(m, cs))
        for _ in range(rng.randint(6, 40)):
            j = rng.randrange(n1)
            u = rng.choice([1, 2, 3, 4, 5, 6, 7])
            s = rng.choice([-1.0, 1.0])
            r = rng.random()
            if r < 0.4:
                # straight across the pole
                b = 0.0 if sgn > 0 else 180.0
            elif r < 0.7 and g is not None:
                # towards / across the boundary of the cap slice
                b = 180.0 if sgn > 0 else 0.0
            else:
                b = rng.uniform(0, 360)
            a, d = R.destination(ra1[j], dec1[j], b, m * (1.0 + s * 10.0 ** -u))
            if abs(d) < DECLIM:
                ra2.append(a)
                dec2.append(d)
        if g is not None:
            # list-2 points hugging the cap boundary from both sides
            for q in range(g.nDec):
                if g.nRa[q] == 1:
                    bnd = g.decBounds[q] if g.decBounds[q + 1] >= 90.0 else g.decBounds[q + 1]
                    for _ in range(4):
                        ra2.append(rng.uniform(0, 360))
                        dec2.append(clipdec(bnd + rng.choice([-1.0, 1.0]) * 10.0 ** rng.uniform(-9, -2) * eff_cs(m, cs)))
        if not ra2:
            ra2, dec2 = [ra1[0]], [dec1[0]]
        return {'m': m, 'cs': cs, 'k': self._pick_k(rng, n1, len(ra2)), 'ra1': ra1, 'dec1': dec1, 'ra2': ra2, 'dec2': dec2,
                'cs_floor': 0.2}

    # ------------------------------------------------------------------ run
    def canary(self):
        """Fixed, ordinary call sequence used by the harness after setup and after every case (clause `history`): a polar
        match (circles containing the pole) comes first, then lists whose points share one RA, a pair across RA 0/360, a
        list at one Dec, a strip at RA 0.  No np.errstate() here - it would put back what the calls leave behind."""
        res = []
        for name in CANARY_ORDER:
            a = self._canary[name][0]
            m = CANARIES[name][0]['m']
            try:
                with warnings.catch_warnings():
                    warnings.simplefilter('ignore')
                    m1, m2, d = self.SG.spherematch(a[0].copy(), a[1].copy(), a[2].copy(), a[3].copy(), m, maxmatch=0)
                res.append(('ok', name, tuple(np.asarray(m1).astype(int).tolist()), tuple(np.asarray(m2).astype(int).tolist()),
                            np.asarray(d, dtype='f8').round(12).tobytes()))
            except Exception as e:
                res.append(('raised', type(e).__name__, '%s: %s' % (name, str(e)[:80])))
        return res

    def run(self, case, out):
        for kk in ('made', 'refused'):           # calls the buffer-reuse monitor made since the last case (canaries included)
            if self.brd_calls[kk]:
                out.count('brd_own_calls_' + kk, self.brd_calls[kk])
                self.brd_calls[kk] = 0
        if 'steps' in case:
            return self._run_sequence(case, out)
        mc = self._materialise(case)
        ra1, dec1, ra2, dec2 = mc['ra1'], mc['dec1'], mc['ra2'], mc['dec2']
        dense = 'dense' in case
        case = dict(case, **mc) if dense else case          # the oracle's witness descriptions index the coordinates
        m = float(case['m'])
        n1, n2 = ra1.size, ra2.size
        with np.errstate(all='ignore'):      # an error state left behind by an earlier call must not reach the reference
            S = R.checked_sep_matrix(ra1, dec1, ra2, dec2)   # chord formula, cross-checked against Vincenty
        out.count('reference_selfchecks')
        sure, maybe = R.classify(S, m)
        nband = int((maybe & ~sure).sum())
        if nband:
            out.undecide(nband)
            out.count('band_pairs_undecided', nband)
        Sf = S.astype('d')
        nsure = int(sure.sum())
        out.count('true_pairs', nsure)
        near = int(((np.abs(Sf - m) < 1e-3 * m) & ~(maybe & ~sure)).sum())
        out.count('near_threshold_pairs', near)
        if case.get('cls') == 'canary_inputs':
            out.count('canary_inputs_judged')
        if n1 >= 2 and np.all(ra1 == ra1[0]):
            out.count('equal_ra_list1_cases')
        if n1 >= 2 and np.all(dec1 == dec1[0]):
            out.count('equal_dec_list1_cases')
        if n2 >= 2 and np.all(ra2 == ra2[0]):
            out.count('equal_ra_list2_cases')
        if case.get('kind') == 'lattice' and case.get('cls') == 'gridlines':
            out.count('lattice_beyond_cases')
        if case.get('cls') == 'seam_tight':
            out.count('seam_tight_cases')
            out.count('seam_tight_pairs', case['made']['pairs'])
            out.count('seam_tight_pairs_wider_than_a_chunk', case['made']['wider_than_a_chunk'])
        if case.get('cls') == 'wide_lengths':
            out.count('wide_length_cases')
            if m >= 180.0:
                out.count('wide_length_ge_180_cases')
            out.count('near_antipodal_pairs', int((Sf > 179.0).sum()))
        if not dense:
            out.count('boundary_ra_points', int(np.isin(ra1, BOUNDARY_RA).sum() + np.isin(ra2, BOUNDARY_RA).sum()))
        nonpair_near = int((~maybe & (Sf < 2.0 * m)).sum())
        runs = [{'p1': None, 'p2': None, 'cs': case['cs'], 'k': case['k']}] + list(case.get('variants', []))
        cross = 0
        for vi, v in enumerate(runs):
            p1 = perm_from_seed(v['p1'], n1)
            p2 = perm_from_seed(v['p2'], n2)
            k = int(v['k'])
            self._chunk = None
            res = self.SG.spherematch(ra1[p1], dec1[p1], ra2[p2], dec2[p2], m, chunksize=v['cs'], maxmatch=k)
            tag = 'run%d(cs=%r,k=%d,perm=%s)' % (vi, v['cs'], k, v['p1'] is not None or v['p2'] is not None)
            if vi == 0 and dense:
                # per-point geometry counters would cost as much as the call; only the chunk populations are read
                c = self._chunk
                pop = max((len(cell) for row in c.chunkList for cell in row), default=0) if c is not None else 0
                out.count('dense_cases')
                out.count('dense_true_pairs', nsure)
                out.info['dense_max_chunk_population'] = pop
                if pop > 65536:
                    out.count('dense_cases_above_65536_in_one_chunk')
                cross = 1 if pop >= n2 else 0
            elif vi == 0:
                cross = self._geometry_counters(out, ra1, dec1, ra2, dec2, sure, m)
            else:
                if v['p1'] is not None or v['p2'] is not None:
                    out.count('perm_variants')
                if v['cs'] != case['cs']:
                    out.count('chunksize_variants')
            with np.errstate(all='ignore'):      # a leaked numpy error state must not reach the oracle's own arithmetic
                self._judge(out, res, p1, p2, n1, n2, S, Sf, sure, maybe, m, k, tag, case)
        if case.get('flavours'):
            self._run_flavours(case, out, S, Sf, m, int(case['k']))
        out.nontrivial = nsure >= 1 and nonpair_near >= 1 and cross >= 1
        out.info.update({'n1': n1, 'n2': n2, 'true_pairs': nsure, 'band_pairs': nband, 'cross_cell_true_pairs': cross,
                         'nonpairs_within_2m': nonpair_near})

    def _homes(self, c, ra, dec):
        """home cell of every point in the recorded grid (monitoring only; None where the grid has no cell for it)"""
        res = []
        for a, dd in zip(ra.tolist(), dec.tolist()):
            try:
                h = c.get(float(np.fmod(a + c.raOffset, 360.0)), float(dd))
                res.append((int(h[0]), int(h[1])))
            except Exception:
                res.append(None)
        return res

    def _run_sequence(self, case, out):
        """class same_lists: the calls of case['steps'] one after another in this process, each one judged by the oracle"""
        L1 = [(np.array(x['ra'], dtype='d'), np.array(x['dec'], dtype='d')) for x in case['l1']]
        L2 = [(np.array(x['ra'], dtype='d'), np.array(x['dec'], dtype='d')) for x in case['l2']]
        kept = [a for pair in L1 + L2 for a in pair]
        before = [a.tobytes() for a in kept]
        same_objects = bool(case.get('same_objects'))
        seps = {}

        def sep(key, a, b):
            if key not in seps:
                with np.errstate(all='ignore'):
                    S = R.checked_sep_matrix(a[0], a[1], b[0], b[1])
                out.count('reference_selfchecks')
                seps[key] = (S, S.astype('d'))
            return seps[key]
        out.count('same_lists_cases')
        history = []                # (first list, effective chunk size, margin, op, second list) of the calls made so far
        nontrivial = False
        for si, st in enumerate(case['steps']):
            i1 = int(st['l1'])
            a1, d1 = L1[i1]
            n1 = a1.size
            m = float(st['m'])
            cs = st['cs']
            if st['op'] == 'group':
                ecs = max(4.0 * m, 0.1) if cs is None else max(float(cs), 4.0 * m)
                args = (a1, d1) if same_objects else (a1.copy(), d1.copy())
                res = self.SG.spheregroup(args[0], args[1], m, chunksize=cs)
                out.count('same_lists_spheregroup_calls')
                S, Sf = sep(('g', i1), (a1, d1), (a1, d1))
                with np.errstate(all='ignore'):
                    sure, maybe, nband, _ = R.fof(a1, d1, m, S=S, exact=R.exact_links(a1, d1, m))
                tag = 'step %d: spheregroup(list 1%s, L=%r, cs=%r)' % (si, 'ab'[i1], m, cs)
                if sure != maybe:
                    out.undecide(1)
                else:
                    ok = isinstance(res, tuple) and len(res) == 4 and np.asarray(res[0]).shape == (n1,)
                    if out.expect(ok, 'sequence-spheregroup', '%s: result is not four arrays of length n' % tag):
                        ing = np.asarray(res[0]).astype(int).tolist()
                        relabel = {}
                        got = [relabel.setdefault(g, len(relabel)) for g in ing]
                        out.count('same_lists_spheregroup_judged')
                        out.expect(got == list(sure), 'sequence-spheregroup',
                                   '%s, called after %d other call(s) on the same values: the groups are not the friends-of-friends '
                                   'components (%d groups, reference %d)' % (tag, si, len(relabel), max(sure) + 1),
                                   earlier_calls=[list(h[:4]) for h in history])
                history.append((i1, ecs, m, 'group', None))
                continue
            i2 = int(st['l2'])
            a2, d2 = L2[i2]
            if st.get('swap'):               # the second list in the place of the first: ids 2.. name it in `history`
                (a1, d1), (a2, d2) = (a2, d2), (a1, d1)
                i1, i2 = 2 + i2, 100 + i1
                n1 = a1.size
                out.count('same_lists_swapped_calls')
            n2 = a2.size
            k = int(st['k'])
            ecs = eff_cs(m, None if cs is None else float(cs))
            p1 = perm_from_seed(st.get('p1'), n1)
            p2 = perm_from_seed(st.get('p2'), n2)
            permuted = st.get('p1') is not None or st.get('p2') is not None
            if same_objects and not permuted:
                args = (a1, d1, a2, d2)
                out.count('same_lists_same_object_calls')
            else:
                args = (a1[p1], d1[p1], a2[p2], d2[p2])              # fresh arrays, equal values
            self._chunk = None
            res = self.SG.spherematch(args[0], args[1], args[2], args[3], m, chunksize=cs, maxmatch=k)
            out.count('same_lists_calls')
            S, Sf = sep(('m', i1, i2), (a1, d1), (a2, d2))
            with np.errstate(all='ignore'):
                sure, maybe = R.classify(S, m)
            nband = int((maybe & ~sure).sum())
            if nband:
                out.undecide(nband)
                out.count('band_pairs_undecided', nband)
            nsure = int(sure.sum())
            out.count('true_pairs', nsure)
            # ---- what the earlier calls of this sequence have in common with this one (counters only)
            prior = [h for h in history if h[0] == i1 and h[1] == ecs]
            smaller = [h for h in prior if h[2] < m]
            cross = newp = newcross = 0
            c = self._chunk
            if c is not None:
                h1, h2 = self._homes(c, a1, d1), self._homes(c, a2, d2)
                lim = min(h[2] for h in smaller) if smaller else None
                for a, b in zip(*[x.tolist() for x in np.nonzero(sure)]):
                    x = h2[b] is None or h2[b] != h1[a]
                    cross += x
                    if lim is not None and Sf[a, b] > lim:
                        newp += 1
                        newcross += x
            out.count('cross_cell_true_pairs', cross)
            if permuted:
                out.count('same_lists_permuted_calls')
            if not st.get('swap') and (i1 == 1 or i2 == 1):
                out.count('same_lists_twin_calls')
            if prior:
                out.count('same_lists_calls_after_a_call_with_the_same_list1_and_chunksize')
                if any(h[2] == m for h in prior):
                    out.count('same_lists_repeated_length_calls')
                if any(h[2] > m for h in prior):
                    out.count('same_lists_shrinking_calls')
                if prior[-1][4] is not None and prior[-1][4] != i2:
                    out.count('same_lists_other_second_list_calls')
            if smaller:
                out.count('same_lists_growing_calls')
                out.count('same_lists_growing_new_pairs', newp)
                out.count('same_lists_growing_new_pairs_across_cells', newcross)
                if cs is None:
                    out.count('same_lists_growing_calls_default_chunksize')
                if any(h[3] == 'group' for h in smaller):
                    out.count('same_lists_growing_calls_after_spheregroup')
            if any(h[0] == i1 and h[1] != ecs for h in history):
                out.count('same_lists_calls_after_another_chunksize')
            nonpair_near = int((~maybe & (Sf < 2.0 * m)).sum())
            nontrivial = nontrivial or (nsure >= 1 and nonpair_near >= 1 and cross >= 1)
            who = ('list 2 #%d x list 1%s (swapped)' % (i1 - 2, 'ab'[i2 - 100])) if st.get('swap') else 'list 1%s x list 2 #%d' % ('ab'[i1], i2)
            tag = 'step %d of %d on the same values (%s, m=%r, cs=%r, k=%d%s; %d earlier call(s) with this list 1 and ' \
                  'chunk size, lengths %s)' % (si, len(case['steps']), who, m, cs, k, ', permuted' if permuted else '',
                                              len(prior), [h[2] for h in prior][:6])
            pseudo = {'ra1': a1.tolist(), 'dec1': d1.tolist(), 'ra2': a2.tolist(), 'dec2': d2.tolist()}
            with np.errstate(all='ignore'):
                self._judge(out, res, p1, p2, n1, n2, S, Sf, sure, maybe, m, k, tag, pseudo)
            history.append((i1, ecs, m, 'match', i2))
        changed = [j for j, a in enumerate(kept) if a.tobytes() != before[j]]
        out.expect(not changed, 'argument-unchanged', 'a call of the sequence modified the coordinate arrays it was given (%s)' % changed)
        out.nontrivial = nontrivial
        out.info.update({'steps': len(case['steps']), 'kind': case.get('kind'), 'same_objects': same_objects})

    def _run_flavours(self, case, out, S, Sf, m, k):
        """the same positions handed over in other dtypes / memory layouts; judged by the same oracle (single-precision
        band when numpy converts the argument to radians in float32); argument buffers compared bytewise afterwards"""
        vals = {a: case[a] for a in ('ra1', 'dec1', 'ra2', 'dec2')}
        n1, n2 = len(vals['ra1']), len(vals['ra2'])
        ident1, ident2 = np.arange(n1), np.arange(n2)
        for spec in case['flavours']:
            args, owners, prec = {}, {}, 'double'
            for a in ('ra1', 'dec1', 'ra2', 'dec2'):
                f = spec.get(a, 'f8')
                args[a], owners[a] = R.make_arg(vals[a], f)
                if R.FLAVOURS[f] == 'single':
                    prec = 'single'
            before = {a: owners[a].tobytes() for a in owners}
            tag = 'flavour %s (k=%d, cs=%r)' % (spec, k, case['cs'])
            res = self.SG.spherematch(args['ra1'], args['dec1'], args['ra2'], args['dec2'], m, chunksize=case['cs'], maxmatch=k)
            out.count('flavour_calls')
            fl = set(spec.values())
            if fl & {'i8', 'i4', 'i2', 'u4', 'u2', '>i4', 'strided_i8'}:
                out.count('flavour_int_calls')
            if prec == 'single':
                out.count('flavour_single_precision_calls')
            if fl & {'strided', 'reversed', 'readonly', '>f8', '>f4', '>i4', 'strided_i8', 'strided_f4'}:
                out.count('flavour_layout_calls')
            with np.errstate(all='ignore'):
                sure, maybe = R.classify(S, m, prec)
                out.count('flavour_true_pairs', int(sure.sum()))
                nb = int((maybe & ~sure).sum())
                if nb:
                    out.undecide(nb)
                self._judge(out, res, ident1, ident2, n1, n2, S, Sf, sure, maybe, m, k, tag, case, prec)
                changed = [a for a in owners if owners[a].tobytes() != before[a]]
                out.count('flavour_args_unchanged_checks')
                out.expect(not changed, 'argument-unchanged', '%s: the call modified its argument array(s) %s' % (tag, changed))

    def _judge(self, out, res, p1, p2, n1, n2, S, Sf, sure, maybe, m, k, tag, case, prec='double'):
        ok = out.expect(isinstance(res, tuple) and len(res) == 3, 'shape', '%s: result is not a 3-tuple' % tag)
        if not ok:
            return
        m1 = np.asarray(res[0])
        m2 = np.asarray(res[1])
        d = np.asarray(res[2], dtype='d')
        if not out.expect(m1.ndim == 1 and m1.shape == m2.shape == d.shape, 'shape',
                          '%s: the three arrays differ in shape %s %s %s' % (tag, m1.shape, m2.shape, d.shape)):
            return
        if m1.size and not out.expect(bool(np.all(m1 == np.floor(m1)) and np.all(m2 == np.floor(m2)) and
                                           m1.min() >= 0 and m1.max() < n1 and m2.min() >= 0 and m2.max() < n2),
                                      'indices', '%s: index outside its list' % tag):
            return
        I = p1[m1.astype(int)] if m1.size else np.zeros(0, dtype=int)
        J = p2[m2.astype(int)] if m2.size else np.zeros(0, dtype=int)
        got = list(zip(I.tolist(), J.tolist()))
        gs = set(got)

        def describe(i, j):
            return {'i': i, 'j': j, 'p1': [case['ra1'][i], case['dec1'][i]], 'p2': [case['ra2'][j], case['dec2'][j]],
                    'sep': float(Sf[i, j]), 'sep_over_m': float(S[i, j] / R.LD(m)), 'm': m}
        # exactly once
        if len(gs) != len(got):
            seen = set()
            dup = [p for p in got if p in seen or seen.add(p)]
            out.fail('exactly-once', '%s: %d pair(s) returned more than once, e.g. %s' % (tag, len(dup), dup[0]),
                     pair=describe(*dup[0]))
        else:
            out.checks += 1
        # soundness
        extra = [p for p in gs if not maybe[p]]
        out.expect(not extra, 'sound', '%s: %d returned pair(s) farther apart than the match length' % (tag, len(extra)),
                   pair=describe(*extra[0]) if extra else None)
        # distances
        if got:
            ref = Sf[I, J]
            tol = R.tolerance(ref, prec)
            bad = np.nonzero(~(np.abs(d - ref) <= tol))[0]
            out.expect(bad.size == 0, 'distance', '%s: %d reported distance(s) differ from the true separation' % (tag, bad.size),
                       first={'pair': describe(*got[int(bad[0])]), 'reported': float(d[bad[0]])} if bad.size else None)
            out.expect(bool(np.all(np.diff(d) >= 0)), 'order', '%s: distances are not in non-decreasing order' % tag)
        si, sj = np.nonzero(sure)
        missing = [(a, b) for a, b in zip(si.tolist(), sj.tolist()) if (a, b) not in gs]
        if k <= 0:
            out.expect(not missing, 'complete', '%s: %d pair(s) closer than the match length not returned' % (tag, len(missing)),
                       pair=describe(*missing[0]) if missing else None, missing=missing[:10])
            return
        # maxmatch = k > 0
        out.count('maxmatch_pos_calls')
        c1 = np.bincount(I, minlength=n1) if I.size else np.zeros(n1, int)
        c2 = np.bincount(J, minlength=n2) if J.size else np.zeros(n2, int)
        out.expect(int(c1.max(initial=0)) <= k and int(c2.max(initial=0)) <= k, 'cap',
                   '%s: a point is used more than maxmatch=%d times (%d / %d)' % (tag, k, c1.max(initial=0), c2.max(initial=0)))
        if missing:
            out.count('maxmatch_blocked_pairs', len(missing))
            refret = S[I, J] if I.size else np.zeros(0, dtype=R.LD)
            notmax = []
            for a, b in missing:
                lim = S[a, b] + R.LD(R.band(float(S[a, b]), prec))
                ua = int(((I == a) & (refret <= lim)).sum())
                ub = int(((J == b) & (refret <= lim)).sum())
                if ua < k and ub < k:
                    notmax.append((a, b, ua, ub))
            out.expect(not notmax, 'greedy-maximal',
                       '%s: %d true pair(s) left out although neither point is used maxmatch=%d times by closer pairs'
                       % (tag, len(notmax), k), pair=describe(*notmax[0][:2]) if notmax else None, first=notmax[:5])

    def _geometry_counters(self, out, ra1, dec1, ra2, dec2, sure, m):
        """reach counters from the recorded chunks instance (monitoring only, never the verdict)."""
        c = self._chunk
        if c is None:
            return 0
        SGE = self.SG.PydlutilsException
        cross = 0
        try:
            off = c.raOffset
            home1 = [c.get(float(np.fmod(a + off, 360.0)), float(dd)) for a, dd in zip(ra1, dec1)]
            home2 = []
            decb = set(float(v) for v in c.decBounds)
            outer = (float(c.decBounds[0]), float(c.decBounds[-1]))
            rab = [set(float(v) for v in b) for b in c.raBounds]
            for a, dd in zip(ra2, dec2):
                x = float(np.fmod(a + off, 360.0))
                if float(dd) in decb:
                    out.count('gridline_points_exactly_on_dec_bounds')
                    if float(dd) in outer and abs(dd) < 90.0:
                        out.count('gridline_points_on_outer_dec_bounds')
                if any(x in b for b in rab):
                    out.count('gridline_points_on_ra_bounds')
                try:
                    h = c.get(x, float(dd))
                except SGE:
                    h = None
                if h is not None and (h[0] < 0 or h[1] < 0 or h[1] >= c.nDec):
                    h = None
                home2.append(h)
                try:
                    lo, hi, dlo, dhi = c.getbounds(x, float(dd), m)
                except SGE:
                    out.count('outside_bounds_arm')
                    continue
                if dhi > dlo:
                    out.count('multi_slice_arm')
                for q, sl in enumerate(range(dlo, dhi + 1)):
                    if lo[q] < 0:
                        out.count('wrap_low_arm')
                    if hi[q] > c.nRa[sl] - 1:
                        out.count('wrap_high_arm')
                # closeness to the edges of the home cell (fraction of the cell)
                if h is not None:
                    rb = c.raBounds[h[1]]
                    w = (rb[-1] - rb[0]) / c.nRa[h[1]]
                    fr = (x - rb[0]) / w - h[0]
                    hd = c.decBounds[h[1] + 1] - c.decBounds[h[1]]
                    fd = (dd - c.decBounds[h[1]]) / hd
                    if min(fr, 1 - fr) < 1e-3 or min(fd, 1 - fd) < 1e-3:
                        out.count('edge_close_points')
            for hcell in home1:
                if c.nRa[hcell[1]] == 1:
                    out.count('polar_single_cell_slice')
                    break
            for a, b in zip(*np.nonzero(sure)):
                if home2[b] is None or tuple(home2[b]) != tuple(home1[a]):
                    cross += 1
            out.count('cross_cell_true_pairs', cross)
            out.count('cells', sum(c.nRa))
        except SGE:
            out.count('geometry_counter_errors')
        return cross

    def summarise(self, case):
        c = dict(case)
        if 'dense' in case:
            return c
        if 'steps' in case:
            for k in ('l1', 'l2'):
                c[k] = ['%d points, RA %.6g..%.6g, Dec %.6g..%.6g' % (len(x['ra']), min(x['ra']), max(x['ra']), min(x['dec']), max(x['dec']))
                        for x in case[k]]
            return c
        for k in ('ra1', 'dec1', 'ra2', 'dec2'):
            c[k] = case[k][:6] + (['... %d values' % len(case[k])] if len(case[k]) > 6 else [])
        return c


CHECK = C04()
