"""C01 - yanny: tables and header pairs written to a new file read back unchanged.

Events: write_ndarray_to_yanny(...) call + returned object; yanny(filename) fresh read; Table.write/Table.read through
the astropy registry; existence of the file after a refused write.
Oracle: the table-set model (vlib/refs/yanny_model.py): names upper-cased, column order, dtype per column, rows,
ints/strings equal, floats bit-identical in the declared width, header value == str(supplied).
"""
import copy
import os
import numpy as np
from vlib.harness import Check
from vlib.refs import yanny_model as M

REFUSED = ['u1', 'u2', 'u4', 'u8', 'i1', 'b1', 'f2', 'c8', 'c16', 'O']


_HDR_TYPES = {'npfloat': np.float64, 'npint32': np.int32, 'npint64': np.int64, 'npfloat32': np.float32, 'npbool': np.bool_,
              'npstr': np.str_}


FORMAT_WORDS = M.FORMAT_WORDS

# classes whose case is a *sequence* of documents handled one after another in one process (the case carries all of them, so a
# replay re-executes the whole sequence)
SEQUENCE_CLASSES = ('repeat_definitions', 'overwrite')
# unsupported column types an astropy Table can hold
REFUSED_IN_TABLE = ['u1', 'u2', 'u4', 'u8', 'i1', 'b1', 'f2', 'c8', 'c16']


def _decl(c):
    """What the definition of the table says about a column: its name, its type as declared, its array length."""
    if c['kind'] == 'enum':
        typ = ('enum', c['enum'].upper())
    elif c['kind'] in ('S', 'U'):
        typ = ('char', c['width'])
    else:
        typ = (c['kind'],)
    return (c['name'], typ, c['alen'])


def _signature(t):
    """Two tables with equal signatures have character-identical definitions ('typedef struct' statements)."""
    return (t['name'].upper(), tuple(_decl(c) for c in t['cols']))


def _enum_width(doc, c):
    return max(len(x) for x in doc['enums'][c['enum']])


def _hdr_text(v, vt):
    """The accepted text forms of a header value: str() of it, or format() of it where that differs (numpy's float32
    formats through Python float, '0.10000000149011612' for float32(0.1): the same value, spelled exactly)."""
    o = _hdr_obj(v, vt)
    return (str(o), '{0}'.format(o))


def _hdr_obj(v, vt):
    """The object handed to the writer for header value v of generator type vt; its text form is str() of it."""
    return _HDR_TYPES[vt](v) if vt in _HDR_TYPES else v


class C01(Check):
    ID = 'C01'
    RULE = ('random table sets (1-4 tables, 0-8 rows, 1-7 columns of i2/i4/i8/f4/f8, fixed-width byte strings, 1-D '
            'arrays of those, enum columns) in eight classes: mixed, string torture (empty, blanks, tabs, #, ;, inner '
            'braces, edge blanks, number-/keyword-like text), numeric extremes (int min/max, +-0, denormals, max, NaN, '
            '+-inf, random bit patterns), zero-row tables, structure-name torture (substring names, names equal to a '
            'column elsewhere, 1-letter names, mixed case), header dictionaries, astropy Table entry points, big-endian '
            'input, refusal of unsupported column types, and many files in one process reusing a few structure/column names with different declarations; two classes whose case is a '
            'sequence of 2-4 documents: repeat_definitions (character-identical table definitions, other enum label sets / rows / '
            'pairs, all files read again at the end, or one path removed and reused) and overwrite (one path, Table entry points '
            'with overwrite=True: same layout, same names re-declared scalar<->array / int->float / number<->string, another '
            'table, a refused table in between; the replaced file may hold several tables, enums and pairs).  Each document is written with the real writer and read '
            'back twice (returned object and fresh read).  Non-trivial: >=1 row and >=1 string/extreme cell, or a '
            'zero-row/multi-table/Table-API/refusal case; distinct by hash of the table set.')
    ASSUMPTIONS = ['texts the format cannot express are excluded exactly as listed in the property (plus header values '
                   'with edge blanks, trailing backslash or the {{}} token, and header keys equal to a table name)',
                   'enum columns are compared as label text; unicode input columns must come back as byte strings at least as wide']
    REQUIRED_COUNTERS = ('record_layout_titled', 'record_layout_longlong', 'array_columns_longer_than_1000', 'writes_with_long_comment_lines', 'record_layout_view_permuted', 'record_layout_aligned', 'refusals_seen', 'zero_row_tables', 'float_cells_compared', 'string_cells_compared',
                         'table_api_roundtrips', 'hdr_values_compared',
                         # sequences of documents in one process (repeat_definitions, overwrite)
                         'same_definition_text_labels_longer_than_before', 'same_definition_text_labels_shorter_than_before',
                         'label_column_types_compared', 'sequence_files_read_again', 'paths_reused_after_removal',
                         'overwrites_same_names_other_declaration', 'overwrites_scalar_array_flip', 'overwrites_same_layout',
                         'overwrites_by_another_table', 'refusals_with_overwrite')

    def setup(self):
        import pydl.pydlutils.yanny as Y
        from astropy.table import Table
        from astropy.io import registry
        self.Y = Y
        self.Table = Table
        for n in ('write_ndarray_to_yanny', 'read_table_yanny', 'write_table_yanny'):
            self.rec.wrap(Y, n)
        try:
            registry.register_identifier('yanny', Table, Y.is_yanny)
            registry.register_reader('yanny', Table, Y.read_table_yanny)
            registry.register_writer('yanny', Table, Y.write_table_yanny)
        except Exception:
            pass
        for f in (Y.yanny.protect, Y.yanny.dtype_to_struct, Y.yanny.write, Y.yanny._parse, Y.yanny.convert,
                  Y.yanny.char_length, Y.yanny.type, Y.yanny.dtype, Y.yanny.get_token, Y.yanny.trailing_comment,
                  Y.write_ndarray_to_yanny, Y.read_table_yanny, Y.write_table_yanny):
            self.reach.add(f)
        self._n = 0

    def budget(self, tier):
        q = tier == 'quick'
        k = 1 if q else 120
        return {'mixed': 500 * k, 'string_torture': 500 * k, 'numeric_extremes': 300 * k, 'zero_rows': 150 * k,
                'structname_torture': 300 * k, 'headers': 200 * k, 'table_api': 200 * k, 'byteorder': 100 * k,
                'refusal': 100 * k, 'common_names': 250 * k, 'format_tokens': 300 * k,
                'repeat_definitions': 200 * k, 'overwrite': 200 * k}

    # ------------------------------------------------------------------ gen
    def gen(self, cls, rng, i):
        if cls in SEQUENCE_CLASSES:
            return self._gen_sequence(cls, rng)
        if cls == 'refusal':
            bad = rng.choice(REFUSED)
            cols = M.gen_cols(rng, rng.randint(0, 3), allow_strings=True)
            pos = rng.randint(0, len(cols))
            return {'kind': cls, 'bad': bad, 'as_array': rng.random() < 0.4, 'pos': pos, 'cols': cols, 'with_enums': rng.random() < 0.3,
                    'nrows': rng.randint(0, 3), 'name': M.ident(rng, 2, 6)}
        ntab = rng.choice([1, 1, 2, 3, 4]) if cls not in ('table_api',) else rng.choice([1, 2, 3])
        enums = {}
        if cls in ('mixed', 'structname_torture') and rng.random() < 0.5:
            for _ in range(rng.randint(1, 2)):
                en = M.ident(rng, 3, 6, suffix=False).upper() + '_T'
                enums[en] = sorted({M.ident(rng, 1, 6, suffix=False).upper() + str(k) for k in range(rng.randint(1, 4))})
        names = self._names(cls, rng, ntab)
        if cls == 'common_names':
            # many files in one process that reuse a few structure and column names with different declarations:
            # nothing remembered from one file may leak into the next
            pool = ['MYSTRUCT0', 'MYSTRUCT1', 'OBJ', 'Tab', 'status']
            rng.shuffle(pool)
            names = pool[:ntab]
        tables = []
        enum_cols_used = set()
        for t in range(ntab):
            ncols = rng.randint(1, 7)
            cols = M.gen_cols(rng, ncols, enums=enums if enums else None,
                              allow_unicode=(cls == 'table_api'),
                              allow_arrays=True)
            # an enum column name must map to one enum type across all tables (writer keys enums by column name)
            for c in cols:
                if c['kind'] == 'enum':
                    if c['name'] in enum_cols_used:
                        c['kind'], c['width'] = 'i4', 0
                        c.pop('enum')
                    else:
                        enum_cols_used.add(c['name'])
            if cls == 'structname_torture' and t > 0 and rng.random() < 0.5:
                # same column name in several tables / a column named like another table
                other = tables[rng.randrange(len(tables))]
                if rng.random() < 0.5:
                    cn = other['cols'][0]['name']
                else:
                    cn = names[rng.randrange(ntab)]
                if cn.lower() not in [c['name'].lower() for c in cols] and cn.lower() not in M.KEYWORDS \
                        and cn not in enum_cols_used:
                    cols[0] = dict(cols[0], name=cn)
                    if cols[0]['kind'] == 'enum':
                        cols[0] = {'name': cn, 'kind': 'i4', 'width': 0, 'alen': 0}
            if cls == 'common_names':
                cpool = ['a', 'b', 'mag', 'flag', 'name', 'x']
                rng.shuffle(cpool)
                for ci, c in enumerate(cols[:len(cpool)]):
                    if c['kind'] != 'enum':
                        c['name'] = cpool[ci]
                cols = cols[:len(cpool)]
            if cls == 'zero_rows':
                nrows = 0 if (t == 0 or rng.random() < 0.6) else rng.randint(1, 3)
            else:
                nrows = rng.choice([1, 1, 2, 3, 5, 8]) if cls != 'mixed' else rng.randint(0, 8)
            extreme = cls == 'numeric_extremes' or rng.random() < 0.2
            torture = cls == 'string_torture' or rng.random() < 0.2
            if cls == 'numeric_extremes' and rng.random() < 0.12 and all(c['name'] != 'wide' for c in cols):
                # one long array column (a spectrum per row): lengths around the sizes at which array-to-text routines
                # start to abbreviate
                cols.insert(rng.randint(0, len(cols)), {'name': 'wide', 'kind': rng.choice(M.NUMKINDS), 'width': 0,
                                                        'alen': rng.choice([999, 1000, 1001, 1024, 2500])})
            if cls == 'numeric_extremes':
                for c in cols:
                    if c['kind'] in ('S', 'U') and rng.random() < 0.7:
                        c['kind'], c['width'] = rng.choice(M.NUMKINDS), 0
            if cls in ('string_torture', 'format_tokens'):
                for c in cols:
                    if c['kind'] in M.NUMKINDS and rng.random() < 0.6:
                        c['kind'], c['width'] = 'S', rng.randint(1, 12)
            rows = [[M.gen_cell(rng, c, enums, extreme, torture) for c in cols] for _ in range(nrows)]
            if cls == 'format_tokens':
                # cells made of the format's own vocabulary (F-Y6, F-Y7): words of type definitions, brace groups that look like
                # the empty-string token, statement ends, this file's structure names - everything the format can express
                pool = FORMAT_WORDS + [names[t], names[0].upper(), names[-1].lower() + ';']
                for ci, c in enumerate(cols):
                    if c['kind'] not in ('S', 'U'):
                        continue
                    c['width'] = max(c['width'], max(len(w) for w in pool))
                    for r in rows:
                        if c['alen']:
                            r[ci] = [rng.choice([w for w in pool if '}' not in w]) if rng.random() < 0.6 else v for v in r[ci]]
                        elif rng.random() < 0.7:
                            r[ci] = rng.choice(pool)
            tab = {'name': names[t], 'cols': cols, 'rows': rows}
            M.fix_last_column(tab)
            tables.append(tab)
        # the writer keys enum declarations by *column name* for the whole file: a *string* column elsewhere must not carry the
        # name of an enum column (API limitation, not part of the property).  A numeric column may: it is declared by its own
        # type - so in a third of the multi-table files one numeric column deliberately takes the name of an enum column.
        enum_names = {c['name'] for t in tables for c in t['cols'] if c['kind'] == 'enum'}
        if enum_names and len(tables) > 1 and rng.random() < 0.35:
            en = sorted(enum_names)[0]
            for t in tables:
                if all(c['name'] != en for c in t['cols']):
                    num = [c for c in t['cols'] if c['kind'] in M.NUMKINDS]
                    if num:
                        num[0]['name'] = en
                        break
        self._rename_strings_named_like_enum_columns(tables, enum_names)
        hdr = self._gen_hdr(rng, names, rng.randint(1, 6) if cls == 'headers' else rng.choice([0, 0, 1, 2]))
        return {'kind': cls, 'tables': tables, 'enums': enums, 'hdr': hdr,
                'byteorder': '>' if cls == 'byteorder' else '=',
                'api': 'table' if cls == 'table_api' else 'ndarray',
                'single_not_list': ntab == 1 and rng.random() < 0.5,
                'default_names': cls == 'mixed' and rng.random() < 0.15,
                # memory layout of the record arrays handed to the writer (field order is the document's in every layout)
                'field_layout': rng.choice(['packed', 'packed', 'packed', 'view_permuted', 'aligned', 'titled', 'longlong']),
                # the free-text comments= argument of the writer: absent, one line of text, a list of lines (some long,
                # some containing words that mean something to the format); they must never become content
                'comments': self._comments(rng, names)}

    @staticmethod
    def _rename_strings_named_like_enum_columns(tables, enum_names):
        for t in tables:
            taken = {c['name'].lower() for c in t['cols']}
            for c in t['cols']:
                if c['kind'] in ('S', 'U') and c['name'] in enum_names:
                    k = 0
                    while ('%s_n%d' % (c['name'], k)).lower() in taken:
                        k += 1
                    c['name'] = '%s_n%d' % (c['name'], k)
                    taken.add(c['name'].lower())

    @staticmethod
    def _gen_hdr(rng, names, nh):
        hdr = []
        keys = set()
        for _ in range(nh):
            k = M.pair_key(rng, 1, 8)
            if rng.random() < 0.3 and k not in M.RESERVED_KEYS:
                k = k.upper()
            if k.upper() in [n.upper() for n in names] or k.lower() in keys:
                continue
            keys.add(k.lower())
            vt = rng.choice(['int', 'float', 'str', 'str', 'empty', 'npfloat', 'npint32', 'npint64', 'npfloat32', 'npbool',
                             'bool', 'npstr'])
            if vt in ('int', 'npint32'):
                v = rng.randint(-10**9, 10**9)
            elif vt == 'npint64':
                v = rng.choice([rng.randint(-2**63, 2**63 - 1), rng.randint(-100, 100)])
            elif vt in ('bool', 'npbool'):
                v = rng.random() < 0.5
            elif vt == 'npfloat32':
                v = float(np.float32(rng.choice([rng.uniform(-1, 1), 1e30 * rng.random(), 0.1, 2.5])))
            elif vt == 'npstr':
                v = M.ident(rng, 1, 10)
            elif vt in ('float', 'npfloat'):
                v = rng.choice([rng.uniform(-1, 1), 1e300 * rng.random(), 0.1, 2.5, rng.gauss(0, 1e-8)])
            elif vt == 'empty':
                v = ''
            else:
                while True:
                    v = ''.join(rng.choice('abcXYZ019_-+.:;,/()[]<>=!?*&^%$@~|\'`{}  \t\\') for _ in range(rng.randint(1, 20)))
                    v = v.strip()
                    if v and not v.endswith('\\') and '{{' not in v and not (v.count('{') and v.count('}')) \
                            and '\t' not in v[-1:]:
                        break
                r = rng.random()
                if r < 0.25:
                    # a value enclosed in a pair of delimiters (FITS-style 'APO', (a b), [x], <y>, `z`): the text is the value
                    inner = ''.join(c for c in v if c not in "'`()[]<>{}") or 'r'
                    a, b = rng.choice(["''", "''", '()', '[]', '<>', '``'])
                    v = a + inner.strip() + b
                elif r < 0.35:
                    # text that reads like a number in another spelling: it stays that text
                    v = rng.choice(['007', '+5', '1e5', '1.0', '1.', '.5', '0x1F', '1_000', '-0', '1d3', 'nan', 'inf', 'True', 'None'])
            hdr.append([k, v, vt])
        return hdr

    # ---------------------------------------------------------------- sequences of documents
    @staticmethod
    def _labels(rng, maxlen, avoid):
        """A set of 1-4 enum labels, the longest of them exactly maxlen characters long."""
        labs = []
        n = rng.randint(1, 4)
        tries = 0
        while len(labs) < n and tries < 40:
            tries += 1
            ln = maxlen if not labs else rng.randint(1, maxlen)
            if ln > 1 and rng.random() < 0.5:
                lab = ''.join(rng.choice('ABCDEFGHKLMNPRSTUVWXY') for _ in range(ln - 1)) + rng.choice('0123456789_')
            else:
                lab = ''.join(rng.choice('ABCDEFGHKLMNPRSTUVWXY') for _ in range(ln))
            if lab not in labs and lab.lower() not in M.KEYWORDS and lab.upper() not in avoid:
                labs.append(lab)
        if not labs:
            labs = ['Q' * maxlen]
        rng.shuffle(labs)
        return labs

    def _seq_fill(self, rng, doc):
        """(new) rows and header pairs for the layout of doc"""
        for t in doc['tables']:
            nrows = rng.choice([0, 1, 1, 2, 3, 5])
            extreme, torture = rng.random() < 0.3, rng.random() < 0.3
            t['rows'] = [[M.gen_cell(rng, c, doc['enums'], extreme, torture) for c in t['cols']] for _ in range(nrows)]
            M.fix_last_column(t)
        doc['hdr'] = self._gen_hdr(rng, [t['name'] for t in doc['tables']], rng.choice([0, 1, 2, 3]))

    def _seq_tidy(self, doc):
        for t in doc['tables']:
            for c in t['cols']:
                if c['kind'] == 'enum':
                    c['width'] = _enum_width(doc, c)
        enum_names = {c['name'] for t in doc['tables'] for c in t['cols'] if c['kind'] == 'enum'}
        self._rename_strings_named_like_enum_columns(doc['tables'], enum_names)
        used = {c['enum'] for t in doc['tables'] for c in t['cols'] if c['kind'] == 'enum'}
        doc['enums'] = {k: v for k, v in doc['enums'].items() if k in used}

    @staticmethod
    def _retype(rng, c):
        """The same column name with another declaration: scalar <-> 1-D array, another numeric type, number <-> string,
        another string width; a label column becomes an ordinary one."""
        old = _decl(c)
        if c['kind'] == 'enum':
            c.pop('enum')
            c['kind'] = rng.choice(['S', 'i4'])
            c['width'] = c['width'] if c['kind'] == 'S' else 0
        for _ in range(20):
            m = rng.choice(['flip', 'flip', 'kind', 'kind', 'width', 'alen'])
            if m == 'flip':
                c['alen'] = 0 if c['alen'] else rng.randint(1, 4)
            elif m == 'kind':
                k = rng.choice(M.NUMKINDS + ['S'])
                c['kind'], c['width'] = k, (rng.randint(1, 12) if k == 'S' else 0)
            elif m == 'width' and c['kind'] == 'S':
                c['width'] = rng.randint(1, 12)
            elif m == 'alen' and c['alen']:
                c['alen'] = rng.randint(1, 5)
            if _decl(c) != old:
                break

    def _gen_sequence(self, cls, rng):
        """repeat_definitions: 2-4 documents written by the record-array entry point one after another, the later ones with
        the *same* table names, column names and declared types as the first (character-identical definitions) while what the
        definitions do not say differs: the label sets of the enumerated types (longer or shorter labels), row counts, cells,
        header pairs; sometimes a column is re-declared under the same name, a table renamed or re-cased.  Every document goes to
        its own file (all of them stay, and are read again at the end, latest first), or all to one path that is removed in between.
        overwrite: 2-4 documents written to ONE path, the later ones through the Table entry points with overwrite=True - the
        same layout with other data (the usual update), the same table and column names with another declaration (scalar <->
        array, int -> float, number <-> string), another table altogether; the file that is replaced may have come from the
        record-array entry point (several tables, enums, pairs); in between, tables that must be refused."""
        over = cls == 'overwrite'
        ndocs = rng.choice([2, 2, 3, 3, 4])
        first_ndarray = (not over) or rng.random() < 0.3
        ntab = rng.choice([1, 1, 2, 3]) if first_ndarray else 1
        default_names = first_ndarray and rng.random() < 0.3
        if default_names:
            names = ['MYSTRUCT%d' % k for k in range(ntab)]
        else:
            pool = ['OBJ', 'Tab', 'status', 'PLUGMAPOBJ', M.ident(rng, 2, 8), M.ident(rng, 1, 3, suffix=False).upper()]
            rng.shuffle(pool)
            names = []
            for nm in pool:
                if nm.upper() not in [x.upper() for x in names]:
                    names.append(nm)
            names = names[:ntab]
        enums = {}
        if first_ndarray and (not over or rng.random() < 0.5):
            for _ in range(rng.randint(1, 2)):
                en = M.ident(rng, 3, 6, suffix=False).upper() + '_T'
                enums[en] = self._labels(rng, rng.randint(1, 9), [n.upper() for n in names])
        tables = []
        enum_cols_used = set()
        cpool = ['a', 'b', 'mag', 'flag', 'name', 'x', 'id']
        for nm in names:
            cols = M.gen_cols(rng, rng.randint(1, 6), enums=enums if enums else None)
            if rng.random() < 0.5:
                # everyday column names, shared between the tables of the sequence
                rng.shuffle(cpool)
                for ci, c in enumerate(cols[:len(cpool)]):
                    if c['kind'] != 'enum':
                        c['name'] = cpool[ci]
            for c in cols:
                if c['kind'] == 'enum':
                    if c['name'] in enum_cols_used:
                        c['kind'], c['width'] = 'i4', 0
                        c.pop('enum')
                    else:
                        enum_cols_used.add(c['name'])
            tables.append({'name': nm, 'cols': cols, 'rows': []})
        if enums and not enum_cols_used:
            c = tables[0]['cols'][rng.randrange(len(tables[0]['cols']))]
            tn = rng.choice(sorted(enums))
            c.update(kind='enum', enum=tn, alen=0, width=0)
        # a column name is unique within its table whatever the case of its letters
        for t in tables:
            seen = set()
            for c in t['cols']:
                while c['name'].lower() in seen:
                    c['name'] += 'q'
                seen.add(c['name'].lower())
        doc = {'tables': tables, 'enums': enums, 'hdr': [], 'byteorder': '=',
               'api': 'ndarray' if first_ndarray else rng.choice(['table', 'table_func']),
               'overwrite': (not first_ndarray) and rng.random() < 0.5,      # overwrite=True where there is nothing to replace
               'single_not_list': ntab == 1 and rng.random() < 0.5, 'default_names': default_names,
               'field_layout': rng.choice(['packed', 'packed', 'packed', 'view_permuted', 'aligned']),
               'comments': rng.choice([None, None, 'typedef struct { int x; } %s;' % names[0].upper()]), 'changes': []}
        self._seq_tidy(doc)
        self._seq_fill(rng, doc)
        docs = [doc]
        while len(docs) < ndocs:
            new = copy.deepcopy(docs[-1])
            new['changes'] = []
            if over:
                # the Table entry points write one table, without enums
                new['tables'] = [new['tables'][rng.randrange(len(new['tables']))]]
                for c in new['tables'][0]['cols']:
                    if c['kind'] == 'enum':
                        c.pop('enum')
                        c['kind'] = 'S'
                        new['changes'].append('labels_to_strings')
                new['enums'] = {}
                new.update(api=rng.choice(['table', 'table_func']), overwrite=True, default_names=False, single_not_list=True,
                           field_layout='packed', comments=None)
            if new['enums'] and rng.random() < 0.7:
                for en in sorted(new['enums']):
                    old = max(len(x) for x in new['enums'][en])
                    new['enums'][en] = self._labels(rng, rng.choice([w for w in range(1, 11) if w != old]),
                                                    [t['name'].upper() for t in new['tables']])
                new['changes'].append('relabel')
            if rng.random() < (0.6 if over else 0.25):
                t = new['tables'][rng.randrange(len(new['tables']))]
                for c in rng.sample(t['cols'], rng.randint(1, min(2, len(t['cols'])))):
                    self._retype(rng, c)
                new['changes'].append('retype')
            r = rng.random()
            if r < 0.12 and not new['default_names']:
                t = new['tables'][rng.randrange(len(new['tables']))]
                nm = M.ident(rng, 2, 8)
                if nm.upper() not in [x['name'].upper() for x in new['tables']]:
                    t['name'] = nm
                    new['changes'].append('rename')
            elif r < 0.3 and not new['default_names']:
                # the same name in other letters case: the same table name in the file
                t = new['tables'][rng.randrange(len(new['tables']))]
                t['name'] = rng.choice([t['name'].upper(), t['name'].lower(), t['name'].swapcase()])
                new['changes'].append('recase')
            if over and rng.random() < 0.15:
                # a table that cannot be written, handed to the writer with overwrite=True
                new['refused'] = {'bad': rng.choice(REFUSED_IN_TABLE), 'as_array': rng.random() < 0.3,
                                  'pos': rng.randint(0, len(new['tables'][0]['cols']))}
            else:
                new.pop('refused', None)
            self._seq_tidy(new)
            self._seq_fill(rng, new)
            docs.append(new)
        if over and all(d.get('refused') for d in docs[1:]):
            docs[-1].pop('refused')
        return {'kind': cls, 'docs': docs, 'same_path': over or rng.random() < 0.3}

    @staticmethod
    def _comments(rng, names):
        m = rng.randint(0, 4)
        if m <= 1:
            return None
        words = ['the', 'quantitative', 'typedef', 'struct', 'enum', '{', '}', ';', 'mjd', '54579', names[0], names[-1].upper(),
                 'reference:', 'A&A', '123,', '45', '(2010)', 'x' * 30, '#', 'seeing', '1.4"']

        def line(n):
            return ' '.join(rng.choice(words) for _ in range(n)).replace('"', '')
        if m == 2:
            return line(rng.randint(1, 12))
        return [line(rng.choice([1, 5, 20, 40, 60])) for _ in range(rng.randint(1, 4))]

    def _names(self, cls, rng, ntab):
        names = []
        if cls == 'structname_torture':
            base = M.ident(rng, 1, 3, suffix=False)
            m = rng.randint(0, 3)
            cand = [base, base + M.ident(rng, 1, 2, suffix=False), rng.choice('OUIDTNSRAE'), 'x' + base,
                    base.swapcase() + 'Q', rng.choice(['ID', 'INT', 'O', 'U', 'OR', 'LE', 'T', 'AR'])]
            rng.shuffle(cand)
            for c in cand:
                if c.upper() not in [n.upper() for n in names] and c.lower() not in M.KEYWORDS:
                    c = ''.join(ch.upper() if rng.random() < 0.5 else ch.lower() for ch in c) if m == 0 else c
                    names.append(c)
                if len(names) == ntab:
                    break
        while len(names) < ntab:
            nm = M.ident(rng, 2, 8)
            if rng.random() < 0.4:
                nm = nm.upper()
            if nm.upper() not in [n.upper() for n in names]:
                names.append(nm)
        return names

    # ------------------------------------------------------------------ run
    def run(self, case, out):
        self._n += 1
        fn = os.path.join(self.workdir, 'c01_%d.par' % self._n)
        try:
            if case['kind'] in SEQUENCE_CLASSES:
                self.run_sequence(case, out, fn)
            elif case['kind'] == 'refusal':
                self.run_refusal(case, out, fn)
            elif case['api'] == 'table':
                self.run_table_api(case, out, fn)
            else:
                self.run_ndarray(case, out, fn)
        finally:
            if os.path.exists(fn):
                os.remove(fn)

    def run_refusal(self, case, out, fn):
        dt = [(c['name'], *M.np_dtype({'cols': [c]})[0].subdtype) if c['alen'] else (c['name'], M.np_dtype({'cols': [c]})[0])
              for c in case['cols']]
        bad = ('bad_col', case['bad'], (2,)) if case['as_array'] else ('bad_col', case['bad'])
        dt.insert(min(case['pos'], len(dt)), bad)
        a = np.zeros(case['nrows'], dtype=dt)
        kw = {}
        if case.get('with_enums'):
            # an enums= dictionary whose key is the name of the unsupported column must not turn it into a label column
            kw['enums'] = {'bad_col': ('BAD_T', ['ZERO', 'ONE', 'TWO'])}
            out.count('refusals_with_enum_key_on_the_column')
        try:
            par = self.Y.write_ndarray_to_yanny(fn, a, structnames=case['name'], **kw)
        except Exception as e:
            out.checks += 1
            out.count('refusals_seen')
            out.info['refusal'] = type(e).__name__
            out.expect(not os.path.exists(fn), 'refusal', 'unsupported type %s refused with %s but a file was left behind'
                       % (case['bad'], type(e).__name__))
        else:
            out.fail('refusal', 'column of unsupported type %s was written instead of refused' % case['bad'],
                     file_head=open(fn).read()[:500] if os.path.exists(fn) else None)
        out.nontrivial = True

    def _compare_all(self, case, out, obj, where):
        up = [t['name'].upper() for t in case['tables']]
        got_tabs = list(obj.tables())
        out.expect(got_tabs == up, 'tables', '%s: table names %r != %r' % (where, got_tabs, up))
        for t in case['tables']:
            if t['name'].upper() not in obj:
                out.fail('tables', '%s: table %s missing' % (where, t['name'].upper()))
                continue
            M.compare_table(out, obj[t['name'].upper()], t, '%s:%s' % (where, t['name'].upper()))
            for c in t['cols']:
                n = len(t['rows']) * max(1, c['alen'])
                if c['kind'] in ('f4', 'f8'):
                    out.count('float_cells_compared', n)
                elif c['kind'] in ('S', 'U', 'enum'):
                    out.count('string_cells_compared', n)
                else:
                    out.count('int_cells_compared', n)
        keys = [h[0] for h in case['hdr']]
        out.expect(list(obj.pairs()) == keys, 'header', '%s: header keys %r != %r' % (where, list(obj.pairs()), keys))
        for k, v, vt in case['hdr']:
            if k in obj:
                exp = _hdr_text(v, vt)
                out.expect(obj[k] in exp, 'header', '%s: header %s = %r, expected text form %r' % (where, k, obj[k], exp))
                out.count('hdr_values_compared')

    def _nontrivial(self, case):
        if case['kind'] in ('zero_rows', 'table_api') or len(case['tables']) > 1:
            return True
        for t in case['tables']:
            if t['rows'] and any(c['kind'] in ('S', 'U', 'f4', 'f8') for c in t['cols']):
                return True
        return False

    def _write_ndarray(self, case, out, fn):
        """hand the document to the record-array entry point as the case says; returns the writer's object"""
        arrays = [M.build_array(t, case['byteorder']) for t in case['tables']]
        out.count('array_columns_longer_than_1000', sum(1 for t in case['tables'] for c in t['cols'] if c['alen'] > 1000))
        fl = case.get('field_layout', 'packed')
        if fl != 'packed':
            arrays = [M.relayout_fields(a, fl, seed=k) for k, a in enumerate(arrays)]
            out.count('record_layout_' + fl)
        names = [t['name'] for t in case['tables']]
        hdr = None
        if case['hdr']:
            hdr = {}
            for k, v, vt in case['hdr']:
                hdr[k] = _hdr_obj(v, vt)
        kw = {}
        if case.get('default_names'):
            names_arg = None
            for k, t in enumerate(case['tables']):
                t['name'] = 'MYSTRUCT%d' % k
        else:
            names_arg = names
        if case['single_not_list']:
            data = arrays[0]
            if names_arg is not None:
                names_arg = names[0]
        else:
            data = arrays
        if case.get('comments') is not None:
            kw['comments'] = case['comments']
            out.count('writes_with_comments')
            out.count('writes_with_long_comment_lines', isinstance(case['comments'], list) and any(len(c) > 100 for c in case['comments']))
        return self.Y.write_ndarray_to_yanny(fn, data, structnames=names_arg, enums=M.writer_enums(case), hdr=hdr, **kw)

    def run_ndarray(self, case, out, fn):
        par = self._write_ndarray(case, out, fn)
        out.expect(os.path.exists(fn), 'written', 'no file was written')
        self._compare_all(case, out, par, 'returned-object')
        fresh = self.Y.yanny(fn)
        self._compare_all(case, out, fresh, 'fresh-read')
        for t in case['tables']:
            if not t['rows']:
                out.count('zero_row_tables')
        out.count('documents')
        out.nontrivial = self._nontrivial(case)

    def run_table_api(self, case, out, fn):
        Table = self.Table
        files = []
        try:
            for k, t in enumerate(case['tables']):
                a = M.build_array(t)
                meta = {}
                for key, v, vt in case['hdr']:
                    meta[key] = _hdr_obj(v, vt)
                tab = Table(a, meta=meta) if meta else Table(a)
                f = fn + '.%d.par' % k
                files.append(f)
                tab.write(f, format='yanny', tablename=t['name'])
                back = Table.read(f, format='yanny', tablename=t['name'])
                M.compare_table(out, np.asarray(back.as_array()), t, 'Table.read:%s' % t['name'], clause='table-api')
                for key, v, vt in case['hdr']:
                    exp = _hdr_text(v, vt)
                    out.expect(back.meta.get(key) in exp, 'table-api', 'meta %s = %r expected %r' % (key, back.meta.get(key), exp))
                    out.count('hdr_values_compared')
                fresh = self.Y.yanny(f)
                sub = dict(case, tables=[t])
                self._compare_all(sub, out, fresh, 'fresh-read-of-Table.write')
                out.count('table_api_roundtrips')
                try:
                    Table.read(f, format='yanny', tablename='NO_SUCH_TABLE_ZZ')
                except KeyError:
                    out.checks += 1
                else:
                    out.fail('table-api', 'reading a missing table did not raise KeyError')
        finally:
            for f in files:
                if os.path.exists(f):
                    os.remove(f)
        out.nontrivial = True

    # ---------------------------------------------------------------- sequences of documents
    def _table_of(self, doc, extra=None):
        t = doc['tables'][0]
        a = M.build_array(t)
        if extra is not None:
            dt = [(n,) + ((a.dtype[n].subdtype[0], a.dtype[n].subdtype[1]) if a.dtype[n].subdtype else (a.dtype[n],))
                  for n in a.dtype.names]
            bad = ('bad_col', extra['bad'], (2,)) if extra['as_array'] else ('bad_col', extra['bad'])
            dt.insert(min(extra['pos'], len(dt)), bad)
            b = np.zeros(len(a), dtype=dt)
            for n in a.dtype.names:
                b[n] = a[n]
            a = b
        meta = {key: _hdr_obj(v, vt) for key, v, vt in doc['hdr']}
        return self.Table(a, meta=meta) if meta else self.Table(a)

    def _table_write(self, doc, tab, f):
        kw = {'overwrite': True} if doc.get('overwrite') else {}
        if doc['api'] == 'table':
            tab.write(f, format='yanny', tablename=doc['tables'][0]['name'], **kw)
        else:
            self.Y.write_table_yanny(tab, f, tablename=doc['tables'][0]['name'], **kw)

    def _enum_widths(self, doc, out, obj, where):
        """A label column is handed over as S<n>, n the length of the longest label of THIS document's enum, and that is the
        column type that has to come back (whatever enums the documents handled earlier declared under the same names)."""
        for t in doc['tables']:
            if t['name'].upper() not in obj:
                continue
            dt = obj[t['name'].upper()].dtype
            for c in t['cols']:
                if c['kind'] == 'enum' and dt.names and c['name'] in dt.names:
                    out.expect(dt[c['name']].kind == 'S' and dt[c['name']].itemsize == c['width'], 'readback',
                               '%s:%s.%s: label column of type %s, handed over as S%d (longest label of %s: %d characters)'
                               % (where, t['name'].upper(), c['name'], dt[c['name']], c['width'], c['enum'], c['width']))
                    out.count('label_column_types_compared')

    def _sequence_counters(self, case, out):
        docs = case['docs']
        for k, doc in enumerate(docs):
            if doc.get('refused'):
                continue
            for t in doc['tables']:
                sig = _signature(t)
                ecols = [c for c in t['cols'] if c['kind'] == 'enum']
                for j in range(k):
                    if docs[j].get('refused'):
                        continue
                    for u in docs[j]['tables']:
                        if _signature(u) != sig:
                            continue
                        out.count('tables_with_a_definition_text_seen_before')
                        for c in ecols:
                            w0 = _enum_width(docs[j], c)
                            if c['width'] > w0:
                                out.count('same_definition_text_labels_longer_than_before')
                            elif c['width'] < w0:
                                out.count('same_definition_text_labels_shorter_than_before')

    def run_sequence(self, case, out, fn):
        Table = self.Table
        docs = case['docs']
        over = case['kind'] == 'overwrite'
        same_path = case['same_path']
        self._sequence_counters(case, out)
        files, live = [], []
        on_disk = None               # the document the single path holds (overwrite)
        try:
            for k, doc in enumerate(docs):
                f = fn if same_path else fn + '.%d.par' % k
                if f not in files:
                    files.append(f)
                tag = 'document %d of %d' % (k + 1, len(docs))
                if doc.get('refused'):
                    tab = self._table_of(doc, extra=doc['refused'])
                    try:
                        self._table_write(doc, tab, f)
                    except Exception as e:
                        out.checks += 1
                        out.count('refusals_seen')
                        out.count('refusals_with_overwrite')
                        out.info['refusal'] = type(e).__name__
                    else:
                        out.fail('refusal', '%s: column of unsupported type %s was written (overwrite=True) instead of refused'
                                 % (tag, doc['refused']['bad']), file_head=open(f).read()[:500] if os.path.exists(f) else None)
                        on_disk = None
                        continue
                    # never written wrongly: afterwards there is no file, or the complete earlier document
                    if os.path.exists(f):
                        if not out.expect(on_disk is not None, 'refusal', '%s: refused, but a file was left behind where there '
                                          'was none' % tag):
                            continue
                        self._compare_all(on_disk, out, self.Y.yanny(f), '%s refused, file kept' % tag)
                        out.count('refusals_that_kept_the_earlier_file')
                    else:
                        on_disk = None
                    continue
                if over and on_disk is not None and doc.get('overwrite'):
                    out.count('overwrites_of_an_existing_file')
                    same = [u for u in on_disk['tables'] if u['name'].upper() == doc['tables'][0]['name'].upper()]
                    if same:
                        oldd = {c['name']: _decl(c) for c in same[0]['cols']}
                        ch = [c for c in doc['tables'][0]['cols'] if c['name'] in oldd and oldd[c['name']] != _decl(c)]
                        out.count('overwrites_same_names_other_declaration', bool(ch))
                        out.count('overwrites_scalar_array_flip', any(bool(c['alen']) != bool(oldd[c['name']][2]) for c in ch))
                        out.count('overwrites_same_layout', _signature(same[0]) == _signature(doc['tables'][0]))
                    else:
                        out.count('overwrites_by_another_table')
                if doc['api'] == 'ndarray':
                    if same_path and os.path.exists(f):
                        os.remove(f)
                        out.count('paths_reused_after_removal')
                    par = self._write_ndarray(doc, out, f)
                    out.expect(os.path.exists(f), 'written', '%s: no file was written' % tag)
                    self._compare_all(doc, out, par, '%s returned-object' % tag)
                    self._enum_widths(doc, out, par, '%s returned-object' % tag)
                    live.append((tag, doc, par))
                else:
                    t = doc['tables'][0]
                    self._table_write(doc, self._table_of(doc), f)
                    out.expect(os.path.exists(f), 'written', '%s: no file was written' % tag)
                    back = Table.read(f, format='yanny', tablename=t['name'])
                    M.compare_table(out, np.asarray(back.as_array()), t, '%s Table.read:%s' % (tag, t['name']), clause='table-api')
                    keys = [h[0] for h in doc['hdr']]
                    out.expect(list(back.meta.keys()) == keys, 'table-api', '%s: meta keys %r != %r'
                               % (tag, list(back.meta.keys()), keys))
                    for key, v, vt in doc['hdr']:
                        exp = _hdr_text(v, vt)
                        out.expect(back.meta.get(key) in exp, 'table-api', '%s: meta %s = %r expected %r'
                                   % (tag, key, back.meta.get(key), exp))
                        out.count('hdr_values_compared')
                    out.count('table_api_roundtrips')
                on_disk = doc
                fresh = self.Y.yanny(f)
                self._compare_all(doc, out, fresh, '%s fresh-read' % tag)
                self._enum_widths(doc, out, fresh, '%s fresh-read' % tag)
                out.count('documents')
                out.count('documents_in_sequences')
                for t in doc['tables']:
                    if not t['rows']:
                        out.count('zero_row_tables')
            # the files that are still there, read once more, the latest first
            if not same_path:
                for k in reversed(range(len(docs))):
                    again = self.Y.yanny(files[k])
                    self._compare_all(docs[k], out, again, 'document %d of %d read again at the end' % (k + 1, len(docs)))
                    self._enum_widths(docs[k], out, again, 'document %d of %d read again at the end' % (k + 1, len(docs)))
                    out.count('sequence_files_read_again')
            # the objects the writer returned are all still alive: what was handled later must not have changed them
            for tag, doc, par in live[:-1]:
                self._compare_all(doc, out, par, '%s returned-object, looked at again at the end' % tag)
            out.count('sequences')
        finally:
            for f in files:
                if os.path.exists(f):
                    os.remove(f)
        out.nontrivial = True

    def summarise(self, case):
        c = dict(case)
        if 'tables' in c:
            c['tables'] = [dict(t, rows=t['rows'][:2]) for t in c['tables'][:2]]
        if 'docs' in c:
            c['docs'] = [dict(d, tables=[dict(t, rows=t['rows'][:2]) for t in d['tables'][:2]]) for d in c['docs']]
        return c


CHECK = C01()
