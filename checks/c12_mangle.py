"""C12 - Mangle window functions decide point membership exactly as the caps define.

Events: is_in_cap / is_in_polygon / is_in_window return values, polygon.use_caps after set_use_caps,
        on polygons built in memory, read by read_mangle_polygons, read_fits_polygons(convert=False|True)
        and assembled by window_read(balkans=True) from real files written into a temporary PHOTO_RESOLVE.
Oracle: long-double evaluation of the definition (vlib/refs/mangle_ref.py) with an ambiguity band around
        every cap boundary; a cap's own centre (bit-exact copy) is asserted regardless of the band.
"""
import os
import math
import shutil
import traceback
import numpy as np
from vlib.harness import Check, np_rng, repo_path
from vlib.refs import mangle_ref as R

IN, OUT, UND = R.IN, R.OUT, R.UND
SPECIAL_CM = [0.0, 1e-12, 1e-11, 1e-10, 3e-10, 1e-8, 1e-6, 1e-3, 1.0, -1.0, 2.0, -2.0, 1.9999, -1.9999,
              2.0 - 1e-12, -1e-12, -1e-10, -1e-6, -1e-3, 0.5, -0.5]
SPECIAL_RADEC = [[0.0, 90.0], [0.0, -90.0], [123.0, 90.0], [360.0, 0.0], [0.0, 0.0], [180.0, 0.0],
                 [360.0, 45.0], [0.0, 45.0], [359.99999999999, -30.0], [90.0, 0.0], [270.0, 0.0]]
AXES = [[0.0, 0.0, 1.0], [0.0, 0.0, -1.0], [1.0, 0.0, 0.0], [-1.0, 0.0, 0.0], [0.0, 1.0, 0.0], [0.0, -1.0, 0.0]]


# ---------------------------------------------------------------------------
# generator helpers (numpy Generator g)
# ---------------------------------------------------------------------------
def unit(g, n=None):
    v = g.normal(size=(n or 1, 3))
    v /= np.linalg.norm(v, axis=1)[:, None]
    return v if n else v[0]


def rotate_from(g, c, ang):
    """unit vector at angular distance ang from unit vector c, random azimuth."""
    c = np.asarray(c, dtype=np.float64)
    c = c / np.linalg.norm(c)
    while True:
        r = g.normal(size=3)
        u = np.cross(c, r)
        n = np.linalg.norm(u)
        if n > 1e-3:
            break
    u /= n
    w = np.cross(c, u)
    phi = g.uniform(0, 2 * np.pi)
    p = np.cos(ang) * c + np.sin(ang) * (np.cos(phi) * u + np.sin(phi) * w)
    return p / np.linalg.norm(p)


def to_radec(p):
    p = np.asarray(p, dtype=np.float64)
    ra = np.degrees(np.arctan2(p[:, 1], p[:, 0])) % 360.0
    dec = np.degrees(np.arcsin(np.clip(p[:, 2], -1, 1)))
    return np.stack([ra, dec], axis=1)


def gen_cm(g, d_t=None, contain=False, specials=0.2):
    """A cm value in [-2, 2].  If contain, the target point at d_t = 1 - x.t lies inside with margin."""
    if contain:
        if g.uniform() < 0.3 and d_t > 0.02:
            return -float(g.uniform(0.0, 1.0) ** 0.5 * d_t * 0.98)          # complement of a cap not holding t
        lo = min(d_t * 1.02 + 1e-3, 2.0)
        return float(lo + (2.0 - lo) * g.uniform() ** 2)
    if g.uniform() < specials:
        return float(SPECIAL_CM[g.integers(len(SPECIAL_CM))])
    s = -1.0 if g.uniform() < 0.35 else 1.0
    return float(s * g.uniform(0.02, 1.98))


def gen_polygon(g, nc, ncp, t, f32, mask_mode):
    """One polygon: list x, list cm, int use."""
    if mask_mode == 'all' or nc == 0:
        use = (1 << nc) - 1
    elif mask_mode == 'highbits':
        use = ((1 << nc) - 1) | (int(g.integers(1, 1 << 16)) << nc)
        use &= 0xFFFFFFFF
    else:
        use = int(g.integers(0, 1 << nc))
        if g.uniform() < 0.15:
            use |= int(g.integers(1, 1 << 8)) << nc
    xs, cms = [], []
    for k in range(nc):
        r = g.uniform()
        if k > 0 and r < 0.12:
            x = np.array(xs[int(g.integers(k))], dtype=np.float64)         # shared centre
        elif r < 0.2:
            x = np.array(AXES[g.integers(6)], dtype=np.float64)
        elif r < 0.5:
            x = rotate_from(g, t, float(10 ** g.uniform(-3, 0.3)))
        else:
            x = unit(g)
        active = (use >> k) & 1 and (ncp <= 0 or k < ncp)
        d_t = float(1.0 - np.dot(x, t))
        cm = gen_cm(g, d_t, contain=bool(active and g.uniform() < 0.85))
        if f32:
            x = x.astype(np.float32).astype(np.float64)
            cm = float(np.float32(cm))
        xs.append([float(c) for c in x])
        cms.append(cm)
    return xs, cms, use


def gen_points(g, polys, targets, nuni, f32):
    """Points (Cartesian, float64) + list of exact centre designations [j, poly, cap]."""
    pts = []
    exact = []
    for p in unit(g, nuni):
        pts.append(p)
    for t in targets:
        pts.append(np.asarray(t))
        for _ in range(4):
            pts.append(rotate_from(g, t, float(10 ** g.uniform(-6, -0.3))))
    caps = [(pi, k) for pi, (xs, cms, use) in enumerate(polys) for k in range(len(cms))]
    g.shuffle(caps)
    for (pi, k) in caps[:14]:
        x = np.array(polys[pi][0][k])
        cm = polys[pi][1][k]
        exact.append([len(pts), pi, k])
        pts.append(x.copy())
        pts.append(-x)
        lo = -7.0 if f32 else -12.0
        for _ in range(3):
            delta = float(10 ** g.uniform(lo, -3) * (1 if g.uniform() < 0.5 else -1))
            th = float(np.arccos(np.clip(1.0 - abs(cm), -1, 1)))
            pts.append(rotate_from(g, x, th + delta))
    for a in AXES[:2]:
        pts.append(np.array(a))
    return [[float(c) for c in p] for p in pts], exact


def finish_points(g, pts, exact, coords):
    if coords == 'radec':
        rd = to_radec(np.array(pts))
        out = [[float(a), float(b)] for a, b in rd]
        for s in SPECIAL_RADEC:
            out.append(list(s))
        return out, []          # centres are no longer bit-exact after the conversion
    return pts, exact


class RefCache:
    """Reference of one case: every cap evaluated once in long double, then combined per (use-mask, ncaps).

    ``polys`` are the distinct polygon *objects*; ``order`` lists, for each window position, the object it holds
    (so that one object may sit at several positions and mask changes follow the object).
    """

    def __init__(self, polys, pts_ld, band, ctol, exact=(), order=None, ties_pts=None):
        self.npts = pts_ld.shape[0]
        self.order = list(range(len(polys))) if order is None else list(order)
        self.ncs = [len(cm) for _, cm, _ in polys]
        self.tables = []
        for pi, (x, cm, use) in enumerate(polys):
            ex = [(j, k) for j, p, k in exact if p == pi]          # exact entries name the object, not the position
            self.tables.append(R.cap_table(x, cm, pts_ld, band, ctol, ex, ties_pts=ties_pts))

    def polygon(self, pi, use, ncp):
        return R.combine_caps(self.tables[pi], use, ncp, self.npts)

    def window(self, masks, ncp, allcaps=False):
        sts, nears = [], []
        for pi in self.order:
            u = (1 << self.ncs[pi]) - 1 if allcaps else masks[pi]
            st, near = self.polygon(pi, u, ncp)
            sts.append(st)
            nears.append(near)
        first, alt = R.window_allowed(sts)
        return sts, nears, first, alt


def other_ncaps(g, ncp, n, k):
    """k values of the ncaps argument different from ncp, in random order (0 = all, 1, n-1, n, n+2, ...)."""
    pool = sorted({0, 1, 2, max(n - 1, 0), n, n + 2} - {ncp})
    g.shuffle(pool)
    return [int(v) for v in pool[:k]]


# ---------------------------------------------------------------------------
class C12(Check):
    ID = 'C12'
    RULE = ('polygon lists of 1-12 polygons x 0-12 caps (float64 and float32; cm in [-2,2] incl. 0, 1e-12..1e-6, +-1, '
            '+-2, 2-1e-12; shared centres; arbitrary use-masks incl. bits above ncaps; ncaps argument 0..n+2) with '
            'points = uniform sphere + target points inside the used caps + every sampled cap centre (bit-exact copy) '
            'and antipode + points 1e-12..1e-3 rad either side of cap boundaries + poles/axes, given as Cartesian or '
            'RA/Dec (incl. RA 0/360, Dec +-90); the same list as in-memory ManglePolygon objects, .ply text '
            '(17 significant digits, varying headers), FITS polygon tables (TDIM layout with garbage padding, IFIELD '
            'optional; raw tables also with only the geometry columns XCAPS/CMCAPS/NCAPS/USE_CAPS, each of '
            'IFIELD/WEIGHT/PIXEL/STR present or absent independently, unrelated extra columns, shuffled column order; plain 3D one-cap layout with and without TDIM; raw and converted), window_blist+window_bcaps '
            '(shuffled ICAP order with junk gaps) through window_read; the repository\'s own t/polygon*.{fits,ply}; '
            'set_use_caps with permutations, subsets, singletons, repeats, empty lists, list/tuple/ndarray, add, '
            'tol, allow_doubles, allow_neg_doubles on caps sharing a centre with equal/opposite/unrelated cm; '
            'HISTORIES on the same objects: every polygon / PolygonList / list read from a file is asked again with '
            'other ncaps values (0, 1, n-1, n, n+2) in random order, a member of a list through is_in_polygon between '
            'two window lookups, read-only accessors (cmminf, copy) in between, and class `sequence` runs 5-12 random '
            'operations (is_in_polygon, is_in_window, set_use_caps, use_caps assignment, copy, Cartesian/RA-Dec) on '
            '1-4 shared objects (one object possibly at two list positions), each answer held to the reference for '
            'the then-current mask; class `manycaps`: polygons / windows / .ply / FITS / balkans / set_use_caps with '
            '31, 32, 33, 63, 64, 65, 100 caps, masks all-ones, top bits only, low bits only, random, bits above ncaps, and '
            'ncaps restrictions 1, 31, 32, 33, 63, 64, 65, n-1, n, n+2; set_use_caps near-duplicates at 0..10 x tol in '
            'axis / diagonal / random directions for tol default, 1e-10, 1e-8, 1e-7, 1e-5 (float and numpy scalar); class '
            '`ties`: axis-aligned caps with binary-exact cm (0, 0.125 .. 2, +-) and great-circle caps with a zero '
            'component, queried at points EXACTLY on their bounding circles (component along the axis = 1 - |cm|, '
            'Pythagorean azimuths, axis points, the null cap at its centre; one-ulp neighbours stay undecided), as single '
            'caps, polygons (octants) and windows of polygons sharing an edge: decided by exact rational arithmetic, '
            'the circle belongs to a cap with cm >= 0.  '
            'Class `twins`: windows (all file arms) in which polygons hold RELATED caps anywhere in their cap list - a cap and '
            'its own complement (same centre, -cm: an empty polygon), a cap listed twice, both within 3e-11 in centre and cm, '
            'an annulus (same centre, unrelated opposite cm) - with later polygons and a wide backstop cap around the same '
            'points; every such member is also asked through is_in_polygon on the objects of each arm, and window_read is '
            'called again with blist= / bcaps= kept.  '
            'Non-trivial: a membership case whose reference evaluated >= 2 used caps incl. a negative one in some '
            'polygon and decided >= 1 point closer than 1e-3 (in 1-x.p) to a cap boundary; a set_use_caps case whose '
            'index list is not a permutation of range(ncaps) or that removes/keeps a same-centre cap.  Distinct by '
            'hash of the materialised case.')
    ASSUMPTIONS = [
        'reference: numpy long double (eps 1.1e-19) on the binary values given to pydl; float32 caps at their exact float32 values',
        'ambiguity band |1-x.p-|cm|| < 1e-9 for float64 caps: correct double code errs by < 5e-16 (measured worst case over '
        '1.2e6 near-boundary points, arccos monotone, dot product and 1-|cm| each rounded once) -> margin 2e6',
        'ambiguity band 5e-5 for float32 caps: under NEP 50 pydl evaluates 1-|cm| and its arccos in float32; measured worst '
        'disagreement distance 2.3e-7 -> margin 200 (DESIGN proposed 1e-6, only 4x)',
        'a cap centre (bit-exact copy of x) is asserted inside for cm >= 1e-12 (float32: 5e-5) and outside the complement; '
        '|x|^2-1 <= 4.4e-16 for normalised doubles -> margin 2000',
        'domain: |cm| <= 2, ncaps <= 12, use-mask < 2^32, index lists within range(ncaps); .ply files carry no use-mask '
        '(all caps used) and no polygon with 0 caps (quantifier says 1..n caps; read_mangle_polygons asserts on 0 caps)',
        'set_use_caps: the duplicate rule is EUCLIDEAN centre distance < tol and |cm difference (or sum)| < tol, evaluated in '
        'long double on the stored values; near-duplicates are generated at 0, 0.1, 0.5, 0.9, 1.1, 1.2, 1.5, 1.8, 2, 10 x tol '
        'along axes, face and space diagonals and random directions (cm offsets 0.5, 0.9, 1.1, 2 x tol); pydl evaluates the '
        'same quantities to ~5e-16 relative, a case is undecided only if a quantity is within 1e-9 (relative) of tol (margin '
        '1e6); chains (B doubles A, C doubles B, C does not double A; 3-5 members, steps 0.52-0.9 tol along a line and/or in '
        'cm) are a standing family: a cap dropped as a double is no longer selected and is not a reference for later caps '
        '(the property text, and the unchanged code whose outer loop re-tests the mask), so C stays',
        'cap counts 31, 32, 33, 63, 64, 65, 100 with Python-int use-masks of any size are in the domain for ManglePolygon and '
        '.ply; FITS USE_CAPS is a 32-bit column (<= 32 caps); window_read keeps USE_CAPS in an int32, so 32 caps raise '
        'OverflowError on the unchanged tree - balkans are exercised up to 31 caps (reported, not asserted)',
        'formats are compared through the reference on decided points, not bit-for-bit inside the band',
        'exact ties: a point is on the circle only if 1 - x.p == |cm| holds in rational arithmetic on the stored doubles AND '
        'at most one product of x.p is non-zero and representable, so that every double evaluation (any summation order, FMA) '
        'reproduces it bit for bit; asserted inside for cm >= 0 (Cartesian float64 only: RA/Dec conversion and float32 '
        'arithmetic do not preserve the tie).  For cm < 0 the property gives the circle to the cap, not to the complement; '
        'the unchanged tree reports it inside the complement as well (cdist = -0.0 >= 0): counted '
        '(exact_tie_complement_reported_inside), not asserted',
        'related caps: a polygon bounded by a cap and by the complement of that cap is a legitimate polygon (empty up to the '
        'ambiguity band); which caps count is the use-mask alone (all caps for .ply and for balkans assembled by window_read, '
        'as for a FITS table with USE_CAPS = 2**NCAPS - 1: "identical answers").  The VALUE of USE_CAPS on assembled balkans '
        'is recorded (balkans_use_caps_*), not asserted: switching off an exact repeat changes no answer',
    ]
    REQUIRED_COUNTERS = ('radec_integer_dtype_cases', 'centre_asserted', 'centre_tiny_cm_asserted', 'antipode_asserted', 'near_boundary_decided',
                         'negative_caps_evaluated', 'masked_caps_skipped', 'ncaps_restricting', 'radec_cases',
                         'f32_cases', 'window_point_in_several', 'window_point_in_none', 'empty_polygon_all_inside',
                         'arm_mem', 'arm_ply', 'arm_fits_raw', 'arm_fits_conv', 'arm_balkans', 'fits_plain3d_raw',
                         'usecaps_nonperm', 'usecaps_dup_removed', 'usecaps_twin_removed', 'usecaps_twin_kept',
                         'usecaps_unrelated_same_centre_kept', 'usecaps_add', 'usecaps_allow_doubles',
                         'usecaps_near_centre_kept',
                         'same_object_requeries', 'requery_reference_answer_changed', 'requery_after_mask_change',
                         'requery_window_after_polygon_on_member', 'requery_file_objects',
                         'usecaps_neardup_inside_tol_removed', 'usecaps_neardup_1_to_sqrt3_tol_kept',
                         'usecaps_neardup_each_component_inside_tol_kept', 'usecaps_cm_difference_near_tol',
                         'usecaps_chain_dropped_cap_is_no_reference', 'fits_raw_column_subset',
                         'fits_raw_without_weight_pixel_or_str', 'fits_raw_geometry_columns_only', 'fits_raw_extra_columns',
                         'manycaps_mask_ge_2_63', 'manycaps_mask_bit31_or_more', 'manycaps_64_or_more_caps',
                         'manycaps_window', 'manycaps_file_arms', 'manycaps_usecaps',
                         'exact_tie_cap_asserted_inside', 'exact_tie_null_cap_centre', 'exact_tie_decides_polygon',
                         'exact_tie_decides_window', 'exact_tie_complement_seen',
                         'twins_complement', 'twins_repeat', 'twins_near_complement', 'twins_near_repeat', 'twins_annulus',
                         'twins_points_decided_by_the_complement_cap', 'twins_points_decided_by_the_complement_cap_all_caps_used',
                         'twins_window_answer_hinges_on_the_complement_cap',
                         'twins_window_answer_hinges_on_the_complement_cap_all_caps_used', 'twins_member_queries',
                         'arm_balkans_with_other_tables')
    # reach is required of the functions whose RETURN VALUES the property speaks about; cap_distance is a helper that
    # is_in_cap may legitimately stop using (its reach is still recorded in the evidence, not required)
    REQUIRED_REACH = {'mangle.is_in_polygon': 0.9, 'mangle.is_in_window': 0.9, 'mangle.set_use_caps': 0.9,
                      'mangle.is_in_cap': 0.7, 'mangle.read_mangle_polygons': 0.8}
    MIN_NONTRIVIAL = 20

    # ------------------------------------------------------------------ setup
    def setup(self):
        import pydl.pydlutils.mangle as M
        import pydl.photoop.window as W
        from astropy.io import fits
        from astropy.table import Table
        self.M, self.W, self.fits, self.Table = M, W, fits, Table
        self._env = os.environ.get('PHOTO_RESOLVE')
        for f in (M.cap_distance, M.is_in_cap, M.is_cap_used, M.is_in_polygon, M.is_in_window, M.set_use_caps,
                  M.read_fits_polygons, M.read_mangle_polygons, M.angles_to_x, M.ManglePolygon.__init__,
                  W.window_read):
            self.reach.add(f)
        self.brd.per_case = 3
        for n in ('is_in_cap', 'is_in_polygon', 'is_in_window'):
            self.brd.attach(self.rec, M, n, every=3, own=True)              # buffer-reuse differential (vlib/brd.py)
        for n in ('is_in_cap', 'is_in_polygon', 'is_in_window', 'set_use_caps', 'read_fits_polygons',
                  'read_mangle_polygons'):
            self.rec.wrap(M, n)
        self.rec.wrap(W, 'window_read')
        self._n = 0

    def teardown(self):
        self.rec.unwrap_all()
        if self._env is None:
            os.environ.pop('PHOTO_RESOLVE', None)
        else:
            os.environ['PHOTO_RESOLVE'] = self._env

    def budget(self, tier):
        q = tier == 'quick'
        return {
            'polygon': 1600 if q else 40000,
            'centres': 600 if q else 15000,
            'empty': 80 if q else 1000,
            'window': 600 if q else 15000,
            'files': 300 if q else 6000,
            'files_onecap': 80 if q else 1500,
            'repo_fixtures': 16 if q else 160,
            'use_caps': 3000 if q else 80000,
            'sequence': 400 if q else 10000,
            'manycaps': 120 if q else 3000,
            'ties': 300 if q else 6000,
            'twins': 160 if q else 3000,
        }

    # ------------------------------------------------------------------ gen
    def gen(self, cls, rng, i):
        g = np_rng(rng)
        if cls == 'polygon':
            return self._gen_polygon_case(g, big=self.tier != 'quick')
        if cls == 'centres':
            return self._gen_centres(g)
        if cls == 'empty':
            return self._gen_empty(g)
        if cls == 'window':
            return self._gen_window(g, files=False, big=self.tier != 'quick')
        if cls == 'files':
            return self._gen_window(g, files=True, big=False)
        if cls == 'files_onecap':
            return self._gen_window(g, files=True, big=False, onecap=True)
        if cls == 'repo_fixtures':
            return {'kind': 'fixture', 'file': ['polygon.fits', 'polygon_no_id.fits', 'polygon_one_cap.fits',
                                                 'polygon.ply'][i % 4],
                    'seed': int(g.integers(1 << 32)), 'coords': 'radec' if (i // 4) % 2 else 'xyz',
                    'ncaps': int([0, 0, 2, 1][(i // 8) % 4])}
        if cls == 'use_caps':
            return self._gen_use_caps(g)
        if cls == 'sequence':
            return self._gen_sequence(g)
        if cls == 'manycaps':
            return self._gen_manycaps(g, i)
        if cls == 'ties':
            return self._gen_ties(g, i)
        if cls == 'twins':
            return self._gen_twins(g, i)
        raise KeyError(cls)

    def _gen_polygon_case(self, g, big):
        f32 = bool(g.uniform() < 0.25)
        nc = int(g.choice([1, 1, 2, 2, 3, 3, 4, 5, 6, 7, 9, 12]))
        ncp = int(g.choice([0, 0, 0] + list(range(1, nc + 3))))
        t = unit(g)
        mode = str(g.choice(['all', 'all', 'random', 'random', 'highbits']))
        xs, cms, use = gen_polygon(g, nc, ncp, t, f32, mode)
        pts, exact = gen_points(g, [(xs, cms, use)], [t], 40 if not big else 80, f32)
        coords = 'radec' if g.uniform() < 0.35 else 'xyz'
        pts, exact = finish_points(g, pts, exact, coords)
        return {'kind': 'polygon', 'f32': f32, 'x': xs, 'cm': cms, 'use': use, 'ncaps': ncp, 'coords': coords,
                'pts': pts, 'exact': [[j, k] for j, _, k in exact], 'requery': other_ncaps(g, ncp, nc, 3)}

    def _gen_centres(self, g):
        """one or two caps with hostile cm; the points are cap centres and antipodes (bit-exact)."""
        f32 = bool(g.uniform() < 0.2)
        nc = int(g.choice([1, 1, 2, 3]))
        xs, cms = [], []
        for k in range(nc):
            r = g.uniform()
            if r < 0.15:
                x = np.array(AXES[g.integers(6)], dtype=np.float64)
            elif r < 0.25 and k > 0:
                x = np.array(xs[0])
            else:
                x = unit(g)
            r = g.uniform()
            if r < 0.45:
                cm = float(SPECIAL_CM[g.integers(len(SPECIAL_CM))])
            elif r < 0.6:
                cm = float(10 ** g.uniform(-12, -1) * (1 if g.uniform() < 0.7 else -1))
            else:
                cm = float(g.uniform(-2, 2))
            if f32:
                x = x.astype(np.float32).astype(np.float64)
                cm = float(np.float32(cm))
            xs.append([float(c) for c in x])
            cms.append(cm)
        pts, exact = [], []
        for k in range(nc):
            exact.append([len(pts), k])
            pts.append(list(xs[k]))
            pts.append([-c for c in xs[k]])
        for p in unit(g, 4):
            pts.append([float(c) for c in p])
        coords = 'radec' if g.uniform() < 0.25 else 'xyz'
        if coords == 'radec':
            pts = [[float(a), float(b)] for a, b in to_radec(np.array(pts))]
            exact = []
        use = (1 << nc) - 1 if g.uniform() < 0.7 else int(g.integers(0, 1 << nc))
        return {'kind': 'polygon', 'f32': f32, 'x': xs, 'cm': cms, 'use': use, 'ncaps': 0, 'coords': coords,
                'pts': pts, 'exact': exact, 'antipodes': [[2 * k + 1, k] for k in range(nc)] if coords == 'xyz' else []}

    def _gen_empty(self, g):
        nc = int(g.choice([0, 0, 1, 2, 4]))
        t = unit(g)
        xs, cms, _ = gen_polygon(g, nc, 0, t, False, 'all')
        pts = [[float(c) for c in p] for p in unit(g, 30)] + [list(a) for a in AXES]
        coords = 'radec' if g.uniform() < 0.3 else 'xyz'
        pts, _ = finish_points(g, pts, [], coords)
        mode = 'noargs' if nc == 0 and g.uniform() < 0.5 else 'kwargs'
        # use mask selecting no cap at all (possibly bits above ncaps only)
        use = 0 if g.uniform() < 0.6 else int(g.integers(1, 16)) << nc
        return {'kind': 'polygon', 'f32': False, 'x': xs, 'cm': cms, 'use': use, 'ncaps': int(g.choice([0, 1, 3])),
                'coords': coords, 'pts': pts, 'exact': [], 'construct': mode}

    def _gen_window(self, g, files, big, onecap=False):
        f32 = bool(g.uniform() < 0.25)
        npoly = int(g.integers(1, 13 if not files else 9))
        maxc = 1 if onecap else int(g.choice([1, 2, 3, 4, 5, 6, 9]))
        ncp = int(g.choice([0, 0, 0, 0, 1, 2, maxc, maxc + 2]))
        allcaps = bool(g.uniform() < (0.5 if files else 0.3))
        polys, targets = [], []
        for p in range(npoly):
            if targets and g.uniform() < 0.45:
                t = rotate_from(g, targets[int(g.integers(len(targets)))], float(10 ** g.uniform(-4, -0.5)))
            else:
                t = unit(g)
            if polys and g.uniform() < 0.08:
                xs, cms, use = polys[int(g.integers(len(polys)))]       # identical polygon again later in the list
                xs, cms = [list(r) for r in xs], list(cms)
            else:
                if files:
                    nc = int(g.integers(1, maxc + 1))
                else:
                    nc = int(g.integers(0 if g.uniform() < 0.05 else 1, maxc + 1))
                mode = 'all' if allcaps else str(g.choice(['all', 'random', 'random', 'highbits']))
                xs, cms, use = gen_polygon(g, nc, ncp, t, f32, mode)
            polys.append((xs, cms, use))
            targets.append(t)
        if files and not onecap and not any(len(c) == maxc for _, c, _ in polys):
            xs, cms, use = gen_polygon(g, maxc, ncp, targets[0], f32, 'all')
            polys[-1] = (xs, cms, use)
        pts, exact = gen_points(g, polys, targets[:6], 25 if not big else 60, f32)
        coords = 'radec' if g.uniform() < 0.35 else 'xyz'
        pts, exact = finish_points(g, pts, exact, coords)
        case = {'kind': 'window', 'f32': f32, 'polys': [{'x': x, 'cm': c, 'use': u} for x, c, u in polys],
                'ncaps': ncp, 'coords': coords, 'pts': pts, 'exact': exact, 'requery': other_ncaps(g, ncp, maxc, 2)}
        if files:
            ncaps_tot = sum(len(c) for _, c, _ in polys)
            order = list(range(npoly))
            g.shuffle(order)
            case['kind'] = 'files'
            case['maxc'] = maxc
            case['fmt'] = {
                'seed': int(g.integers(1 << 32)),
                'ifield': bool(g.uniform() < 0.6),
                'plain3d': onecap,
                'ply_header': int(g.integers(0, 4)), 'ply_pixel': bool(g.uniform() < 0.5),
                'ply_num': str(g.choice(['%.17g', '%.17e', 'repr', '%25.17g'])),
                'bcaps_order': [int(o) for o in order],
                'bcaps_gaps': [int(v) for v in g.integers(0, 3, size=npoly + 1)],
                'pad': max(0, int(g.integers(-1, 3))),
            }
        return case

    def _gen_use_caps(self, g, n=None):
        n = int(g.integers(1, 10)) if n is None else n
        tol_arg = [None, None, 1e-10, 1e-8, 1e-7, 1e-5][int(g.integers(6))]
        tol = 1e-10 if tol_arg is None else tol_arg
        xs, cms, note = [], [], []
        pending = []
        chained = False
        for k in range(n):
            if pending:
                x, cm, nt = pending.pop(0)
                xs.append([float(c) for c in x])
                cms.append(float(cm))
                note.append(nt)
                continue
            r = g.uniform()
            if k > 0 and n - k >= 2 and r < 0.09:
                # CHAIN of 3-5 near-duplicates in index order: each member doubles its predecessor (step 0.52-0.9 tol along
                # a line and/or in cm) but not the one before that (two steps > tol).  A dropped member must not knock
                # out the next one: expected survivors are A, C, (E).
                fresh = [q for q in range(k) if note[q] == 'fresh']
                j = int(fresh[int(g.integers(len(fresh)))]) if fresh and g.uniform() < 0.7 else k - 1
                kind = str(g.choice(['line', 'line', 'cm', 'both']))
                u = g.normal(size=3) if g.uniform() < 0.6 else g.choice([-1.0, 1.0], size=3)
                u = u / np.linalg.norm(u)
                step = float(g.uniform(0.52, 0.9))
                cstep = float(g.uniform(0.52, 0.9)) * float(g.choice([-1, 1]))
                for m in range(1, int(g.integers(2, 5)) + 1):
                    xm = np.array(xs[j]) + (u * (m * step * tol) if kind != 'cm' else 0.0)
                    cmm = cms[j] + (m * cstep * tol if kind != 'line' else 0.0)
                    if g.uniform() < 0.2:
                        cmm = -cmm                      # the double may be the sign twin (unless allow_neg_doubles)
                    if pending and g.uniform() < 0.15:
                        pending.append((unit(g), float(g.uniform(0.05, 1.9)), 'fresh'))      # an unrelated cap in between
                    pending.append((xm, cmm, 'chain %s of %d step %.2ftol #%d' % (kind, j, step if kind != 'cm' else abs(cstep), m)))
                chained = True
                x, cm, nt = pending.pop(0)
                xs.append([float(c) for c in x])
                cms.append(float(cm))
                note.append(nt)
                continue
            if k > 0 and r < 0.2:
                # near-duplicate at a chosen multiple of tol from an earlier cap, in axis / diagonal / random directions:
                # the duplicate rule is EUCLIDEAN distance < tol (not per component), decided at 0.9 / 1.1 / 1.2 ... tol
                fresh = [q for q in range(k) if note[q] == 'fresh']
                j = int(fresh[int(g.integers(len(fresh)))]) if fresh and g.uniform() < 0.8 else int(g.integers(k))
                m = float(g.choice([0.0, 0.1, 0.5, 0.9, 1.1, 1.2, 1.5, 1.8, 2.0, 10.0]))
                dk = str(g.choice(['random', 'diag', 'diag', 'facediag', 'axis']))
                if dk == 'random':
                    v = g.normal(size=3)
                elif dk == 'diag':
                    v = g.choice([-1.0, 1.0], size=3)
                elif dk == 'facediag':
                    v = g.choice([-1.0, 1.0], size=3)
                    v[int(g.integers(3))] = 0.0
                else:
                    v = np.zeros(3)
                    v[int(g.integers(3))] = float(g.choice([-1.0, 1.0]))
                x = np.array(xs[j]) + v / np.linalg.norm(v) * (m * tol)
                rel = g.uniform()
                off = float(g.choice([0.5, 0.9, 1.1, 2.0])) * tol * float(g.choice([-1, 1])) if g.uniform() < 0.25 else 0.0
                cm = (cms[j] if rel < 0.7 else -cms[j]) + off
                note.append('neardup %s %gtol%s' % (dk, m, '' if off == 0.0 else ' cm%+gtol' % (off / tol)))
            elif k > 0 and r < 0.6:
                j = int(g.integers(k))
                x = np.array(xs[j])
                pert = g.uniform()
                if pert < 0.3:
                    v = g.normal(size=3)
                    x = x + v / np.linalg.norm(v) * tol * float(g.uniform(0, 0.01))      # still "the same" centre
                rel = g.uniform()
                if rel < 0.25:
                    cm = cms[j] + (tol * float(g.uniform(-0.01, 0.01)) if g.uniform() < 0.3 else 0.0)
                    note.append('equal')
                elif rel < 0.5:
                    cm = -cms[j] + (tol * float(g.uniform(-0.01, 0.01)) if g.uniform() < 0.3 else 0.0)
                    note.append('opposite')
                elif rel < 0.65:
                    # unrelated, and of the kind that a missing abs() confuses: cm_i + cm_j < 0
                    a = abs(cms[j]) if abs(cms[j]) > 0.05 else 0.5
                    cm = float(g.choice([-1, 1])) * a * float(g.uniform(0.2, 0.8))
                    if cms[j] > 0 and cm > 0:
                        cm = -cm
                    note.append('unrelated-negsum')
                else:
                    cm = float(g.uniform(0.05, 1.9)) * float(g.choice([-1, 1]))
                    note.append('unrelated')
            elif k > 0 and r < 0.72:
                # distinct but nearby centre (100 tol .. 1e-3), same cm
                j = int(g.integers(k))
                v = g.normal(size=3)
                off = float(10 ** g.uniform(np.log10(100 * tol), -3))
                x = np.array(xs[j]) + v / np.linalg.norm(v) * off
                cm = cms[j] if g.uniform() < 0.7 else -cms[j]
                note.append('near-centre')
            else:
                x = unit(g)
                cm = float(g.uniform(0.05, 1.9)) * (1.0 if g.uniform() < 0.6 else -1.0)
                note.append('fresh')
            xs.append([float(c) for c in x])
            cms.append(float(cm))
        style = g.uniform()
        if chained and g.uniform() < 0.6:
            style *= 0.3                                  # select every cap, so that the whole chain is requested
        if style < 0.2:
            idx = [int(v) for v in g.permutation(n)]
        elif style < 0.3:
            idx = list(range(n))
        elif style < 0.55:
            m = int(g.integers(0, n + 1))
            idx = [int(v) for v in g.permutation(n)[:m]]
        elif style < 0.7:
            idx = [int(g.integers(n))]
        elif style < 0.9:
            idx = [int(v) for v in g.integers(0, n, size=int(g.integers(1, n + 3)))]
        else:
            idx = sorted(int(v) for v in g.permutation(n)[:int(g.integers(0, n + 1))])
        add = bool(g.uniform() < 0.3)
        return {'kind': 'use_caps', 'x': xs, 'cm': cms, 'note': note, 'index_list': idx,
                'as': str(g.choice(['list', 'list', 'tuple', 'ndarray', 'ndarray32'])),
                'old': int(g.integers(0, 1 << min(n, 62))) if n <= 62 or g.uniform() < 0.5 else
                       int(g.integers(0, 1 << 62)) | (int(g.integers(1, 1 << (n - 62))) << 62),
                'add': add, 'tol': tol_arg, 'tol_np': bool(g.uniform() < 0.3),
                'allow_doubles': bool(g.uniform() < 0.2), 'allow_neg_doubles': bool(g.uniform() < 0.3),
                'pts': [[float(c) for c in p] for p in unit(g, 12)]}

    # ---- points EXACTLY on bounding circles (1 - x.p == |cm| bit for bit): the property's "<=" is decidable there
    TIE_CM = [1.0, 1.0, 1.0, 0.5, 0.25, 0.75, 1.5, 1.25, 0.125, 1.75, 0.0, 2.0]
    PYTH = [(0.6, 0.8), (0.8, 0.6), (0.28, 0.96), (0.96, 0.28), (1.0, 0.0), (0.0, 1.0)]

    def _tie_cap(self, g):
        """(x, cm, axis or None): axis-aligned cap with binary-exact cm, or a great-circle cap with one zero component."""
        a = int(g.integers(3))
        if g.uniform() < 0.7:
            x = [0.0, 0.0, 0.0]
            x[a] = float(g.choice([-1.0, 1.0]))
            cm = float(self.TIE_CM[int(g.integers(len(self.TIE_CM)))])
        else:
            u, v = self.PYTH[int(g.integers(4))]
            x = [0.0, 0.0, 0.0]
            x[(a + 1) % 3] = u * float(g.choice([-1.0, 1.0]))
            x[(a + 2) % 3] = v * float(g.choice([-1.0, 1.0]))
            cm = 1.0                                                   # tie for the points +-e_a
        if g.uniform() < 0.25:
            cm = -cm
        return x, cm, a

    def _tie_points(self, g, caps):
        pts = [list(p) for p in AXES]
        for x, cm, a in caps:
            s = x[a]
            if s != 0.0:                                               # axis-aligned: component along the axis = 1 - |cm|
                z = s * (1.0 - abs(cm))
                r = math.sqrt(max(0.0, 1.0 - z * z))
                for _ in range(3):
                    u, v = self.PYTH[int(g.integers(len(self.PYTH)))]
                    p = [0.0, 0.0, 0.0]
                    p[a] = z
                    p[(a + 1) % 3] = r * u * float(g.choice([-1.0, 1.0]))
                    p[(a + 2) % 3] = r * v * float(g.choice([-1.0, 1.0]))
                    pts.append(p)
                    if g.uniform() < 0.3:                              # one ulp off the circle: inside the band, undecided
                        q = list(p)
                        q[a] = float(np.nextafter(z, float(g.choice([-2.0, 2.0]))))
                        pts.append(q)
            else:                                                      # great circle through +-e_a
                for sg in (-1.0, 1.0):
                    p = [0.0, 0.0, 0.0]
                    p[a] = sg
                    pts.append(p)
        for u, v in self.PYTH[:4]:
            a = int(g.integers(3))
            p = [0.0, 0.0, 0.0]
            p[(a + 1) % 3] = u * float(g.choice([-1.0, 1.0]))
            p[(a + 2) % 3] = v * float(g.choice([-1.0, 1.0]))
            pts.append(p)
        for p in unit(g, 6):
            pts.append([float(c) for c in p])
        return pts

    def _gen_ties(self, g, i):
        window = i % 3 == 2
        npoly = int(g.integers(2, 4)) if window else 1
        polys, caps_all = [], []
        for _ in range(npoly):
            nc = int(g.choice([1, 1, 2, 3, 3, 4]))
            caps = [self._tie_cap(g) for _ in range(nc)]
            if g.uniform() < 0.3:                                      # the octant-like polygon: great circles on distinct axes
                caps = [([1.0 if q == a else 0.0 for q in range(3)], 1.0, a) for a in g.permutation(3)[:nc]]
                caps = [(x, cm, int(a)) for x, cm, a in caps]
            use = (1 << nc) - 1 if g.uniform() < 0.7 else int(g.integers(0, 1 << nc))
            polys.append(([c[0] for c in caps], [c[1] for c in caps], use))
            caps_all += caps
        if window and g.uniform() < 0.5:                               # two stripes sharing an edge
            xs, cms, use = polys[0]
            polys[1] = ([[-v if k == 0 else v for v in x] for k, x in enumerate(xs)], list(cms), use)
        pts = self._tie_points(g, caps_all)
        nmax = max(len(c) for _, c, _ in polys)
        ncp = int(g.choice([0, 0, 0, 1, 2, nmax + 1]))
        if not window:
            xs, cms, use = polys[0]
            return {'kind': 'polygon', 'f32': False, 'x': xs, 'cm': cms, 'use': use, 'ncaps': ncp, 'coords': 'xyz',
                    'pts': pts, 'exact': [], 'requery': other_ncaps(g, ncp, len(cms), 2), 'ties': True}
        return {'kind': 'window', 'f32': False, 'polys': [{'x': x, 'cm': c, 'use': u} for x, c, u in polys],
                'ncaps': ncp, 'coords': 'xyz', 'pts': pts, 'exact': [], 'requery': other_ncaps(g, ncp, nmax, 2),
                'ties': True}

    # ---- polygons whose cap list holds RELATED caps: a cap listed twice, a cap together with its own complement (same centre,
    #      cm of the opposite sign: a legitimate polygon of zero area), the same within 1e-11 (inside set_use_caps' default
    #      tolerance), and an annulus (same centre, unrelated cm of the opposite sign) - through every representation
    RELATED = ['complement', 'complement', 'complement', 'complement', 'repeat', 'repeat', 'near_complement', 'near_repeat',
               'annulus']

    def _gen_twins(self, g, i):
        f32 = bool(g.uniform() < 0.15)
        npoly = int(g.integers(2, 7))
        allcaps = bool(g.uniform() < 0.6)
        polys, targets, twins = [], [], []
        forced = int(g.integers(0, max(1, npoly - 1)))                 # this one holds a cap and its complement
        for p in range(npoly):
            if targets and g.uniform() < 0.7:                          # later polygons around the same points
                t = rotate_from(g, targets[int(g.integers(len(targets)))], float(10 ** g.uniform(-4, -1)))
            else:
                t = unit(g)
            nb = int(g.integers(1, 5))
            mode = 'all' if allcaps or p == forced else str(g.choice(['all', 'all', 'random']))
            xs, cms, use = gen_polygon(g, nb, 0, t, f32, mode)
            use &= (1 << nb) - 1
            nrel = 0
            if p == forced or g.uniform() < 0.45:
                nrel = 1 if g.uniform() < 0.8 else 2
            for r in range(nrel):
                nc = len(cms)
                rel = 'complement' if (p == forced and r == 0) else str(g.choice(self.RELATED))
                # source cap: preferably one that holds the target (so that the points around t are decided by the twin)
                holding = [k for k in range(nc) if cms[k] > 0 and 1.0 - float(np.dot(xs[k], t)) < 0.9 * cms[k]]
                src = int(holding[int(g.integers(len(holding)))]) if holding and g.uniform() < 0.85 else int(g.integers(nc))
                x = np.array(xs[src], dtype=np.float64)
                cm = float(cms[src])
                if rel in ('near_complement', 'near_repeat') and not f32:
                    v = g.normal(size=3)
                    x = x + v / np.linalg.norm(v) * float(g.uniform(0, 3e-11))
                    x = x / np.linalg.norm(x)                          # still a unit vector; moved by < 3e-11
                    cm = max(-2.0, min(2.0, cm + float(g.uniform(-3e-11, 3e-11))))      # stays inside the domain |cm| <= 2
                if rel in ('complement', 'near_complement'):
                    cm = -cm
                elif rel == 'annulus':
                    cm = -cm * float(g.uniform(0.2, 0.8)) if abs(cm) > 1e-3 else -0.5
                j = int(g.integers(src + 1, nc + 1))                   # anywhere after the source, not only next to it
                bit = 1 if (mode == 'all' or g.uniform() < 0.85) else 0
                use = (use & ((1 << j) - 1)) | (bit << j) | ((use >> j) << (j + 1))
                xs.insert(j, [float(c) for c in x])
                cms.insert(j, float(cm))
                twins = [[a, b + 1 if (a == p and b >= j) else b, c + 1 if (a == p and c >= j) else c, d]
                         for a, b, c, d in twins]
                twins.append([p, src, j, rel])
            polys.append((xs, cms, use))
            targets.append(t)
        if g.uniform() < 0.6:                                          # a wide single cap behind everything
            t0 = targets[forced]
            polys.append(([[float(c) for c in t0]], [float(g.uniform(0.3, 1.5))], 1))
            targets.append(t0)
            npoly += 1
        maxc = max(len(c) for _, c, _ in polys)
        ncp = int(g.choice([0, 0, 0, 0, 0, maxc, maxc + 2, max(1, maxc - 1), 2]))
        pts, exact = gen_points(g, polys, targets[:6], 25, f32)
        coords = 'radec' if g.uniform() < 0.35 else 'xyz'
        pts, exact = finish_points(g, pts, exact, coords)
        order = list(range(npoly))
        g.shuffle(order)
        return {'kind': 'files', 'f32': f32, 'polys': [{'x': x, 'cm': c, 'use': u} for x, c, u in polys],
                'ncaps': ncp, 'coords': coords, 'pts': pts, 'exact': exact, 'requery': other_ncaps(g, ncp, maxc, 2),
                'maxc': maxc, 'twins': twins,
                'fmt': {'seed': int(g.integers(1 << 32)), 'ifield': bool(g.uniform() < 0.6), 'plain3d': False,
                        'ply_header': int(g.integers(0, 4)), 'ply_pixel': bool(g.uniform() < 0.5),
                        'ply_num': str(g.choice(['%.17g', '%.17e', 'repr', '%25.17g'])),
                        'bcaps_order': [int(o) for o in order],
                        'bcaps_gaps': [int(v) for v in g.integers(0, 3, size=npoly + 1)],
                        'pad': max(0, int(g.integers(-1, 3))),
                        'window_read_flags': [bool(g.uniform() < 0.5), bool(g.uniform() < 0.5)]}}

    # cap counts at and beyond the machine word sizes (use-mask bit 31 / 32 / 63 / 64 and above)
    MANY = [31, 32, 33, 63, 64, 65, 100]

    def _many_polygon(self, g, nc, ncp, t, f32, maxbits=None):
        full = (1 << nc) - 1
        mode = str(g.choice(['all', 'all', 'top', 'top', 'low', 'random', 'above']))
        if mode == 'all':
            use = full
        elif mode == 'top':                      # the highest bit(s) and a few low ones
            use = (1 << (nc - 1)) | (int(g.integers(0, 2)) << (nc - 2)) | int(g.integers(0, 1 << 6))
        elif mode == 'low':                      # only low bits: stays below 2**31 whatever the cap count
            use = int(g.integers(1, 1 << 20))
        elif mode == 'random':
            use = int.from_bytes(g.bytes(16), 'little') & full
        else:                                    # all caps plus a bit above ncaps
            use = full | (1 << (nc + int(g.integers(0, 5))))
        if maxbits is not None:
            use &= (1 << maxbits) - 1
        xs, cms = [], []
        for k in range(nc):
            x = rotate_from(g, t, float(10 ** g.uniform(-2, 0.3))) if g.uniform() < 0.6 else unit(g)
            active = (use >> k) & 1 and (ncp <= 0 or k < ncp)
            cm = gen_cm(g, float(1.0 - np.dot(x, t)), contain=bool(active and g.uniform() < 0.97), specials=0.05)
            if f32:
                x = x.astype(np.float32).astype(np.float64)
                cm = float(np.float32(cm))
            xs.append([float(c) for c in x])
            cms.append(cm)
        return xs, cms, use

    def _gen_manycaps(self, g, i):
        sub = i % 8
        if sub == 7:
            return self._gen_use_caps(g, n=int(g.choice([31, 32, 33, 63, 64, 65])))
        f32 = bool(g.uniform() < 0.15)
        coords = 'radec' if g.uniform() < 0.3 else 'xyz'
        t = unit(g)
        if sub < 4:
            nc = int(g.choice(self.MANY))
            sizes = [0, 0, 1, 31, 32, 33, 63, 64, 65, nc - 1, nc, nc + 2]
            ncp = int(g.choice(sizes))
            xs, cms, use = self._many_polygon(g, nc, ncp, t, f32)
            pts, exact = gen_points(g, [(xs, cms, use)], [t], 12, f32)
            pts, exact = finish_points(g, pts, exact, coords)
            rq = [v for v in sizes if v != ncp]
            g.shuffle(rq)
            return {'kind': 'polygon', 'f32': f32, 'x': xs, 'cm': cms, 'use': use, 'ncaps': ncp, 'coords': coords,
                    'pts': pts, 'exact': [[j, k] for j, _, k in exact], 'requery': [int(v) for v in rq[:3]]}
        files = sub >= 5
        maxc = int(g.choice([31, 32, 33, 64, 65])) if files else int(g.choice(self.MANY[:6]))
        npoly = int(g.integers(1, 4))
        sizes = [0, 0, 1, 31, 32, 63, 64, maxc - 1, maxc, maxc + 2]
        ncp = int(g.choice(sizes))
        polys, targets = [], []
        for p in range(npoly):
            tt = t if p == 0 else rotate_from(g, t, float(10 ** g.uniform(-3, -0.5)))
            nc = maxc if p == 0 else int(g.integers(max(1, maxc - 2), maxc + 1))
            polys.append(self._many_polygon(g, nc, ncp, tt, f32, maxbits=32 if files and maxc <= 32 else None))
            targets.append(tt)
        order = list(range(npoly))
        g.shuffle(polys)
        pts, exact = gen_points(g, polys, targets, 10, f32)
        pts, exact = finish_points(g, pts, exact, coords)
        rq = [v for v in sizes if v != ncp]
        g.shuffle(rq)
        case = {'kind': 'window', 'f32': f32, 'polys': [{'x': x, 'cm': c, 'use': u} for x, c, u in polys],
                'ncaps': ncp, 'coords': coords, 'pts': pts, 'exact': exact, 'requery': [int(v) for v in rq[:2]]}
        if files:
            g.shuffle(order)
            case['kind'] = 'files'
            case['maxc'] = maxc
            # USE_CAPS is a 32-bit column (FITS <= 32 caps); window_read keeps USE_CAPS in an int32 (<= 31 caps); .ply any
            case['arms'] = ['ply'] + (['fits'] if maxc <= 32 else []) + (['balkans'] if maxc <= 31 else [])
            case['fmt'] = {'seed': int(g.integers(1 << 32)), 'ifield': bool(g.uniform() < 0.6), 'plain3d': False,
                           'ply_header': int(g.integers(0, 4)), 'ply_pixel': bool(g.uniform() < 0.5),
                           'ply_num': str(g.choice(['%.17g', 'repr'])), 'bcaps_order': [int(o) for o in order],
                           'bcaps_gaps': [int(v) for v in g.integers(0, 3, size=npoly + 1)], 'pad': int(g.integers(0, 2))}
        return case

    def _gen_sequence(self, g):
        """A history of queries and use-mask changes on the SAME polygon objects / the same PolygonList."""
        f32 = bool(g.uniform() < 0.15)
        nobj = int(g.integers(1, 5))
        maxc = int(g.choice([2, 3, 4, 5, 7]))
        polys, targets = [], []
        for p in range(nobj):
            t = unit(g) if not targets or g.uniform() < 0.5 else \
                rotate_from(g, targets[int(g.integers(len(targets)))], float(10 ** g.uniform(-3, -0.5)))
            nc = int(g.integers(2 if g.uniform() < 0.8 else 1, maxc + 1))
            xs, cms, use = gen_polygon(g, nc, 0, t, f32, str(g.choice(['all', 'all', 'random'])))
            polys.append((xs, cms, use))
            targets.append(t)
        order = list(range(nobj))
        if g.uniform() < 0.2:
            order.insert(int(g.integers(0, len(order) + 1)), int(g.integers(nobj)))    # one object at two positions
        pts, exact = gen_points(g, polys, targets, 20, f32)
        ops = []
        for _ in range(int(g.integers(5, 13))):
            o = int(g.integers(nobj))
            nc = len(polys[o][1])
            coords = 'radec' if g.uniform() < 0.25 else 'xyz'
            r = g.uniform()
            if r < 0.4:
                ops.append(['poly', o, int(g.choice([0, 0, 1, 1, 2, max(nc - 1, 0), nc, nc + 2])), coords])
            elif r < 0.65:
                ops.append(['window', int(g.choice([0, 0, 1, 2, maxc, maxc + 2])), coords])
            elif r < 0.78:
                m = int(g.integers(0, nc + 1))
                ops.append(['set', o, [int(v) for v in g.permutation(nc)[:m]], bool(g.uniform() < 0.3),
                            bool(g.uniform() < 0.5), bool(g.uniform() < 0.3)])
            elif r < 0.86:
                ops.append(['assign', o, int(g.integers(0, 1 << nc))])
            elif r < 0.93:
                ops.append(['touch', o, str(g.choice(['cmminf', 'copy', 'ncaps']))])
            else:
                ops.append(['copyq', o, int(g.choice([0, 1, nc])), coords])
        return {'kind': 'sequence', 'f32': f32, 'polys': [{'x': x, 'cm': c, 'use': u} for x, c, u in polys],
                'order': order, 'pts': pts, 'exact': exact, 'ops': ops}

    # ------------------------------------------------------------------ helpers
    def _call(self, out, arm, f, *a, **k):
        """Call pydl; an exception is an observation (clause 'exception') but the other arms still run."""
        try:
            return True, f(*a, **k)
        except Exception as e:
            tb = traceback.extract_tb(e.__traceback__)
            inner = [fr for fr in tb if '/pydl/' in fr.filename]
            site = ('%s:%d %s' % (os.path.basename(inner[-1].filename), inner[-1].lineno, inner[-1].name)) if inner else None
            if not inner:
                raise
            out.fail('exception', '%s: %s: %s' % (arm, type(e).__name__, e), arm=arm, site=site,
                     type=type(e).__name__, traceback=traceback.format_exc()[-1500:])
            return False, None

    def _arrays(self, xs, cms, f32):
        dt = np.float32 if f32 else np.float64
        x = np.array(xs, dtype=np.float64).reshape(-1, 3).astype(dt)
        cm = np.array(cms, dtype=np.float64).reshape(-1).astype(dt)
        return x, cm

    def _bands(self, f32):
        return (R.BAND_F32, R.CENTRE_TOL_F32) if f32 else (R.BAND_F64, R.CENTRE_TOL_F64)

    def _cmp_bool(self, out, clause, got, st, pts, **detail):
        got = np.asarray(got)
        if not out.expect(got.shape == st.shape and got.dtype == np.bool_, clause,
                          'result must be a boolean vector with one entry per point, got shape %s dtype %s' % (
                              got.shape, got.dtype), **detail):
            return False
        dec = st != UND
        out.undecide(int((~dec).sum()))
        out.count('points_decided', int(dec.sum()))
        bad = dec & (got != (st == IN))
        if bad.any():
            j = int(np.nonzero(bad)[0][0])
            out.fail(clause, '%d of %d decided points differ from the definition; first: point #%d %r reported %s, '
                     'reference %s' % (int(bad.sum()), int(dec.sum()), j, pts[j], bool(got[j]),
                                       'inside' if st[j] == IN else 'outside'), point_index=j, **detail)
        else:
            out.checks += 1
        return not bad.any()

    def _cmp_window(self, out, clause, res, first, alt, pts, **detail):
        try:
            flag, idx = res
            flag = np.asarray(flag)
            idx = np.asarray(idx)
        except Exception:
            out.fail(clause, 'is_in_window must return (bool vector, index vector), got %r' % (res,), **detail)
            return False
        n = len(first)
        if not out.expect(flag.shape == (n,) and idx.shape == (n,) and flag.dtype == np.bool_ and idx.dtype.kind == 'i',
                          clause, 'bad shapes/dtypes %s %s %s %s' % (flag.shape, flag.dtype, idx.shape, idx.dtype), **detail):
            return False
        out.expect(bool((flag == (idx >= 0)).all()), clause + ':flag', 'boolean result must be (index >= 0)', **detail)
        bad = []
        und = 0
        for j in range(n):
            if alt[j] is None:
                if int(idx[j]) != int(first[j]):
                    bad.append(j)
            else:
                und += 1
                if int(idx[j]) not in alt[j]:
                    bad.append(j)
        out.undecide(und)
        out.count('points_decided', n - und)
        if bad:
            j = bad[0]
            out.fail(clause, '%d of %d points get the wrong polygon; first: point #%d %r -> %d, reference %s' % (
                len(bad), n, j, pts[j], int(idx[j]), sorted(alt[j]) if alt[j] is not None else int(first[j])),
                point_index=j, **detail)
        else:
            out.checks += 1
        return not bad

    def _changed(self, out, prev, cur):
        """evidence: the reference answer of this query differs from the previous one on the same object."""
        if prev is not None and bool(((prev != cur) & (prev != UND) & (cur != UND)).any()):
            out.count('requery_reference_answer_changed')
            return True
        return False

    def _requery_polygon(self, out, arm, obj, pts, refpoly, values, case_pts, prev=None, touch=False):
        """Ask the SAME polygon object again with other ncaps values; every answer is held to the reference."""
        M = self.M
        for i, v in enumerate(values):
            if touch and i % 2 == 1:
                try:                      # read-only accessors between two queries must not alter later answers
                    obj.cmminf()
                    obj.copy()
                except Exception:
                    out.count('touch_raised')
            st, _ = refpoly(v)
            ok, got = self._call(out, arm + ':requery', M.is_in_polygon, obj, pts, ncaps=v)
            if ok:
                out.count('same_object_requeries')
                self._cmp_bool(out, 'polygon:%s:requery' % arm, got, st, case_pts, ncaps=v,
                               history='same object queried before with other ncaps', sequence=list(values[:i + 1]))
            self._changed(out, prev, st)
            prev = st
        return prev

    def _requery_window(self, out, arm, obj, pts, ref, masks, allcaps, values, case_pts, prev=None, counter=None):
        """Ask the SAME polygon list again with other ncaps values."""
        M = self.M
        for i, v in enumerate(values):
            _, _, first, alt = ref.window(masks, v, allcaps=allcaps)
            ok, res = self._call(out, arm + ':requery', M.is_in_window, obj, pts, ncaps=v)
            if ok:
                out.count('same_object_requeries')
                if counter:
                    out.count(counter)
                self._cmp_window(out, 'window:%s:requery' % arm, res, first, alt, case_pts, ncaps=v,
                                 history='same list queried before with other ncaps', sequence=list(values[:i + 1]))
            if prev is not None and bool((prev != first).any()):
                out.count('requery_reference_answer_changed')
            prev = first
        return prev

    def _note_points(self, out, cms_used, st, near):
        dec = st != UND
        nb = int((dec & (near < 1e-3)).sum())
        out.count('near_boundary_decided', nb)
        return nb

    # ------------------------------------------------------------------ run
    def run(self, case, out):
        k = case['kind']
        if k == 'polygon':
            return self._run_polygon(case, out)
        if k in ('window', 'files'):
            return self._run_window(case, out)
        if k == 'fixture':
            return self._run_fixture(case, out)
        if k == 'use_caps':
            return self._run_use_caps(case, out)
        if k == 'sequence':
            return self._run_sequence(case, out)
        raise KeyError(k)

    # .............................................................. polygon
    def _run_polygon(self, case, out):
        M = self.M
        f32 = case['f32']
        band, ctol = self._bands(f32)
        x, cm = self._arrays(case['x'], case['cm'], f32)
        n = len(cm)
        use, ncp = int(case['use']), int(case['ncaps'])
        pts = np.array(case['pts'], dtype=np.float64)
        pts_ld = R.to_ld_points(pts)
        exact = [tuple(e) for e in case.get('exact', [])]
        if case['coords'] == 'radec':
            out.count('radec_cases')
        if f32:
            out.count('f32_cases')
        if n >= 31:
            if n >= 64:
                out.count('manycaps_64_or_more_caps')
            if use >= 1 << 63:
                out.count('manycaps_mask_ge_2_63')
            if use >= 1 << 31:
                out.count('manycaps_mask_bit31_or_more')
        construct = case.get('construct', 'kwargs')
        if construct == 'noargs':
            poly = M.ManglePolygon()
        else:
            poly = M.ManglePolygon(x=x.copy(), cm=cm.copy(), use_caps=use)
        # --- single caps (exact ties on the bounding circle are decided only in Cartesian float64 cases that ask for it)
        ties_pts = pts if case.get('ties') and pts.shape[1] == 3 and not f32 else None
        table = R.cap_table(x, cm, pts_ld, band, ctol, exact, ties_pts=ties_pts)
        for k in range(n):
            st = table[k][0]
            if ties_pts is not None and table[k][2].any():
                if cm[k] >= 0:
                    out.count('exact_tie_cap_asserted_inside', int(table[k][2].sum()))
                    if cm[k] == 0:
                        out.count('exact_tie_null_cap_centre')
                else:
                    out.count('exact_tie_complement_seen', int(table[k][2].sum()))
            for j, kk in exact:
                if kk == k:
                    if st[j] != UND:
                        out.count('centre_asserted')
                        if abs(float(cm[k])) < band:
                            out.count('centre_tiny_cm_asserted')
            for j, kk in case.get('antipodes', []):
                if kk == k and st[j] != UND:
                    out.count('antipode_asserted')
            ok, got = self._call(out, 'is_in_cap', M.is_in_cap, x[k], cm[k], pts)
            if ok:
                self._cmp_bool(out, 'cap', got, st, case['pts'], cap=k, cm=float(cm[k]), x=case['x'][k])
                if ties_pts is not None and cm[k] < 0 and table[k][2].any():
                    # property: the circle belongs to the cap, hence not to its complement.  Observed, not asserted.
                    out.count('exact_tie_complement_reported_inside', int(np.asarray(got)[table[k][2]].sum()))
        # --- polygon
        st, near = R.combine_caps(table, use, ncp, len(pts))
        if ties_pts is not None:
            st0, _ = R.polygon_status(x, cm, use, ncp, pts_ld, band, ctol, exact)
            out.count('exact_tie_decides_polygon', int(((st0 == UND) & (st == IN)).sum()))
        nuse = n if ncp <= 0 else min(ncp, n)
        used = [k for k in range(nuse) if (use >> k) & 1]
        if len(used) < n:
            if any(not (use >> k) & 1 for k in range(n)):
                out.count('masked_caps_skipped')
            if nuse < n:
                out.count('ncaps_restricting')
        neg = sum(1 for k in used if cm[k] < 0)
        out.count('negative_caps_evaluated', neg)
        ok, got = self._call(out, 'is_in_polygon', M.is_in_polygon, poly, pts, ncaps=ncp)
        if ok:
            good = self._cmp_bool(out, 'polygon', got, st, case['pts'], use=use, ncaps=ncp, cm=case['cm'])
            if not used and good:
                out.count('empty_polygon_all_inside')
                out.expect(bool(np.asarray(got).all()), 'empty', 'a polygon without (used) caps contains every point')
        # --- RA/Dec given in an integer dtype (whole-degree positions, as catalogues and grids deliver them) must be
        #     answered exactly like the same positions given as floats (which the clauses above tie to the definition)
        if case['coords'] == 'radec' and pts.shape[1] == 2:
            ip = np.round(pts)
            ip[:, 1] = np.clip(ip[:, 1], -90, 90)
            dt = ('int64', 'int32', 'int16')[len(case['pts']) % 3]
            ok_f, got_f = self._call(out, 'is_in_polygon', M.is_in_polygon, poly, ip.astype('f8'), ncaps=ncp)
            ok_i, got_i = self._call(out, 'is_in_polygon', M.is_in_polygon, poly, ip.astype(dt), ncaps=ncp)
            if ok_f and ok_i:
                # Both are held to the definition at the rounded positions; inside the ambiguity band the two may
                # differ legitimately (whole-degree points sit exactly ON boundaries of axis caps, and numpy
                # converts int16 degrees through float32: angle error <= 2.4e-7 rad at 360 deg -> float32 band).
                ib = max(band, R.BAND_F32) if dt == 'int16' else band
                st_i, _ = R.polygon_status(x, cm, use, ncp, R.to_ld_points(ip), ib, ctol)
                self._cmp_bool(out, 'radec-integer', got_i, st_i, ip.tolist(), dtype=dt, use=use, ncaps=ncp)
                dec = st_i != UND
                diff = dec & (np.asarray(got_f) != np.asarray(got_i))
                out.expect(not bool(diff.any()), 'radec-integer',
                           'RA/Dec given as %s answered differently from the same positions given as float64 (%d of %d '
                           'decided points)' % (dt, int(diff.sum()), int(dec.sum())))
                out.count('radec_integer_dtype_cases')
        # --- the same object asked again with other ncaps values (state must not stick to the object)
        values = case.get('requery')
        if values is None:
            values = [v for v in (1, 0, n, n + 2) if v != ncp][:3]
        self._requery_polygon(out, 'is_in_polygon', poly, pts, lambda v: R.combine_caps(table, use, v, len(pts)),
                              values, case['pts'], prev=st, touch=True)
        nb = self._note_points(out, used, st, near)
        out.nontrivial = len(used) >= 2 and neg >= 1 and nb >= 1
        out.info.update(n_caps=n, used=used, inside=int((st == IN).sum()), outside=int((st == OUT).sum()),
                        undecided=int((st == UND).sum()))

    # .............................................................. window (+ file formats)
    def _run_window(self, case, out):
        M = self.M
        f32 = case['f32']
        band, ctol = self._bands(f32)
        polys = [self._arrays(p['x'], p['cm'], f32) + (int(p['use']),) for p in case['polys']]
        ncp = int(case['ncaps'])
        pts = np.array(case['pts'], dtype=np.float64)
        pts_ld = R.to_ld_points(pts)
        exact = [tuple(e) for e in case.get('exact', [])]
        if case['coords'] == 'radec':
            out.count('radec_cases')
        if f32:
            out.count('f32_cases')
        ties_pts = pts if case.get('ties') and pts.shape[1] == 3 and not f32 else None
        ref = RefCache(polys, pts_ld, band, ctol, exact, ties_pts=ties_pts)
        masks = [u for _, _, u in polys]
        if ties_pts is not None:
            _, _, _, alt0 = RefCache(polys, pts_ld, band, ctol, exact).window(masks, ncp)
            _, _, _, alt1 = ref.window(masks, ncp)
            out.count('exact_tie_decides_window', sum(1 for a0, a1 in zip(alt0, alt1) if a0 is not None and a1 is None))
        if max(ref.ncs) >= 31:
            out.count('manycaps_window')
            if max(ref.ncs) >= 64:
                out.count('manycaps_64_or_more_caps')
            if max(masks) >= 1 << 63:
                out.count('manycaps_mask_ge_2_63')
            if max(masks) >= 1 << 31:
                out.count('manycaps_mask_bit31_or_more')
        sts, nears, first, alt = ref.window(masks, ncp)
        values = case.get('requery')
        if values is None:
            values = [v for v in (1, 0, max(ref.ncs)) if v != ncp][:2]
        # evidence counters from the reference
        S = np.array(sts)
        nin = (S == IN).sum(axis=0)
        decided = np.array([a is None for a in alt])
        out.count('window_point_in_several', int((decided & (nin >= 2)).sum()))
        out.count('window_point_in_none', int((decided & (first == -1)).sum()))
        nb = 0
        nontriv = False
        for (x, cm, use), st, near in zip(polys, sts, nears):
            nuse = len(cm) if ncp <= 0 else min(ncp, len(cm))
            used = [k for k in range(nuse) if (use >> k) & 1]
            neg = sum(1 for k in used if cm[k] < 0)
            out.count('negative_caps_evaluated', neg)
            if any(not (use >> k) & 1 for k in range(len(cm))):
                out.count('masked_caps_skipped')
            if nuse < len(cm):
                out.count('ncaps_restricting')
            b = self._note_points(out, used, st, near)
            nb += b
            if len(used) >= 2 and neg >= 1 and b >= 1:
                nontriv = True
        out.nontrivial = nontriv
        for j, p, k in exact:
            if R.centre_status(float(polys[p][1][k]), ctol) != UND:
                out.count('centre_asserted')
        if case.get('twins'):
            self._twins_evidence(case, out, ref, masks, ncp)
        # --- arm 1: in-memory polygons
        pl = M.PolygonList([M.ManglePolygon(x=x.copy(), cm=cm.copy(), use_caps=use) for x, cm, use in polys])
        ok, res = self._call(out, 'mem', M.is_in_window, pl, pts, ncaps=ncp)
        if ok:
            out.count('arm_mem')
            self._cmp_window(out, 'window:mem', res, first, alt, case['pts'], ncaps=ncp)
            self._twin_members(out, 'mem', pl, pts, ref, masks, False, ncp, case)
            # the same list again with other ncaps; then one member through is_in_polygon, then the list once more
            prev = self._requery_window(out, 'mem', pl, pts, ref, masks, False, values, case['pts'], prev=first)
            i0 = len(polys) // 2
            self._requery_polygon(out, 'mem_member', pl[i0], pts, lambda v: ref.polygon(i0, masks[i0], v),
                                  [values[-1], ncp] if values else [ncp], case['pts'])
            self._requery_window(out, 'mem', pl, pts, ref, masks, False, [values[0] if values else ncp], case['pts'],
                                 prev=prev, counter='requery_window_after_polygon_on_member')
        out.info.update(npoly=len(polys), first_hist={str(v): int((first == v).sum()) for v in np.unique(first)},
                        undecided=int((~decided).sum()))
        if case['kind'] != 'files':
            return
        # --- file arms
        fmt = case['fmt']
        _, _, first_a, alt_a = ref.window(masks, ncp, allcaps=True)
        rq = (ref, masks, values)
        self._n += 1
        d = os.path.join(self.workdir, 'c12_%d_%d' % (os.getpid(), self._n))
        os.makedirs(d)
        try:
            arms = case.get('arms', ['fits', 'ply', 'balkans'])
            if 'fits' in arms:
                self._arm_fits(case, out, d, polys, pts, ncp, first, alt, rq)
            if 'ply' in arms:
                self._arm_ply(case, out, d, polys, pts, ncp, first_a, alt_a, rq)
            if 'balkans' in arms:
                self._arm_balkans(case, out, d, polys, pts, ncp, first_a, alt_a, rq)
            if max(ref.ncs) >= 31:
                out.count('manycaps_file_arms', len(arms))
        finally:
            shutil.rmtree(d, ignore_errors=True)

    def _fits_table(self, case, polys, layout):
        """structured array in the column order of the repository's polygon.fits."""
        import random
        fmt = case['fmt']
        L = np.random.default_rng(fmt['seed'])
        f32 = case['f32']
        ft = 'f4' if f32 else 'f8'
        npoly = len(polys)
        if layout == 'tdim':
            maxc = case['maxc'] + fmt['pad']
            dt = [('XCAPS', ft, (maxc, 3)), ('CMCAPS', ft, (maxc,))]
        else:
            dt = [('XCAPS', ft, (3,)), ('CMCAPS', ft)]
        if fmt['ifield']:
            dt.append(('IFIELD', 'i4'))
        dt += [('NCAPS', 'i4'), ('WEIGHT', 'f8'), ('PIXEL', 'i4'), ('STR', 'f8'), ('USE_CAPS', 'u4')]
        a = np.zeros(npoly, dtype=dt)
        if layout == 'tdim':
            # padding beyond NCAPS is garbage, never zeros: reading it must not matter
            gx = L.normal(size=(npoly, maxc, 3))
            gx /= np.linalg.norm(gx, axis=2)[:, :, None]
            a['XCAPS'] = gx
            a['CMCAPS'] = L.uniform(-1.5, 1.5, size=(npoly, maxc))
        for i, (x, cm, use) in enumerate(polys):
            if layout == 'tdim':
                a['XCAPS'][i, :len(cm)] = x
                a['CMCAPS'][i, :len(cm)] = cm
            else:
                a['XCAPS'][i] = x[0]
                a['CMCAPS'][i] = cm[0]
            a['NCAPS'][i] = len(cm)
            a['USE_CAPS'][i] = use & 0xFFFFFFFF
            a['WEIGHT'][i] = L.uniform()
            a['PIXEL'][i] = int(L.integers(0, 1000))
            a['STR'][i] = L.uniform(0, 4 * np.pi)
            if fmt['ifield']:
                a['IFIELD'][i] = int(L.integers(0, 100000))
        return a

    def _arm_fits(self, case, out, d, polys, pts, ncp, first, alt, rq):
        M, fits = self.M, self.fits
        layouts = ['tdim']
        if case['fmt']['plain3d']:
            layouts += ['plain3d', 'plain3d_notdim']
        for layout in layouts:
            a = self._fits_table(case, polys, 'tdim' if layout == 'tdim' else 'plain')
            fn = os.path.join(d, 'poly_%s.fits' % layout)
            hdu = fits.BinTableHDU(a)
            if layout == 'plain3d_notdim':
                for key in [k for k in hdu.header if k.startswith('TDIM')]:
                    del hdu.header[key]         # exactly the header of t/polygon_one_cap.fits (MWRFITS)
            hdu.writeto(fn, overwrite=True)
            for conv in (False, True):
                arm = 'fits_%s_%s' % (layout, 'conv' if conv else 'raw')
                ok, poly = self._call(out, arm + ':read', M.read_fits_polygons, fn, convert=conv)
                if not ok:
                    continue
                if not out.expect(len(poly) == len(polys), 'window:' + arm, 'read %d polygons, wrote %d' % (len(poly), len(polys))):
                    continue
                ok, res = self._call(out, arm, M.is_in_window, poly, pts, ncaps=ncp)
                if layout != 'tdim' and not conv:
                    out.count('fits_plain3d_raw')
                if ok:
                    out.count('arm_fits_conv' if conv else 'arm_fits_raw')
                    self._cmp_window(out, 'window:' + arm, res, first, alt, case['pts'], ncaps=ncp, layout=layout)
                    self._twin_members(out, arm, poly, pts, rq[0], rq[1], False, ncp, case)
                    # a single polygon taken out of the table answers like the reference polygon
                    i0 = len(polys) - 1
                    okp, gp = self._call(out, arm + ':is_in_polygon', M.is_in_polygon, poly[i0], pts, ncaps=ncp)
                    ref, masks, values = rq
                    if okp:
                        st, _ = ref.polygon(i0, masks[i0], ncp)
                        self._cmp_bool(out, 'polygon:' + arm, gp, st, case['pts'], polygon=i0)
                    # the objects that were read, asked again with other ncaps
                    self._requery_window(out, arm, poly, pts, ref, masks, False, values if conv else values[:1], case['pts'],
                                         prev=first, counter='requery_file_objects')
        # --- raw tables with other column sets: membership needs XCAPS, CMCAPS, NCAPS, USE_CAPS only; every book-keeping
        #     column (IFIELD, WEIGHT, PIXEL, STR) is present or absent independently, unrelated columns may be added,
        #     the column order is shuffled.  (The converted form requires WEIGHT/PIXEL/STR and is not asked here.)
        L = np.random.default_rng(case['fmt']['seed'] + 3)
        ref, masks, values = rq
        for layout in ['tdim'] + (['plain'] if case['fmt']['plain3d'] else []):
            a = self._fits_table(case, polys, layout)
            geometry_only = bool(L.uniform() < 0.25)
            opt = [] if geometry_only else [c for c in ('IFIELD', 'WEIGHT', 'PIXEL', 'STR')
                                            if c in a.dtype.names and L.uniform() < 0.5]
            extras = [] if geometry_only else [e for e in (('AREA', 'f8'), ('LABEL', 'S8'), ('FLAG', 'i2'), ('IPRIMARY', 'i4'))
                                               if L.uniform() < 0.3]
            cols = [(nm, a.dtype[nm]) for nm in ['XCAPS', 'CMCAPS', 'NCAPS', 'USE_CAPS'] + opt] + extras
            cols = [cols[i] for i in L.permutation(len(cols))]
            b = np.zeros(len(a), dtype=[(c[0], c[1]) for c in cols])
            for nm, _ in cols:
                if nm in a.dtype.names:
                    b[nm] = a[nm]
                elif nm == 'LABEL':
                    b[nm] = [('p%d' % i).encode() for i in range(len(a))]
                else:
                    b[nm] = L.integers(0, 100, len(a))
            fn = os.path.join(d, 'poly_subset_%s.fits' % layout)
            fits.BinTableHDU(b).writeto(fn, overwrite=True)
            arm = 'fits_%s_subset_raw' % layout
            ok, poly = self._call(out, arm + ':read', M.read_fits_polygons, fn)
            if not ok or not out.expect(len(poly) == len(polys), 'window:' + arm, 'read %d polygons, wrote %d' % (len(poly), len(polys))):
                continue
            out.count('fits_raw_column_subset')
            if not all(c in opt for c in ('WEIGHT', 'PIXEL', 'STR')):
                out.count('fits_raw_without_weight_pixel_or_str')
            if geometry_only:
                out.count('fits_raw_geometry_columns_only')
            if extras:
                out.count('fits_raw_extra_columns')
            names = [c[0] for c in cols]
            ok, res = self._call(out, arm, M.is_in_window, poly, pts, ncaps=ncp)
            if ok:
                self._cmp_window(out, 'window:' + arm, res, first, alt, case['pts'], ncaps=ncp, columns=names)
            for i0 in sorted({0, len(polys) - 1}):
                okp, gp = self._call(out, arm + ':is_in_polygon', M.is_in_polygon, poly[i0], pts, ncaps=ncp)
                if okp:
                    st, _ = ref.polygon(i0, masks[i0], ncp)
                    self._cmp_bool(out, 'polygon:' + arm, gp, st, case['pts'], polygon=i0, columns=names)
            self._requery_window(out, arm, poly, pts, ref, masks, False, values[:1], case['pts'], prev=first,
                                 counter='requery_file_objects')

    def _ply_text(self, case, polys):
        fmt = case['fmt']
        L = np.random.default_rng(fmt['seed'] + 1)
        nf = fmt['ply_num']

        def num(v):
            v = float(v)
            return repr(v) if nf == 'repr' else nf % v
        lines = ['%d polygons' % len(polys)]
        lines += ['pixelization 6s', 'snapped', 'balkanized'][:fmt['ply_header']]
        for i, (x, cm, use) in enumerate(polys):
            pid = i if L.uniform() < 0.5 else int(L.integers(0, 100000))
            meta = ['%d caps' % len(cm), '%s weight' % num(L.uniform())]
            if fmt['ply_pixel']:
                meta.append('%d pixel' % int(L.integers(0, 5000)))
            meta.append('%s str' % num(L.uniform(0, 12)))
            lines.append('polygon %*d ( %s):' % (int(L.integers(1, 8)), pid, ', '.join(meta)))
            for k in range(len(cm)):
                sep = ' ' * int(L.integers(1, 4))
                lines.append(sep + sep.join(num(v) for v in x[k]) + sep + num(cm[k]))
        return '\n'.join(lines) + '\n'

    def _arm_ply(self, case, out, d, polys, pts, ncp, first_a, alt_a, rq):
        M = self.M
        fn = os.path.join(d, 'poly.ply')
        with open(fn, 'w') as f:
            f.write(self._ply_text(case, polys))
        ok, poly = self._call(out, 'ply:read', M.read_mangle_polygons, fn)
        if not ok:
            return
        if not out.expect(len(poly) == len(polys), 'window:ply', 'read %d polygons, wrote %d' % (len(poly), len(polys))):
            return
        ok, res = self._call(out, 'ply', M.is_in_window, poly, pts, ncaps=ncp)
        if ok:
            out.count('arm_ply')
            self._cmp_window(out, 'window:ply', res, first_a, alt_a, case['pts'], ncaps=ncp)
            ref, masks, values = rq
            self._twin_members(out, 'ply', poly, pts, ref, masks, True, ncp, case)
            self._requery_window(out, 'ply', poly, pts, ref, masks, True, values[-1:], case['pts'], prev=first_a,
                                 counter='requery_file_objects')

    def _arm_balkans(self, case, out, d, polys, pts, ncp, first_a, alt_a, rq):
        M, W, Table = self.M, self.W, self.Table
        fmt = case['fmt']
        L = np.random.default_rng(fmt['seed'] + 2)
        f32 = case['f32']
        ft = np.float32 if f32 else np.float64
        npoly = len(polys)
        # caps of the polygons stored in shuffled order with junk caps in between
        X, CM = [], []
        icap = [0] * npoly

        def junk(n):
            for _ in range(n):
                v = L.normal(size=3)
                X.append(v / np.linalg.norm(v))
                CM.append(L.uniform(-1.5, 1.5))
        gaps = fmt['bcaps_gaps']
        for pos, pi in enumerate(fmt['bcaps_order']):
            junk(gaps[pos])
            icap[pi] = len(CM)
            x, cm, use = polys[pi]
            for k in range(len(cm)):
                X.append(x[k])
                CM.append(cm[k])
        junk(gaps[-1])
        bl = Table({'IPRIMARY': np.arange(npoly, dtype='i4') + 7, 'IBINDX': L.integers(0, 50, npoly).astype('i4'),
                    'NCAPS': np.array([len(c) for _, c, _ in polys], dtype='i4'), 'ICAP': np.array(icap, dtype='i4'),
                    'WEIGHT': np.ones(npoly), 'STR': L.uniform(0, 1, npoly)})
        bc = Table({'X': np.array(X, dtype=ft).reshape(-1, 3), 'CM': np.array(CM, dtype=ft)})
        rd = os.path.join(d, 'resolve')
        os.makedirs(rd)
        bl.write(os.path.join(rd, 'window_blist.fits'), overwrite=True)
        bc.write(os.path.join(rd, 'window_bcaps.fits'), overwrite=True)
        saved = os.environ.get('PHOTO_RESOLVE')
        os.environ['PHOTO_RESOLVE'] = rd
        try:
            ok, r = self._call(out, 'balkans:read', W.window_read, balkans=True)
        finally:
            if saved is None:
                os.environ.pop('PHOTO_RESOLVE', None)
            else:
                os.environ['PHOTO_RESOLVE'] = saved
        if not ok:
            return
        bk = r['balkans']
        if not out.expect(len(bk) == npoly, 'window:balkans', 'assembled %d polygons from %d' % (len(bk), npoly)):
            return
        # observed, not asserted: the property speaks about the answers of the assembled polygons, not about the mask value
        try:
            full = all(int(u) & ((1 << len(c)) - 1) == (1 << len(c)) - 1 for u, (_, c, _) in zip(bk['USE_CAPS'], polys))
            out.count('balkans_use_caps_has_all_ncaps_bits' if full else 'balkans_use_caps_lacks_some_ncaps_bits')
        except Exception:
            out.count('balkans_use_caps_unreadable')
        ref, masks, values = rq
        ok, res = self._call(out, 'balkans', M.is_in_window, bk, pts, ncaps=ncp)
        if ok:
            out.count('arm_balkans')
            self._cmp_window(out, 'window:balkans', res, first_a, alt_a, case['pts'], ncaps=ncp,
                             icap=icap, ncaps_list=[len(c) for _, c, _ in polys])
            self._twin_members(out, 'balkans', bk, pts, ref, masks, True, ncp, case)
            self._requery_window(out, 'balkans', bk, pts, ref, masks, True, values[:1], case['pts'], prev=first_a,
                                 counter='requery_file_objects')
        # --- the reader asked for the other tables as well (blist / bcaps kept next to the balkans): same polygons
        flags = fmt.get('window_read_flags')
        if flags and any(flags):
            os.environ['PHOTO_RESOLVE'] = rd
            try:
                ok, r2 = self._call(out, 'balkans_with_tables:read', W.window_read, blist=flags[0], bcaps=flags[1], balkans=True)
            finally:
                if saved is None:
                    os.environ.pop('PHOTO_RESOLVE', None)
                else:
                    os.environ['PHOTO_RESOLVE'] = saved
            if ok and out.expect(len(r2['balkans']) == npoly, 'window:balkans_with_tables',
                                 'assembled %d polygons from %d' % (len(r2['balkans']), npoly)):
                ok, res = self._call(out, 'balkans_with_tables', M.is_in_window, r2['balkans'], pts, ncaps=ncp)
                if ok:
                    out.count('arm_balkans_with_other_tables')
                    self._cmp_window(out, 'window:balkans_with_tables', res, first_a, alt_a, case['pts'], ncaps=ncp,
                                     blist=flags[0], bcaps=flags[1])
                    self._twin_members(out, 'balkans_with_tables', r2['balkans'], pts, ref, masks, True, ncp, case)

    # .............................................................. related caps inside one polygon
    def _twins_evidence(self, case, out, ref, masks, ncp):
        """Counters from the reference only: how many decided answers hinge on the LATER cap of a related pair (the one a
        duplicate filter would switch off), for the masks of the case and for all caps used (.ply / balkans arms)."""
        for pi, i, j, rel in case['twins']:
            out.count('twins_' + rel)
        for allcaps in (False, True):
            full = [(1 << n) - 1 for n in ref.ncs] if allcaps else list(masks)
            drop = list(full)
            for pi, i, j, rel in case['twins']:
                if rel in ('complement', 'near_complement', 'annulus') and (full[pi] >> i) & 1:
                    drop[pi] &= ~(1 << j)
            hinge = 0
            for pi in sorted({t[0] for t in case['twins']}):
                if drop[pi] != full[pi]:
                    a, _ = ref.polygon(pi, full[pi], ncp)
                    b, _ = ref.polygon(pi, drop[pi], ncp)
                    hinge += int(((a == OUT) & (b == IN)).sum())
            _, _, f1, a1 = ref.window(full, ncp)
            _, _, f2, a2 = ref.window(drop, ncp)
            nwin = sum(1 for q in range(len(f1)) if a1[q] is None and a2[q] is None and int(f1[q]) != int(f2[q]))
            sfx = '_all_caps_used' if allcaps else ''
            out.count('twins_points_decided_by_the_complement_cap' + sfx, hinge)
            out.count('twins_window_answer_hinges_on_the_complement_cap' + sfx, nwin)

    def _twin_members(self, out, arm, obj, pts, ref, masks, allcaps, ncp, case):
        """is_in_polygon on every member of THIS arm's list that holds a related pair of caps (a window lookup can hide a
        wrong member behind an earlier polygon that contains the point)."""
        tw = case.get('twins')
        if not tw:
            return
        for pi in sorted({t[0] for t in tw}):
            u = (1 << ref.ncs[pi]) - 1 if allcaps else masks[pi]
            st, _ = ref.polygon(pi, u, ncp)
            ok, got = self._call(out, arm + ':is_in_polygon', self.M.is_in_polygon, obj[pi], pts, ncaps=ncp)
            if ok:
                out.count('twins_member_queries')
                self._cmp_bool(out, 'polygon:%s:related_caps' % arm, got, st, case['pts'], polygon=pi, ncaps=ncp,
                               related=[t[1:] for t in tw if t[0] == pi], cm=case['polys'][pi]['cm'])

    # .............................................................. repository fixtures
    def _run_fixture(self, case, out):
        M, fits = self.M, self.fits
        fn = os.path.join(repo_path(), 'pydl', 'pydlutils', 'tests', 't', case['file'])
        polys = []
        if fn.endswith('.fits'):
            with fits.open(fn, uint=True) as h:
                data = h[1].data
                for r in range(len(data)):
                    n = int(data['NCAPS'][r])
                    x = np.array(data['XCAPS'][r], dtype=np.float64).reshape(-1, 3)[:n]
                    cm = np.array(data['CMCAPS'][r], dtype=np.float64).reshape(-1)[:n]
                    polys.append((x, cm, int(data['USE_CAPS'][r])))
        else:
            with open(fn) as f:
                lines = [l.split() for l in f.read().splitlines()]
            i = 0
            while i < len(lines):
                if lines[i] and lines[i][0] == 'polygon':
                    n = int(lines[i][lines[i].index('caps,') - 1])
                    rows = np.array([[float(v) for v in l] for l in lines[i + 1:i + 1 + n]])
                    polys.append((rows[:, :3], rows[:, 3], (1 << n) - 1))
                    i += n
                i += 1
        g = np.random.default_rng(case['seed'])
        lp = [([list(r) for r in x], list(cm), use) for x, cm, use in polys]
        sel = [int(v) for v in g.permutation(len(polys))[:6]]
        targets = []
        for pi in sel:
            x, cm, use = polys[pi]
            k = int(np.argmin(np.where(cm >= 0, cm, 2 + cm)))
            targets.append(rotate_from(g, x[k], float(np.arccos(np.clip(1 - abs(cm[k]), -1, 1)) * g.uniform(0, 1.2))))
        pts, exact = gen_points(g, lp, targets, 20, False)
        pts, exact = finish_points(g, pts, exact, case['coords'])
        ncp = int(case['ncaps'])
        ptsa = np.array(pts)
        if case['coords'] == 'radec':
            out.count('radec_cases')
        ref = RefCache(polys, R.to_ld_points(ptsa), R.BAND_F64, R.CENTRE_TOL_F64, exact)
        masks = [u for _, _, u in polys]
        sts, nears, first, alt = ref.window(masks, ncp)
        values = [v for v in (1, 0, 3) if v != ncp][:2]
        for st, near in zip(sts, nears):
            self._note_points(out, None, st, near)
        out.nontrivial = len(polys) > 1
        out.info.update(file=case['file'], npoly=len(polys), inside=int((first >= 0).sum()))
        if fn.endswith('.fits'):
            for conv in (False, True):
                arm = 'fixture_%s' % ('conv' if conv else 'raw')
                ok, poly = self._call(out, arm + ':read', M.read_fits_polygons, fn, convert=conv)
                if not ok:
                    continue
                ok, res = self._call(out, arm, M.is_in_window, poly, ptsa, ncaps=ncp)
                if case['file'] == 'polygon_one_cap.fits' and not conv:
                    out.count('fits_plain3d_raw')
                if ok:
                    out.count('arm_fits_conv' if conv else 'arm_fits_raw')
                    self._cmp_window(out, 'window:' + arm, res, first, alt, pts, file=case['file'])
                    self._requery_window(out, arm, poly, ptsa, ref, masks, False, values, pts, prev=first,
                                         counter='requery_file_objects')
        else:
            ok, poly = self._call(out, 'fixture_ply:read', M.read_mangle_polygons, fn)
            if ok:
                ok, res = self._call(out, 'fixture_ply', M.is_in_window, poly, ptsa, ncaps=ncp)
                if ok:
                    out.count('arm_ply')
                    self._cmp_window(out, 'window:fixture_ply', res, first, alt, pts, file=case['file'])
                    self._requery_window(out, 'fixture_ply', poly, ptsa, ref, masks, False, values, pts, prev=first,
                                         counter='requery_file_objects')

    # .............................................................. histories on the same objects
    def _run_sequence(self, case, out):
        M = self.M
        f32 = case['f32']
        band, ctol = self._bands(f32)
        polys = [self._arrays(p['x'], p['cm'], f32) + (int(p['use']),) for p in case['polys']]
        order = [int(o) for o in case['order']]
        xyz = np.array(case['pts'], dtype=np.float64)
        radec = to_radec(xyz)
        exact = [tuple(e) for e in case.get('exact', [])]
        refs = {'xyz': RefCache(polys, R.to_ld_points(xyz), band, ctol, exact, order=order),
                'radec': RefCache(polys, R.to_ld_points(radec), band, ctol, (), order=order)}
        pts = {'xyz': xyz, 'radec': radec}
        shown = {'xyz': case['pts'], 'radec': radec.tolist()}
        masks = [u for _, _, u in polys]
        objs = [M.ManglePolygon(x=x.copy(), cm=cm.copy(), use_caps=use) for x, cm, use in polys]
        pl = M.PolygonList([objs[o] for o in order])
        if f32:
            out.count('f32_cases')
        last_poly = {}          # object -> reference status of the last query on it (per coords)
        last_win = {}
        mask_changed = set()
        changed = 0
        hist = []
        for op in case['ops']:
            kind = op[0]
            hist.append(op)
            if kind == 'poly':
                _, o, v, c = op
                st, _ = refs[c].polygon(o, masks[o], v)
                ok, got = self._call(out, 'sequence:is_in_polygon', M.is_in_polygon, objs[o], pts[c], ncaps=v)
                if ok:
                    out.count('same_object_requeries')
                    if o in mask_changed:
                        out.count('requery_after_mask_change')
                    self._cmp_bool(out, 'polygon:sequence', got, st, shown[c], ncaps=v, use=masks[o], object=o,
                                   history=hist[-8:])
                changed += self._changed(out, last_poly.get((o, c)), st)
                last_poly[(o, c)] = st
            elif kind == 'window':
                _, v, c = op
                _, _, first, alt = refs[c].window(masks, v)
                ok, res = self._call(out, 'sequence:is_in_window', M.is_in_window, pl, pts[c], ncaps=v)
                if ok:
                    out.count('same_object_requeries')
                    if mask_changed:
                        out.count('requery_after_mask_change')
                    if last_poly:
                        out.count('requery_window_after_polygon_on_member')
                    self._cmp_window(out, 'window:sequence', res, first, alt, shown[c], ncaps=v, masks=list(masks),
                                     history=hist[-8:])
                if c in last_win and bool((last_win[c] != first).any()):
                    out.count('requery_reference_answer_changed')
                    changed += 1
                last_win[c] = first
            elif kind == 'set':
                _, o, idx, add, adbl, aneg = op
                x, cm, _ = polys[o]
                exp, amb = R.use_caps_ref(x, cm, idx, old_mask=masks[o], add=add, allow_doubles=adbl,
                                          allow_neg_doubles=aneg)
                if amb:
                    out.undecide(1)
                    break
                ok, ret = self._call(out, 'sequence:set_use_caps', M.set_use_caps, objs[o], list(idx), add=add,
                                     allow_doubles=adbl, allow_neg_doubles=aneg)
                if not ok:
                    break
                out.expect(int(ret) == exp and int(objs[o].use_caps) == exp, 'use_caps:sequence',
                           'use_caps=%s / attribute %s, expected %s' % (bin(int(ret)), bin(int(objs[o].use_caps)), bin(exp)),
                           history=hist[-8:], cm=case['polys'][o]['cm'])
                masks[o] = int(objs[o].use_caps)
                mask_changed.add(o)
            elif kind == 'assign':
                _, o, use = op
                objs[o].use_caps = int(use)
                masks[o] = int(use)
                mask_changed.add(o)
            elif kind == 'touch':
                _, o, what = op
                try:
                    if what == 'cmminf':
                        objs[o].cmminf()
                    elif what == 'copy':
                        objs[o].copy()
                    else:
                        objs[o].ncaps
                except Exception:
                    out.count('touch_raised')
            elif kind == 'copyq':
                _, o, v, c = op
                ok, cp = self._call(out, 'sequence:copy', objs[o].copy)
                if ok:
                    st, _ = refs[c].polygon(o, masks[o], v)
                    ok, got = self._call(out, 'sequence:is_in_polygon(copy)', M.is_in_polygon, cp, pts[c], ncaps=v)
                    if ok:
                        self._cmp_bool(out, 'polygon:sequence:copy', got, st, shown[c], ncaps=v, use=masks[o],
                                       object=o, history=hist[-8:])
        out.nontrivial = changed >= 1
        out.info.update(n_objects=len(objs), n_ops=len(case['ops']), reference_answer_changes=changed)

    # .............................................................. set_use_caps
    def _run_use_caps(self, case, out):
        M = self.M
        x = np.array(case['x'], dtype=np.float64).reshape(-1, 3)
        cm = np.array(case['cm'], dtype=np.float64)
        n = len(cm)
        idx = case['index_list']
        arg = {'list': list, 'tuple': tuple, 'ndarray': lambda v: np.array(v, dtype=np.int64),
               'ndarray32': lambda v: np.array(v, dtype=np.int32)}[case['as']](idx)
        kw = {}
        tol = 1e-10
        if case['tol'] is not None:
            kw['tol'] = tol = case['tol']
            if case.get('tol_np'):
                kw['tol'] = np.float64(tol)
        if case['add']:
            kw['add'] = True
        if case['allow_doubles']:
            kw['allow_doubles'] = True
        if case['allow_neg_doubles']:
            kw['allow_neg_doubles'] = True
        old = int(case['old'])
        rinfo = {}
        exp, amb = R.use_caps_ref(x, cm, idx, old_mask=old, add=case['add'], tol=tol, allow_doubles=case['allow_doubles'],
                                  allow_neg_doubles=case['allow_neg_doubles'], info=rinfo)
        if rinfo.get('chain') and not amb:
            out.count('usecaps_chain_dropped_cap_is_no_reference')
        poly = M.ManglePolygon(x=x.copy(), cm=cm.copy(), use_caps=old)
        if amb:
            out.undecide(1)
            out.count('usecaps_undecided_band')
            return
        if n >= 31:
            out.count('manycaps_usecaps')
        ok, ret = self._call(out, 'set_use_caps', M.set_use_caps, poly, arg, **kw)
        if not ok:
            return
        requested = 0
        for i in idx:
            requested |= 1 << i
        if case['add']:
            requested |= old
            out.count('usecaps_add')
        try:
            reti, attr = int(ret), int(poly.use_caps)
        except Exception:
            out.fail('use_caps', 'use_caps is not an integer: %r / %r' % (ret, poly.use_caps))
            return
        out.expect(reti == exp, 'use_caps',
                   'use_caps=%s, expected %s (requested bits %s%s)' % (bin(reti), bin(exp), bin(requested),
                                                                       '' if requested == exp else ', minus later duplicates'),
                   index_list=idx, cm=case['cm'], note=case['note'], kw=kw, old=old)
        out.expect(attr == reti, 'use_caps:attr', 'returned value %r differs from polygon.use_caps %r' % (ret, poly.use_caps))
        # the caps array must not have been touched
        out.expect(np.array_equal(poly.cm, cm) and np.array_equal(poly.x, x), 'use_caps:caps', 'set_use_caps modified the caps')
        # evidence
        nonperm = sorted(idx) != list(range(n))
        if nonperm:
            out.count('usecaps_nonperm')
        if case['allow_doubles']:
            out.count('usecaps_allow_doubles')
        removed = requested & ~exp
        interesting = False
        sel = [k for k in range(n) if (requested >> k) & 1]
        for a in range(len(sel)):
            for b in range(a + 1, len(sel)):
                i, j = sel[a], sel[b]
                dist = float(np.sqrt(((x[i] - x[j]) ** 2).sum()))
                if dist < tol:
                    interesting = True
                    same = abs(cm[i] - cm[j]) < tol
                    twin = abs(cm[i] + cm[j]) < tol
                    if (removed >> j) & 1 and (exp >> i) & 1:
                        out.count('usecaps_twin_removed' if (twin and not same) else 'usecaps_dup_removed')
                    if (exp >> j) & 1 and (exp >> i) & 1:
                        if twin and not same:
                            out.count('usecaps_twin_kept')
                        elif not same:
                            out.count('usecaps_unrelated_same_centre_kept')
                elif dist < 1e-2 and (exp >> j) & 1 and (exp >> i) & 1 and (abs(cm[i] - cm[j]) < tol or abs(cm[i] + cm[j]) < tol):
                    out.count('usecaps_near_centre_kept')
                    interesting = True
                # evidence for the sharpness of the tolerance rule
                related = abs(cm[i] - cm[j]) < tol or (abs(cm[i] + cm[j]) < tol and not case['allow_neg_doubles'])
                if not case['allow_doubles'] and related:
                    ratio = dist / tol
                    if 0.05 < ratio < 1.0 and (removed >> j) & 1 and (exp >> i) & 1:
                        out.count('usecaps_neardup_inside_tol_removed')
                    if 1.0 < ratio < 1.7320 and (exp >> j) & 1 and (exp >> i) & 1:
                        out.count('usecaps_neardup_1_to_sqrt3_tol_kept')
                        if float(np.abs(x[i] - x[j]).max()) < tol:
                            out.count('usecaps_neardup_each_component_inside_tol_kept')
                if not case['allow_doubles'] and dist < tol:
                    for dc in (abs(cm[i] - cm[j]), abs(cm[i] + cm[j])):
                        if 0.4 * tol < dc < 2.5 * tol:
                            out.count('usecaps_cm_difference_near_tol')
        out.nontrivial = nonperm or interesting
        # membership honours the mask just set
        if reti == exp:
            pts = np.array(case['pts'])
            st, _ = R.polygon_status(x, cm, exp, 0, R.to_ld_points(pts), R.BAND_F64, R.CENTRE_TOL_F64)
            ok, got = self._call(out, 'is_in_polygon', M.is_in_polygon, poly, pts)
            if ok:
                self._cmp_bool(out, 'polygon:after_set_use_caps', got, st, case['pts'], use=exp)
        out.info.update(index_list=idx, expected=exp, removed=removed)

    # ------------------------------------------------------------------
    def summarise(self, case):
        c = dict(case)
        if 'pts' in c:
            c['n_points'] = len(c['pts'])
            c['pts'] = c['pts'][:3]
        if 'polys' in c:
            c['n_polys'] = len(c['polys'])
            c['polys'] = c['polys'][:2]
        if 'ops' in c:
            c['ops'] = c['ops'][:8]
        if 'exact' in c:
            c['exact'] = c['exact'][:4]
        return c


CHECK = C12()
