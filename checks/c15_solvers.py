"""C15 - least-squares and factorisation solvers return the optimum they claim.

Events : attributes of real ``computechi2`` / ``pcomp`` objects; the dict returned by the real
         ``pca_solve``; **icontract contracts installed on the real ``HMF.astep / gstep / astepnn /
         gstepnn / normbase``** so that every factor update performed by the real ``HMF.solve()`` is
         observed (not a re-enactment), plus the dict ``solve()`` returns and the caller's arrays.
Oracle : vlib/refs/lsq.py - long-double QR least squares, explicit correlation/covariance sums,
         closed-form normal-equation residuals and objective of the HMF sub-problems.
"""
import numpy as np
from vlib.harness import Check, np_rng
from vlib.monitors import MonitorViolation
from vlib.refs import lsq as R

EPS = R.EPS
EPS32 = R.EPS32

# --- tolerances (derivations in RULE / report) -------------------------------------------------
TOL_RES = 1e-8      # HMF: component-wise relative residual of a sub-problem's normal equations
TOL_MONO = 1e-9     # HMF: relative increase of the objective tolerated as rounding
TOL_RMS = 1e-12     # HMF: |rms(g_k) - 1|
MONO_EVAL = 100.0   # HMF: multiple of the first-order bound on the rounding error of evaluating the objective (high S/N)
TOL_PCOMP = 1e-10   # pcomp: reconstruction / eigenvalues, relative to the largest matrix entry
TOL_SUM = 1e-12     # pcomp: |sum(variance) - 1|
TOL_PROJ = 1e-5     # pca_solve: relative normal-equation residual (eigenspectra are returned as float32)
CHI2_SELF = 30.0    # computechi2: multiple of the residual-evaluation bound for "chi2 is the chi-square of the returned fit" (clean code <= 0.8 % of it)
CHI2_SAFETY = 3e3   # computechi2: multiple of the first-order error bound eps*cond*|mm^-1||rhs|
COND_MAX = 1e6      # computechi2: generated cond(A^T W A)


# =================================================================================================
# HMF monitor: state shared by the contract conditions below
# =================================================================================================
class HMFMonitor:
    def __init__(self):
        self.evals = {}          # condition name -> number of evaluations (whole shard)
        self.maxima = {}         # name -> worst value observed (whole shard)
        self.reset_run()

    def reset_run(self, nonneg_data=False):
        self.failure = None      # (clause, msg, detail) of the first rejected condition of this solve()
        self.last_chi2 = None    # chi^2 of a.g after the most recent factor update
        self.last_err = 0.0      # bound on the rounding error of evaluating it
        self.nonneg_data = nonneg_data
        self.zero_component = False   # normbase() was asked to normalise an identically zero component (kmeans cluster of zero spectra)
        self.direct = False      # astep()/gstep() called directly by the check: the iteration-level preconditions do not apply
        self.updates = {'astep': 0, 'gstep': 0, 'astepnn': 0, 'gstepnn': 0, 'normbase': 0}

    def seen(self, name):
        self.evals[name] = self.evals.get(name, 0) + 1

    def worst(self, name, v):
        v = float(v)
        if name not in self.maxima or not v <= self.maxima[name]:      # NaN propagates
            self.maxima[name] = v

    def reject(self, clause, msg, **detail):
        if self.failure is None:
            self.failure = (clause, msg, detail)
        return False


MON = HMFMonitor()


def _eps_of(h):
    return h.epsilon


def _objective(h, a, g):
    """(chi^2, chi^2 + penalty, bound on the rounding error of evaluating them) - independent of HMF.badness()"""
    c = R.hmf_chi2(h.spectra, h.invvar, a, g)
    return c, c + R.hmf_penalty(g, _eps_of(h)), R.hmf_objective_eval_error(h.spectra, h.invvar, a, g, _eps_of(h))


def _increase(name, before, after, err):
    """objective increase as a fraction of what rounding may produce: TOL_MONO relative + MONO_EVAL x evaluation bound"""
    if not (np.isfinite(before) and np.isfinite(after) and np.isfinite(err)):
        return float('inf')
    allow = TOL_MONO * abs(before) + MONO_EVAL * err + np.finfo(float).tiny
    ratio = (after - before) / allow
    MON.worst(name + '/allowed', max(ratio, 0.0))
    MON.worst(name + '/evalbound', max((after - before) / (err + np.finfo(float).tiny), 0.0))
    return ratio


# ---- snapshot -----------------------------------------------------------------------------------
def factors_before_update(self):
    """copies of (a, g) as they are when the update is called (the steps return new arrays, but a
    correct implementation might as well update in place - the oracle must not depend on that)"""
    return (np.array(self.a, dtype=np.float64, copy=True), np.array(self.g, dtype=np.float64, copy=True))


# ---- preconditions of the a-updates (they open every iteration) -------------------------------------
def components_have_unit_rms_on_entry(self):
    if MON.direct:
        return True
    MON.seen('components_have_unit_rms_on_entry')
    dev = float(np.max(np.abs(R.rms_rows(self.g) - 1.0)))
    MON.worst('rms_deviation', dev)
    return dev <= TOL_RMS or MON.reject(
        'unit-rms', 'components not normalised to unit rms when an iteration starts: max |rms-1| = %.3g' % dev,
        rms=R.rms_rows(self.g))


def chi2_not_increased_since_last_update(self):
    if MON.direct:
        return True
    MON.seen('chi2_not_increased_since_last_update')
    if MON.last_chi2 is None:
        return True
    c, _, err = _objective(self, np.asarray(self.a, dtype=np.float64), np.asarray(self.g, dtype=np.float64))
    inc = _increase('chi2_increase_between_updates', MON.last_chi2, c, err + MON.last_err)
    return inc <= 1.0 or MON.reject(
        'chi2-monotone', 'chi-square of a.g rose from %.17g (after the last factor update) to %.17g before the next one '
        '(reorder/normalisation must not change the model)' % (MON.last_chi2, c))


# ---- astep ----------------------------------------------------------------------------------------
def astep_is_weighted_lsq_optimum(self, result, OLD):
    MON.seen('astep_is_weighted_lsq_optimum')
    MON.updates['astep'] += 1
    g0 = OLD.factors[1]
    N = self.spectra.shape[0]
    if np.shape(result) != (N, g0.shape[0]):
        return MON.reject('a-optimum', 'astep returned shape %r' % (np.shape(result),))
    rel = R.hmf_astep_residual(self.spectra, self.invvar, g0, np.asarray(result, dtype=np.float64))
    MON.worst('astep_residual', rel)
    return rel <= TOL_RES or MON.reject(
        'a-optimum', 'coefficient update is not the weighted least-squares optimum given g: relative residual of '
        'G_i a_i = F_i (= -1/2 gradient) is %.3g' % rel)


def astep_does_not_increase_badness(self, result, OLD):
    MON.seen('astep_does_not_increase_badness')
    a0, g0 = OLD.factors
    _, b0, e0 = _objective(self, a0, g0)
    c1, b1, e1 = _objective(self, np.asarray(result, dtype=np.float64), g0)
    MON.last_chi2, MON.last_err = c1, e1
    e1 += R.hmf_solver_excess(self.invvar, g0, np.asarray(result, dtype=np.float64), 'a')
    inc = _increase('astep_badness_increase', b0, b1, e0 + e1)
    return inc <= 1.0 or MON.reject('chi2-monotone', 'astep raised the badness from %.17g to %.17g' % (b0, b1))


# ---- gstep ----------------------------------------------------------------------------------------
def gstep_solves_per_pixel_equations(self, result, OLD):
    MON.seen('gstep_solves_per_pixel_equations')
    MON.updates['gstep'] += 1
    a0, g0 = OLD.factors
    if np.shape(result) != g0.shape:
        return MON.reject('g-optimum', 'gstep returned shape %r' % (np.shape(result),))
    rel = R.hmf_gstep_residual(self.spectra, self.invvar, a0, g0, np.asarray(result, dtype=np.float64), _eps_of(self))
    MON.worst('gstep_residual', rel)
    return rel <= TOL_RES or MON.reject(
        'g-optimum', 'component update does not solve (A_j + d_j) g_j = F_j + e_j(g_old) (epsilon=%r): relative '
        'residual %.3g' % (self.epsilon, rel))


def gstep_does_not_increase_badness(self, result, OLD):
    MON.seen('gstep_does_not_increase_badness')
    a0, g0 = OLD.factors
    _, b0, e0 = _objective(self, a0, g0)
    c1, b1, e1 = _objective(self, a0, np.asarray(result, dtype=np.float64))
    MON.last_chi2, MON.last_err = c1, e1
    e1 += R.hmf_solver_excess(self.invvar, a0, np.asarray(result, dtype=np.float64), 'g', _eps_of(self))
    inc = _increase('gstep_badness_increase', b0, b1, e0 + e1)
    return inc <= 1.0 or MON.reject(
        'chi2-monotone', 'gstep (epsilon=%r) raised the badness from %.17g to %.17g' % (self.epsilon, b0, b1))


# ---- non-negative updates ----------------------------------------------------------------------------
def _nonneg_finite(x):
    x = np.asarray(x)
    return bool(np.isfinite(x).all() and (x >= 0).all())


def astepnn_keeps_coefficients_nonnegative(self, result):
    MON.seen('astepnn_keeps_coefficients_nonnegative')
    MON.updates['astepnn'] += 1
    if not MON.nonneg_data:
        return True
    return _nonneg_finite(result) or MON.reject(
        'nonnegative', 'astepnn produced negative or non-finite coefficients on non-negative data',
        min=float(np.nanmin(result)), finite=bool(np.isfinite(result).all()))


def astepnn_does_not_increase_chi2(self, result, OLD):
    MON.seen('astepnn_does_not_increase_chi2')
    a0, g0 = OLD.factors
    _, b0, e0 = _objective(self, a0, g0)
    c1, b1, e1 = _objective(self, np.asarray(result, dtype=np.float64), g0)
    MON.last_chi2, MON.last_err = c1, e1
    inc = _increase('astepnn_badness_increase', b0, b1, e0 + e1)
    return inc <= 1.0 or MON.reject('chi2-monotone', 'astepnn raised chi-square from %.17g to %.17g' % (b0, b1))


def gstepnn_keeps_components_nonnegative(self, result):
    MON.seen('gstepnn_keeps_components_nonnegative')
    MON.updates['gstepnn'] += 1
    if not MON.nonneg_data:
        return True
    return _nonneg_finite(result) or MON.reject(
        'nonnegative', 'gstepnn produced negative or non-finite components on non-negative data',
        min=float(np.nanmin(result)), finite=bool(np.isfinite(result).all()))


def gstepnn_does_not_increase_badness(self, result, OLD):
    MON.seen('gstepnn_does_not_increase_badness')
    a0, g0 = OLD.factors
    _, b0, e0 = _objective(self, a0, g0)
    c1, b1, e1 = _objective(self, a0, np.asarray(result, dtype=np.float64))
    MON.last_chi2, MON.last_err = c1, e1
    inc = _increase('gstepnn_badness_increase', b0, b1, e0 + e1)
    return inc <= 1.0 or MON.reject(
        'chi2-monotone', 'gstepnn (epsilon=%r) raised the badness from %.17g to %.17g' % (self.epsilon, b0, b1))


# ---- normbase -----------------------------------------------------------------------------------------
def normbase_is_rms_of_components(self, result):
    MON.seen('normbase_is_rms_of_components')
    MON.updates['normbase'] += 1
    want = R.rms_rows(self.g)
    if not (want > 0).all():
        MON.zero_component = True        # a component that is identically zero (or already non-finite) is being normalised
    if np.shape(result) != want.shape:
        return MON.reject('unit-rms', 'normbase returned shape %r' % (np.shape(result),))
    dev = float(np.max(np.abs(np.asarray(result, dtype=np.float64) - want) / np.maximum(want, np.finfo(float).tiny)))
    MON.worst('normbase_deviation', dev)
    return dev <= TOL_RMS or MON.reject('unit-rms', 'normbase is not the rms of each component (relative deviation %.3g)' % dev,
                                        got=result, want=want)


def _violation(name):
    def error(self):
        return MonitorViolation('C15 contract %s rejected a call of HMF (epsilon=%r, nonnegative=%r)' % (
            name, self.epsilon, self.nonnegative))
    return error


CONTRACTS = {
    'astep': dict(require=[components_have_unit_rms_on_entry, chi2_not_increased_since_last_update],
                  ensure=[astep_is_weighted_lsq_optimum, astep_does_not_increase_badness], snapshot=True),
    'gstep': dict(require=[], ensure=[gstep_solves_per_pixel_equations, gstep_does_not_increase_badness], snapshot=True),
    'astepnn': dict(require=[components_have_unit_rms_on_entry, chi2_not_increased_since_last_update],
                    ensure=[astepnn_keeps_coefficients_nonnegative, astepnn_does_not_increase_chi2], snapshot=True),
    'gstepnn': dict(require=[], ensure=[gstepnn_keeps_components_nonnegative, gstepnn_does_not_increase_badness], snapshot=True),
    'normbase': dict(require=[], ensure=[normbase_is_rms_of_components], snapshot=False),
}


def install_contracts(cls):
    """Decorate the real methods in place; returns {name: original} for teardown."""
    import icontract
    saved = {}
    for name, spec in CONTRACTS.items():
        if name not in cls.__dict__:
            continue
        orig = cls.__dict__[name]
        f = orig
        for cond in reversed(spec['ensure']):
            f = icontract.ensure(cond, error=_violation(cond.__name__), enabled=True)(f)
        if spec['snapshot']:
            f = icontract.snapshot(factors_before_update, name='factors', enabled=True)(f)
        for cond in reversed(spec['require']):
            f = icontract.require(cond, error=_violation(cond.__name__), enabled=True)(f)
        setattr(cls, name, f)
        saved[name] = orig
    return saved


# =================================================================================================
# generators
# =================================================================================================
def _spectral_matrix(g, N, M, K, nonneg, maskfrac, junk):
    """rank-K + noise matrix with inverse variances and random masked pixels (float64)."""
    x = np.linspace(0.0, 1.0, M)
    comps = np.zeros((K, M))
    for k in range(K):
        c = g.uniform(0.2, 1.0) + 0.3 * g.normal()
        for _ in range(int(g.integers(1, 4))):
            c = c + g.normal() * np.sin(2 * np.pi * (g.uniform(0.5, 4.0) * x + g.uniform()))
        for _ in range(int(g.integers(0, 3))):
            c = c + g.uniform(-2, 3) * np.exp(-0.5 * ((x - g.uniform()) / g.uniform(0.01, 0.08)) ** 2)
        comps[k] = c
    coef = g.normal(size=(N, K)) + g.uniform(0, 2)
    if nonneg:
        comps = np.abs(comps) + 0.05
        coef = np.abs(coef) + 0.05
    coef *= 10.0 ** g.uniform(-0.5, 0.5, size=(1, K))
    scale = 10.0 ** (g.uniform(-1, 2) if g.uniform() < 0.8 else g.uniform(-5, 5))      # data in other units
    clean = coef @ comps
    amp = np.sqrt(np.mean(clean ** 2))
    noise = 10.0 ** (g.uniform(-2.5, -0.5) if g.uniform() < 0.85 else g.uniform(-6.5, -2.5))   # S/N up to 3e6
    sig = noise * amp * g.uniform(0.5, 2.0, size=(N, M))
    s = (clean + sig * g.normal(size=(N, M))) * scale / amp
    w = 1.0 / (sig * scale / amp) ** 2
    if nonneg:
        s = np.maximum(s, 0.0)
    good = g.uniform(size=(N, M)) >= maskfrac
    need_col = min(N, K + 3)
    need_row = min(M, K + 6)
    for j in range(M):
        bad = np.flatnonzero(~good[:, j])
        short = need_col - (N - bad.size)
        if short > 0:
            good[g.choice(bad, size=short, replace=False), j] = True
    for i in range(N):
        bad = np.flatnonzero(~good[i, :])
        short = need_row - (M - bad.size)
        if short > 0:
            good[i, g.choice(bad, size=short, replace=False)] = True
    w = np.where(good, w, 0.0)
    if junk == 'zero':
        s = np.where(good, s, 0.0)
    elif junk == 'wild':
        s = np.where(good, s, np.abs(s) * 50.0 + scale)
    # no column may sum to exactly zero (documented limitation of HMF)
    for j in range(M):
        if s[:, j].sum() == 0 or (s[:, j] * w[:, j]).sum() == 0:
            s[good[:, j], j] += 0.01 * scale
    return s, w


def _same_bits(a, b):
    a, b = np.asarray(a), np.asarray(b)
    return a.shape == b.shape and a.dtype == b.dtype and a.tobytes() == b.tobytes()


def _bits(v):
    a = np.asarray(v)
    return (a.dtype.str, a.shape, a.tobytes())


def _freeze(d):
    return {k: _bits(v) for k, v in d.items()}


def _scribble(v):
    """overwrite a returned array in place with different values"""
    if v.dtype == bool:
        v[...] = ~v
    elif v.dtype.kind in 'iu':
        v[...] = v + 1
    else:
        v[...] = np.where(np.isfinite(v), v * 1.5 + 1.0, 0.0)


def live_objects(out, tag, factories, orders, exempt=(), volatile=()):
    """Results of several live objects / calls must stay what they were and must not alias one another.

    factories : [(label, make)]; ``make()`` builds the object (or calls the function) on its own input arrays and returns
                ``(read, inputs)``: ``read(order)`` -> {name: result} (re-reads every result, in the given order),
                ``inputs`` -> {name: caller's array}.  Objects are built and fully read one after the other.
    exempt    : frozensets {name1, name2} of results of ONE object that are documented to be the same data
    volatile  : results recomputed from other results at every read (excluded from the write probe only)
    Clauses: <tag>-live-objects (a result changed after another object was evaluated), <tag>-alias (two results, or a
    result and an input, share memory), <tag>-write-through (writing into one returned array changed another result/input).
    """
    live = []
    for i, (label, make) in enumerate(factories):
        read, inputs = make()
        fin = _freeze(inputs)
        res = read(orders[i % len(orders)])
        live.append((label, read, inputs, res, _freeze(res), fin))
    # (1) every result of every object read again after all the others were evaluated
    for i, (label, read, inputs, res, frozen, fin) in enumerate(live):
        again = read(orders[(i + 1) % len(orders)])
        for k in frozen:
            out.expect(k in again and _bits(again[k]) == frozen[k], tag + '-live-objects',
                       '%s.%s changed after %d other object(s)/call(s) had been evaluated (first object: %s)' % (
                           label, k, len(live) - 1, live[0][0]))
            out.count('live_%s_rereads' % tag)
    # (2) no two results, and no result and caller's array, share memory
    arrs = []
    for label, read, inputs, res, frozen, fin in live:
        arrs += [(label, k, v) for k, v in res.items() if isinstance(v, np.ndarray) and v.ndim > 0]
        arrs += [(label, 'input:' + k, v) for k, v in inputs.items()]
    for i in range(len(arrs)):
        for j in range(i + 1, len(arrs)):
            (la, ka, va), (lb, kb, vb) = arrs[i], arrs[j]
            if ka.startswith('input:') and kb.startswith('input:'):
                continue
            out.count('alias_pairs_checked')
            if np.shares_memory(va, vb):
                if la == lb and frozenset((ka, kb)) in exempt:
                    out.count('alias_documented:%s %s/%s' % (tag, *sorted((ka, kb))))
                    continue
                out.fail(tag + '-alias', '%s.%s and %s.%s share memory' % (la, ka, lb, kb))
    # (3) write into each returned array; every other result (of every object) and every input must be unaffected
    dirty = set()
    for label, read, inputs, res, frozen, fin in live:
        for k, v in res.items():
            if not (isinstance(v, np.ndarray) and v.ndim > 0 and v.size and v.flags.writeable):
                continue
            _scribble(v)
            dirty.add((label, k))
            for e in exempt:
                if k in e:
                    dirty.update((label, kk) for kk in e)
            out.count('alias_write_probes')
            for l2, read2, inputs2, res2, frozen2, fin2 in live:
                now = read2(orders[0])
                for k2 in frozen2:
                    if (l2, k2) in dirty or k2 in volatile:
                        continue
                    if not (k2 in now and _bits(now[k2]) == frozen2[k2]):
                        out.fail(tag + '-write-through', 'writing into %s.%s changed %s.%s' % (label, k, l2, k2))
                        dirty.add((l2, k2))
                for k2, v2 in inputs2.items():
                    if ('in', l2, k2) not in dirty and _bits(v2) != fin2[k2]:
                        out.fail(tag + '-write-through', 'writing into %s.%s changed the caller\'s array %s of %s' % (label, k, k2, l2))
                        dirty.add(('in', l2, k2))


def _plant_zero_spectra(rng, s, w, K, nonneg, p_zero=0.1, p_spike=0.06, forbid=()):
    """Standing sub-class (F-P2): one or two spectra that are identically zero *with positive weights* (an object that was
    observed and has no flux, or whose flux the non-negative mode clipped away), or that are zero except in one pixel.
    In the default mode they are only planted where the pixel sub-problems keep full rank without them (N >= K + 4).
    Returns (rows that are identically zero, rows with a single non-zero pixel); s is modified in place."""
    N, M = s.shape
    if not nonneg and N < K + 4:
        return [], []
    if N < K + 3:
        # fewer spectra with signal than components is not a factorisation problem (the components are initialised from the
        # spectra that have signal: F-P3)
        return [], []
    if nonneg:
        p_zero, p_spike = max(p_zero, 0.15), 0.15
    r = rng.random()
    cand = [i for i in range(N) if i not in forbid and (w[i] > 0).sum() >= 2]
    if not cand or r >= p_zero + p_spike:
        return [], []
    keep = s.copy()
    zero, spike = [], []
    if r < p_zero:
        zero = sorted(rng.sample(cand, 2 if (len(cand) >= 2 and N >= K + 6 and rng.random() < 0.3) else 1))
        s[zero, :] = 0.0
    else:
        i = rng.choice(cand)
        pix = np.flatnonzero(w[i] > 0)
        if not nonneg:
            # default mode: kmeans may make this spectrum a component of its own, supported on one pixel; a spectrum in which that
            # pixel is masked then has a singular G_i (LinAlgError on HEAD - outside the full-rank domain): use a pixel nobody masks
            pix = np.flatnonzero((w > 0).all(0))
        if pix.size == 0:
            return [], []
        j = int(rng.choice(pix.tolist()))
        v = abs(s[i, j]) + 0.1 * float(np.sqrt(np.mean(keep ** 2)))
        s[i, :] = 0.0
        s[i, j] = v
        spike = [i]
    if (s.sum(0) == 0).any() or ((s * w).sum(0)[(w.sum(0) > 0)] == 0).any():
        s[...] = keep                      # would create an all-zero column (documented limitation) - leave the case as it was
        return [], []
    return zero, spike


def _check_zero_spectra(out, case, a, where):
    """the coefficients of a spectrum that is identically zero (with positive weights) are zero: the unique optimum"""
    rows = case.get('zero_spectra') or []
    if not rows:
        return
    big = float(np.max(np.abs(a))) if a.size else 0.0
    worst = float(np.max(np.abs(a[rows]))) if np.isfinite(a[rows]).all() else float('inf')
    out.expect(worst <= 1e-12 * big, 'zero-spectrum',
               '%s: coefficients of the identically zero spectra %r are not zero (max |a| = %.3g, largest coefficient %.3g)' % (
                   where, rows, worst, big))


def _count_planted(out, case):
    mode = 'nonneg' if case['nonnegative'] else 'default'
    if case.get('zero_spectra'):
        out.count('hmf_zero_spectrum_cases_' + mode)
    if case.get('spike_spectra'):
        out.count('hmf_single_pixel_spectrum_cases_' + mode)


def _contract_failure(out, e, where):
    """A contract rejected a call.  (The mechanism F-P3 - kmeans gives the identically zero spectra a cluster of their own, that
    initial component is identically zero, normbase() is 0 and g /= 0 turns every component and coefficient into NaN - was
    reported by this check, repaired in /repo (001fee1) and is asserted like everything else since; the observation that a
    zero component was normalised is kept in the message.)"""
    clause, msg, detail = MON.failure or ('contract', str(e), {})
    if MON.zero_component:
        msg += ' [an identically zero component was handed to normbase()]'
    out.fail(clause, '%s [%s; %s]' % (msg, e, where), **detail)


def _lists(a):
    return np.asarray(a).tolist()


class C15(Check):
    ID = 'C15'
    RULE = ('computechi2 on full-rank A (10-200 x 1-8, column scales 1e-1.5..1e1.5, near-collinear columns, polynomial '
            'bases, cond(A^T W A) <= 1e6) with 0-60 % random zero weights, float64 and the pipeline\'s float32 b/sqivar, '
            'lazy attributes read in random order, against long-double QR; pcomp on N x M data with N > M and N <= M, '
            'correlation and covariance, standardize on/off, offsets up to 1e3 sigma; real HMF.solve() under icontract '
            'contracts on astep/gstep/astepnn/gstepnn/normbase for rank-K+noise matrices (N 10-60, M 40-200 [quick: 10-40 x 40-140], K 1-5, '
            '0-15 % masked pixels with zero/wild/untouched flux, negative fluxes in default mode), epsilon in '
            '{None,0,0.1,10,1e3}, n_iter 2-8, each solved twice with the same seed under different global RNG state; '
            'hmf_order: programs of constructions / solves / unrelated numpy.random use (two seeded objects built then solved, draws or '
            'np.random.seed between construction and solve, solve() twice or three times on one object, interleaving with a '
            'different-seed object, random programs of up to 5 objects) - every solve of an equal-seed object must be bitwise identical; '
            'computechi2/pcomp: second object of the same input read in the opposite order and all attributes re-read after an object '
            'of different input was built and read; pca_solve called again after a call on different data; '
            'chi2_highsnr: |b| = 1e3..1e8 sigma (float32: 10^2.5..10^5) on random / polynomial / pixel-number polynomial (<= 1000 pixels, cond <= 1e13) / '
            'continuum+line bases, data in units 1e-6..1e6, incl. all-float32 input; reported chi2 compared with sum w (b - returned yfit)^2 '
            'within 30 x the residual-evaluation bound; HMF data with S/N up to 3e6 and units 1e-5..1e5, HMF.badness() compared with the '
            'chi-square of the returned factors; standing sub-classes: seed=0, epsilon=0.0, 2-variable pcomp; '
            'shape boundaries: computechi2 N == M (non-symmetric square), M+1, M+2, (N,1), 1x1, zero weights leaving exactly M / M+1 used rows; '
            'pcomp nobs == nvar, nvar +- 1; pcomp_design: variables that are small-integer combinations of balanced orthogonal two-level '
            'design columns (Hadamard order 8-64, replicated, shuffled; integer / power-of-two / arbitrary units, int64 and float64), so the '
            'matrix is exactly block diagonal (isolated variable first / last / in the middle), exactly diagonal, has an exactly '
            'equal-variance pair or an exactly duplicated variable - eigenvectors with exactly zero loadings, loadings summing to exactly '
            'zero, tied and exactly zero eigenvalues; HMF with N == K, K+1, K == 1, M == K+1, K+2; pca_solve with nobj == nkeep, nkeep == 1, npix == nkeep+1, '
            'npix == nobj, nobj+1; '
            'hmf_direct: astep/gstep/astepnn/gstepnn called directly on objects whose a, g were set (random, or from a solve), incl. pixels without '
            'data in any spectrum for epsilon > 0 and spectra without data, exact-optimum steps also compared with an independent dense SVD '
            'least-squares solve; hmf_large_n: 1000/1024/2000/2001/2048/4097 spectra solved twice with one seed under different global RNG states; '
            'standing sub-class F-P2 (10-20 % of the HMF cases, both modes): one or two identically zero spectra with positive weights, or a spectrum '
            'that is zero except in one pixel - all clauses apply and the zero spectrum must get zero coefficients; '
            'pca_solve on float32 rank-K+noise spectra with masked pixels and fully masked columns, nkeep 1-4, niter 1-8, '
            'maxiter 0-2.  Non-trivial: computechi2 with >= 2 columns and >= 1 zero weight; pcomp with >= 2 variables; '
            'HMF with masked pixels and K >= 2; pca_solve with masked pixels and nkeep >= 2; distinct by hash of the input.')
    ASSUMPTIONS = [
        'computechi2: tolerance per case = 3e3 * eps(working dtype) * cond(A^T W A) * |mm^-1| |A^T W b| (first-order forward '
        'error of an explicit-inverse normal-equation solve) + eps(b dtype) |b~| / smin; A is 2-D (N, M) as documented',
        'pcomp: at least 2 observations, no constant column in correlation/standardize mode (correlation undefined); '
        'derived == data . coefficients asserted for standardize=False only (DESIGN C15 D)',
        'HMF: float64 input, every pixel observed by >= K+3 objects and every object by >= K+6 pixels (full-rank '
        'sub-problems, the analogue of "full-rank system"), no all-zero columns (documented limitation); for epsilon > 0 '
        'the g-update asserted is the Jacobi step the code documents, whose objective is provably non-increasing '
        '(2D - H = blockdiag(A_j) + eps * signless Laplacian >= 0)',
        'HMF non-negative mode (non-negative data only): non-negativity/finiteness asserted on every update; the multiplicative '
        'updates are x <- x - K^-1 (Qx - b) with K = diag((Q+ x)_i / x_i), so the objective changes by -v^T (2K - Q) v and '
        '2K - Q = (K - Q+) + diag((A x)/x) + eps * signless Laplacian >= 0 (Lee-Seung lemma for the entrywise non-negative Q+): '
        'badness (chi-square + smoothness penalty) non-increase is therefore asserted for astepnn and gstepnn at every epsilon',
        'pca_solve: float32 input as in the pipeline, nkeep <= generated rank, npix > nobj + nkeep; projections checked '
        'through the normal-equation residual relative to sum |G| w (|y| + |G||a|), because the eigenspectra are returned '
        'rounded to float32 (eps32 = 1.2e-7, tolerance 1e-5)',
    ]
    REQUIRED_COUNTERS = ('hmf_masked_edge_columns', 'chi2_cond_above_1e8', 
        'contract:components_have_unit_rms_on_entry', 'contract:chi2_not_increased_since_last_update',
        'contract:astep_is_weighted_lsq_optimum', 'contract:astep_does_not_increase_badness',
        'contract:gstep_solves_per_pixel_equations', 'contract:gstep_does_not_increase_badness',
        'contract:astepnn_keeps_coefficients_nonnegative', 'contract:astepnn_does_not_increase_chi2',
        'contract:gstepnn_keeps_components_nonnegative', 'contract:gstepnn_does_not_increase_badness',
        'contract:normbase_is_rms_of_components',
        'hmf_solves', 'hmf_gstep_smooth_updates', 'hmf_same_seed_pairs', 'hmf_default_negative_flux_runs',
        'hmf_order_equal_seed_comparisons', 'hmf_order_resolves_of_one_object', 'hmf_order:build2_solve2', 'hmf_order:draw_between',
        'hmf_order:solve_twice', 'hmf_order:interleave_other_seed', 'hmf_order:reseed_between', 'hmf_order:random_program',
        'stale_chi2_rereads', 'stale_pcomp_rereads', 'stale_pca_recalls',
        'live_chi2_rereads', 'live_pcomp_rereads', 'live_pca_rereads', 'live_hmf_rereads', 'alias_pairs_checked', 'alias_write_probes',
        'chi2_square_nonsymmetric_systems', 'chi2_shape:square', 'chi2_shape:n_eq_m_plus_1', 'chi2_shape:n_eq_m_plus_2',
        'chi2_shape:single_template', 'chi2_shape:one_by_one', 'chi2_used_rows_eq_m', 'chi2_used_rows_eq_m_plus_1',
        'hmf_shape:spectra_eq_K', 'hmf_shape:spectra_eq_K_plus_1', 'hmf_shape:K_eq_1', 'hmf_shape:pixels_eq_K_plus_1',
        'hmf_shape:pixels_eq_K_plus_2', 'pca_shape:spectra_eq_nkeep', 'pca_shape:nkeep_eq_1', 'pca_shape:pixels_eq_nkeep_plus_1',
        'pca_shape:pixels_eq_spectra', 'pca_shape:pixels_eq_spectra_plus_1',
        'hmf_zero_spectrum_cases_nonneg', 'hmf_zero_spectrum_cases_default', 'hmf_single_pixel_spectrum_cases_nonneg',
        'hmf_single_pixel_spectrum_cases_default',
        'hmf_direct_steps', 'hmf_direct_dataless_column_gsteps', 'hmf_direct_dataless_spectrum_gsteps', 'hmf_direct_reference_optimum_checks',
        'hmf_direct_from_solve', 'hmf_large_n:1000', 'hmf_large_n:1024', 'hmf_large_n:2000', 'hmf_large_n:2001', 'hmf_large_n:2048',
        'hmf_large_n:4097', 'hmf_same_seed_pairs_above_2000_spectra',
        'pcomp_nobs_eq_nvar', 'pcomp_nobs_plus_1_nvar', 'pcomp_nobs_minus_1_nvar',
        'pcomp_design:first_isolated', 'pcomp_design:last_isolated', 'pcomp_design:middle_isolated', 'pcomp_design:all_orthogonal',
        'pcomp_design:blocks', 'pcomp_design:exchangeable_pair', 'pcomp_design:duplicate_variable',
        'pcomp_first_variable_exactly_uncorrelated', 'pcomp_last_variable_exactly_uncorrelated',
        'pcomp_middle_variable_exactly_uncorrelated', 'pcomp_exactly_diagonal_matrix', 'pcomp_exactly_block_structured_matrix',
        'pcomp_equal_variance_correlated_pair', 'pcomp_exactly_singular_matrix',
        'pcomp_components_with_an_exactly_zero_loading', 'pcomp_components_with_loadings_summing_to_exactly_zero',
        'pcomp_two_variable_cases', 'hmf_seed_zero_cases', 'chi2_cancellation_would_show', 'chi2_cancellation_would_show_float32', 'hmf_reported_badness_checked',
        'chi2_zero_weight_cases', 'chi2_discriminating', 'pcomp_wide_cases', 'pca_projections', 'pca_masked_columns',
    )
    REQUIRED_REACH = {'spec1d.HMF.astep': 1.0, 'spec1d.HMF.gstep': 1.0, 'spec1d.HMF.astepnn': 1.0, 'spec1d.HMF.gstepnn': 1.0,
                      'spec1d.HMF.reorder': 1.0, 'spec1d.HMF.normbase': 1.0, 'spec1d.HMF.iterate': 0.85,
                      'spec1d.pca_solve': 0.75, 'math.computechi2.covar': 1.0, 'pcomp.pcomp.coefficients': 1.0}
    MIN_NONTRIVIAL = 8
    QUICK_SHARDS = 4

    # ---------------------------------------------------------------------------------------------
    def setup(self):
        import sys
        import pydl.pydlutils.math as PM
        import pydl.pcomp                                   # noqa: F401  (pydl.pcomp the attribute is the class)
        import pydl.pydlspec2d.spec1d as S1
        from astropy import log
        PC = sys.modules['pydl.pcomp']
        self.PM, self.PC, self.S1 = PM, PC, S1
        self._loglevel = log.level
        log.setLevel('ERROR')
        self._log = log
        H = S1.HMF
        for f in (H.astep, H.gstep, H.astepnn, H.gstepnn, H.normbase, H.reorder, H.iterate, H.solve, S1.pca_solve,
                  PM.computechi2.__init__, PC.pcomp.__init__):
            self.reach.add(f)
        for n in ('acoeff', 'chi2', 'yfit', 'dof', 'covar', 'var'):
            self.reach.add(PM.computechi2.__dict__[n].fget, 'math.computechi2.' + n)
        for n in ('coefficients', 'derived', 'variance', 'eigenvalues'):
            self.reach.add(PC.pcomp.__dict__[n].fget, 'pcomp.pcomp.' + n)
        self.brd.per_case = 3
        self.brd.attach(self.rec, PM.computechi2, '__init__', label='computechi2.__init__', init=True, every=2)   # vlib/brd.py
        self.brd.attach(self.rec, PC.pcomp, '__init__', label='pcomp.__init__', init=True, every=2)
        self.rec.wrap(S1, 'pca_solve')
        # open finding F-P4 is keyed by its mechanism: scipy's kmeans hands back fewer centroids than asked for (it drops empty
        # clusters) and HMF.iterate() goes on with a g of the wrong shape.  Observed at kmeans' own boundary, per case.
        import scipy.cluster.vq as VQ
        self._kmeans_short = False

        def kmeans_seen(a, k, r):
            try:
                want = a[1] if len(a) > 1 else k.get('k_or_guess')
                if isinstance(want, (int, np.integer)) and np.asarray(r[0]).shape[0] < int(want):
                    self._kmeans_short = True
            except Exception:
                pass
        self.rec.wrap(VQ, 'kmeans', label='scipy.cluster.vq.kmeans', result=kmeans_seen)
        self._saved = install_contracts(H)
        self.margins = {}

    def teardown(self):
        for name, orig in getattr(self, '_saved', {}).items():
            setattr(self.S1.HMF, name, orig)
        self._saved = {}
        self.rec.unwrap_all()
        if getattr(self, '_log', None) is not None:
            self._log.setLevel(self._loglevel)

    def budget(self, tier):
        q = tier == 'quick'
        return {
            'chi2_random': 1200 if q else 16000,
            'chi2_collinear': 500 if q else 8000,
            'chi2_poly': 250 if q else 4000,
            'chi2_pixelpoly': 200 if q else 3000,
            'chi2_float32': 250 if q else 4000,
            'chi2_highsnr': 300 if q else 5000,
            'chi2_shapes': 350 if q else 5600,
            'pcomp_tall': 700 if q else 10000,
            'pcomp_wide': 400 if q else 6000,
            'pcomp_design': 240 if q else 4800,
            'hmf_exact': 100 if q else 1600,
            'hmf_smooth': 100 if q else 1600,
            'hmf_nonneg': 80 if q else 1200,
            'hmf_order': 72 if q else 1200,
            'hmf_boundary': 60 if q else 900,
            'hmf_direct': 90 if q else 1400,
            'hmf_large_n': 6 if q else 24,
            'pca_boundary': 60 if q else 900,
            'pca_solve': 240 if q else 3200,
        }

    # ------------------------------------------------------------------------------------------ gen
    def gen(self, cls, rng, i):
        g = np_rng(rng)
        if cls == 'chi2_shapes':
            return self._gen_chi2_shapes(rng, g, i)
        if cls.startswith('chi2'):
            return self._gen_chi2(cls, rng, g)
        if cls == 'pcomp_design':
            return self._gen_pcomp_design(rng, g, i)
        if cls.startswith('pcomp'):
            return self._gen_pcomp(cls, rng, g)
        if cls == 'hmf_order':
            return self._gen_hmf_order(rng, g, i)
        if cls == 'hmf_direct':
            return self._gen_hmf_direct(rng, g, i)
        if cls == 'hmf_large_n':
            return self._gen_hmf_large_n(rng, g, i)
        if cls == 'hmf_boundary':
            return self._gen_hmf_boundary(rng, g, i)
        if cls == 'pca_boundary':
            return self._gen_pca_boundary(rng, g, i)
        if cls.startswith('hmf'):
            return self._gen_hmf(cls, rng, g)
        return self._gen_pca(cls, rng, g)

    def _gen_chi2_highsnr(self, rng, g):
        """Fits that are very good compared with the size of the data (|b| = 1e3..1e8 sigma; float32: 10^2.5..10^5 sigma),
        on random, polynomial and pixel-number polynomial bases (up to 1000 pixels), data in arbitrary units."""
        for attempt in range(30):
            dts = rng.choice([['f8', 'f8', 'f8'], ['f8', 'f8', 'f8'], ['f8', 'f8', 'f8'], ['f8', 'f4', 'f4'], ['f4', 'f4', 'f4']])
            single = dts[0] == 'f4'
            basis = rng.choice(['random', 'poly', 'pixelpoly', 'pixelpoly', 'lines'])
            if single and basis == 'pixelpoly':
                basis = 'poly'
            cond_max = COND_MAX
            if basis == 'pixelpoly':
                n = int(g.integers(100, 1001))
                m = int(g.integers(2, 4))
                A = np.vander(np.arange(n, dtype='f8'), m, increasing=True)
                cond_max = 1e13
            elif basis == 'poly':
                n = int(g.integers(20, 401))
                m = int(g.integers(1, 4 if single else 6))
                A = np.vander(np.linspace(-1, 1, n), m, increasing=True)
            elif basis == 'lines':                       # continuum + emission lines, like the demo of the pipeline
                n = int(g.integers(50, 401))
                m = int(g.integers(2, 5))
                xx = np.linspace(0, 1, n)
                A = np.ones((n, m))
                for k in range(1, m):
                    A[:, k] = np.exp(-0.5 * ((xx - g.uniform(0.1, 0.9)) / g.uniform(0.01, 0.05)) ** 2)
            else:
                n = int(g.integers(10, 201))
                m = int(g.integers(1, 4 if single else 9))
                A = g.normal(size=(n, m)) * 10.0 ** g.uniform(-1, 1, size=(1, m))
            if single:
                cond_max = 1e3
            sigma = g.uniform(0.5, 2.0, n)
            snr = 10.0 ** (g.uniform(2.5, 5) if dts[1] == 'f4' else g.uniform(3, 8))
            clean = A @ (g.normal(size=m) + rng.choice([0.0, 2.0]))
            clean = clean / np.sqrt(np.mean(clean ** 2)) * snr
            unit = 10.0 ** (g.uniform(-6, 6) if rng.random() < 0.5 else 0.0)
            if dts[1] == 'f4':
                unit = 10.0 ** g.uniform(-3, 3)
            b = (clean + sigma * g.normal(size=n)) * unit
            sq = 1.0 / (sigma * unit)
            zero = g.uniform(size=n) < rng.choice([0.0, 0.0, 0.1, 0.3])
            if n - zero.sum() < m + 2:
                zero[:] = False
            sq = np.where(zero, 0.0, sq)
            A = A.astype(dts[0]).astype('f8')
            b = b.astype(dts[1]).astype('f8')
            sq = sq.astype(dts[2]).astype('f8')
            sv = np.linalg.svd(A * sq[:, None], compute_uv=False)
            if sv[-1] > 0 and (sv[0] / sv[-1]) ** 2 <= cond_max:
                break
        else:
            return None
        order = ['acoeff', 'chi2', 'yfit', 'dof', 'covar', 'var']
        rng.shuffle(order)
        return {'kind': 'chi2', 'cls': 'chi2_highsnr', 'basis': basis, 'snr': snr, 'cond_max': cond_max * 10, 'A': _lists(A), 'b': _lists(b),
                'sqivar': _lists(sq), 'dtypes': dts, 'order': order}

    CHI2_SHAPES = ('square', 'square', 'n_eq_m_plus_1', 'n_eq_m_plus_2', 'single_template', 'one_by_one', 'used_rows_eq_m', 'used_rows_eq_m_plus_1')

    def _gen_chi2_shapes(self, rng, g, i):
        """Shape boundaries: exactly determined (N == M, non-symmetric A), one and two spare rows, a single template as an
        (N, 1) matrix, the 1 x 1 system, and zero weights that leave exactly M or M + 1 used rows of a taller matrix."""
        shape = self.CHI2_SHAPES[i % len(self.CHI2_SHAPES)]
        for attempt in range(60):
            m = int(g.integers(1, 9))
            if shape == 'square':
                m = int(g.integers(2, 9))
                n = m
            elif shape == 'n_eq_m_plus_1':
                n = m + 1
            elif shape == 'n_eq_m_plus_2':
                n = m + 2
            elif shape == 'single_template':
                m = 1
                n = int(g.integers(1, 60))
            elif shape == 'one_by_one':
                n = m = 1
            else:
                n = int(g.integers(m + 3, 60))
            A = g.normal(size=(n, m)) * 10.0 ** g.uniform(-1, 1, size=(1, m))
            if rng.random() < 0.3 and n > 1:
                A = np.vander(np.linspace(-1, 1, n) + g.uniform(-0.2, 0.2), m, increasing=True)
            sq = 10.0 ** g.uniform(-1, 1, n) if rng.random() < 0.5 else g.uniform(0.3, 3.0, n)
            if shape.startswith('used_rows'):
                used = m + (1 if shape.endswith('plus_1') else 0)
                keep = g.choice(n, used, replace=False)
                z = np.ones(n, bool)
                z[keep] = False
                sq = np.where(z, 0.0, sq)
            x0 = g.normal(size=m) * 10.0 ** g.uniform(-1, 1, m)
            clean = A @ x0
            b = clean + 10.0 ** g.uniform(-3, 0) * np.sqrt(np.mean(clean ** 2) + 1e-300) * g.normal(size=n)
            dts = rng.choice([['f8', 'f8', 'f8'], ['f8', 'f8', 'f8'], ['f8', 'f4', 'f4']])
            A = A.astype(dts[0]).astype('f8')
            b = b.astype(dts[1]).astype('f8')
            sq = sq.astype(dts[2]).astype('f8')
            sv = np.linalg.svd(A * sq[:, None], compute_uv=False)
            if sv[-1] > 0 and (sv[0] / sv[-1]) ** 2 <= COND_MAX / 100:
                break
        else:
            return None
        order = ['acoeff', 'chi2', 'yfit', 'dof', 'covar', 'var']
        rng.shuffle(order)
        return {'kind': 'chi2', 'cls': 'chi2_shapes', 'shape': shape, 'A': _lists(A), 'b': _lists(b), 'sqivar': _lists(sq),
                'dtypes': dts, 'order': order}

    def _gen_chi2(self, cls, rng, g):
        if cls == 'chi2_highsnr':
            return self._gen_chi2_highsnr(rng, g)
        for attempt in range(30):
            n = int(g.integers(10, 201))
            m = int(g.integers(1, 9))
            if cls == 'chi2_pixelpoly':
                # polynomial in pixel number: full rank but moderately ill-conditioned (cond(A) 1e2..3e5)
                n = int(g.integers(40, 201))
                m = int(g.integers(2, 5))
                x = np.arange(n, dtype='f8') + (g.uniform(0, 1) if rng.random() < 0.5 else 0.0)
                A = np.vander(x, m, increasing=True)
            elif cls == 'chi2_poly':
                m = int(g.integers(1, 6))
                x = np.sort(g.uniform(-1, 1, n)) if rng.random() < 0.5 else np.linspace(-1, 1, n)
                x = x * 10.0 ** g.uniform(-0.3, 0.5)
                A = np.vander(x, m, increasing=True)
            else:
                A = g.normal(size=(n, m))
                if cls == 'chi2_collinear' and m >= 2:
                    for _ in range(int(g.integers(1, 3))):
                        k, j = g.choice(m, 2, replace=False)
                        A[:, k] = A[:, j] * g.uniform(0.5, 2) + 10.0 ** g.uniform(-2.5, -0.5) * g.normal(size=n)
                A = A * 10.0 ** g.uniform(-1.5 + 0.1 * attempt / 2, 1.5 - 0.1 * attempt / 2, size=(1, m))
            zf = rng.choice([0.0, 0.0, 0.1, 0.3, 0.6])
            sq = 10.0 ** g.uniform(-1, 1, n) if rng.random() < 0.5 else g.uniform(0.3, 3.0, n)
            zero = g.uniform(size=n) < zf
            if n - zero.sum() < m + 2:
                zero[:] = False
            if rng.random() < 0.05:                     # exactly determined: dof == 0
                zero[:] = True
                zero[g.choice(n, m, replace=False)] = False
            sq = np.where(zero, 0.0, sq)
            x0 = g.normal(size=m) * 10.0 ** g.uniform(-1, 1, m)
            clean = A @ x0
            b = clean + 10.0 ** g.uniform(-3, 0) * np.sqrt(np.mean(clean ** 2) + 1e-300) * g.normal(size=n)
            dts = ['f8', 'f8', 'f8']
            if cls == 'chi2_float32':
                dts = rng.choice([['f8', 'f4', 'f4'], ['f8', 'f4', 'f4'], ['f8', 'f8', 'f4'], ['f8', 'f4', 'f8']])
            A = A.astype(dts[0]).astype('f8')
            b = b.astype(dts[1]).astype('f8')
            sq = sq.astype(dts[2]).astype('f8')
            sv = np.linalg.svd(A * sq[:, None], compute_uv=False)
            if sv[-1] > 0 and (sv[0] / sv[-1]) ** 2 <= (1e11 if cls == 'chi2_pixelpoly' else COND_MAX):
                break
        else:
            return None
        order = ['acoeff', 'chi2', 'yfit', 'dof', 'covar', 'var']
        rng.shuffle(order)
        return {'kind': 'chi2', 'cls': cls, 'A': _lists(A), 'b': _lists(b), 'sqivar': _lists(sq), 'dtypes': dts, 'order': order}

    def _gen_pcomp(self, cls, rng, g):
        m = 2 if rng.random() < 0.12 else int(g.integers(2, 13))      # the 2-variable case is a standing sub-class
        if cls == 'pcomp_wide':
            n = int(g.integers(2, m + 1))
        else:
            n = int(g.integers(m + 1, 6 * m + 20))
        if rng.random() < 0.2:                       # shape boundary: nobs == nvar, nvar - 1, nvar + 1
            n = max(2, m + rng.choice([-1, 0, 1]))
        r = int(g.integers(1, m + 1))
        x = g.normal(size=(n, r)) @ g.normal(size=(r, m)) + 10.0 ** g.uniform(-3, 0) * g.normal(size=(n, m))
        x = x * 10.0 ** g.uniform(-2, 2, size=(1, m))
        if rng.random() < 0.5:
            x = x + x.std(0) * 10.0 ** g.uniform(-1, 3, size=(1, m)) * g.choice([-1, 1], size=(1, m))
        covariance = rng.random() < 0.5
        standardize = rng.random() < 0.3
        integer = rng.random() < 0.1
        if integer:
            x = np.round(x / np.abs(x).max() * 1000)
        const = x.max(0) == x.min(0)          # correlation / standardisation undefined for a constant column
        x[0, const] += 1.0 if integer else x[0, const] * 0.5 + 1.0
        order = ['coefficients', 'derived', 'variance', 'eigenvalues']
        rng.shuffle(order)
        return {'kind': 'pcomp', 'x': _lists(x), 'covariance': covariance, 'standardize': standardize,
                'integer': integer, 'order': order}

    PCOMP_LAYOUTS = ('first_isolated', 'last_isolated', 'middle_isolated', 'all_orthogonal', 'blocks', 'exchangeable_pair',
                     'duplicate_variable', 'first_isolated')

    @staticmethod
    def _design_parts(layout, order_h, rng, g):
        h = np.array([[1.0]])
        while h.shape[0] < order_h:
            h = np.block([[h, h], [h, -h]])
        free = list(range(1, order_h))               # column 0 is constant
        rng.shuffle(free)

        def take(k):
            cols = [free.pop() for _ in range(k)]
            return h[:, cols]

        def block(nvar):
            """nvar variables spanned by nvar..nvar+1 design columns, every variable correlated with the next one"""
            base = take(nvar + (1 if rng.random() < 0.5 else 0))
            while True:
                co = g.integers(-3, 4, size=(base.shape[1], nvar)).astype('f8')
                co[np.arange(nvar), np.arange(nvar)] = g.choice([-3, -2, -1, 1, 2, 3], size=nvar)   # no constant variable
                if nvar == 1 or all((co[:, k] * co[:, k + 1]).sum() != 0 for k in range(nvar - 1)):
                    return base @ co

        if layout in ('first_isolated', 'last_isolated', 'middle_isolated'):
            rest = [block(rng.randint(2, 3))] + ([block(rng.randint(1, 3))] if rng.random() < 0.4 else [])
            iso = block(1) * rng.randint(1, 3)
            if layout == 'first_isolated':
                parts = [iso] + rest
            elif layout == 'last_isolated':
                parts = rest + [iso]
            else:
                parts = [rest[0][:, :1], iso, rest[0][:, 1:]] + rest[1:]
        elif layout == 'all_orthogonal':
            parts = [block(1) * rng.randint(1, 4) for _ in range(rng.randint(2, 6))]
        elif layout == 'blocks':
            parts = [block(rng.randint(1, 3)) for _ in range(rng.randint(2, 3))]
            x_ = np.hstack(parts)
            parts = [x_[:, g.permutation(x_.shape[1])]]          # members of a block need not be adjacent
        elif layout == 'exchangeable_pair':
            uv = take(2)
            a, b = rng.choice([(2, 1), (3, 1), (3, 2), (1, -2), (3, -1)])
            pair = np.column_stack([a * uv[:, 0] + b * uv[:, 1], b * uv[:, 0] + a * uv[:, 1]])     # equal variances, covariance 2ab
            parts = [pair] + ([block(rng.randint(1, 2))] if rng.random() < 0.5 else [])
            if rng.random() < 0.5:
                parts = parts[::-1]
        else:                                        # duplicate_variable: one variable an exact multiple of another
            b0 = block(rng.randint(2, 3))
            k = rng.randrange(b0.shape[1])
            dup = b0[:, k:k + 1] * rng.choice([1, 1, 2, -1, -3])
            parts = [b0, dup] + ([block(1)] if rng.random() < 0.5 else [])
            if rng.random() < 0.5:
                parts = parts[::-1]
        return parts

    def _gen_pcomp_design(self, rng, g, i):
        """Structured ("designed") data: the variables are small-integer combinations of balanced, mutually orthogonal two-level
        columns (Sylvester-Hadamard design, optionally replicated, rows shuffled), so that the correlation / covariance matrix
        has *exactly* representable entries: variables of different blocks are exactly uncorrelated (block-diagonal matrix, the
        eigenvectors have loadings that are exactly zero), two variables can have exactly equal variances (the eigenvectors are
        the exact sum and contrast, loadings summing to exactly zero) or be exact multiples of one another (an eigenvalue that
        is exactly zero).  Layouts place the isolated variable first / last / in the middle, make every variable a block of its
        own (diagonal matrix, in correlation mode the identity: all eigenvalues tie), or mix blocks.  Integer offsets and integer
        or power-of-two scales keep every sum exact; flavour 'float_units' multiplies by an arbitrary factor (exactness no longer
        guaranteed - the property holds either way)."""
        layout = self.PCOMP_LAYOUTS[i % len(self.PCOMP_LAYOUTS)]
        order_h = rng.choice([8, 16, 16, 32])
        while True:
            try:
                parts = self._design_parts(layout, order_h, rng, g)
                break
            except IndexError:                       # more design columns needed than this order has
                order_h *= 2
        x = np.hstack(parts)
        x = np.tile(x, (rng.choice([1, 1, 2, 3]), 1))            # replicated design: still balanced
        x = x[g.permutation(x.shape[0])]
        m = x.shape[1]
        flavour = rng.choice(['levels', 'integer_units', 'integer_units', 'dyadic_units', 'float_units'])
        if flavour == 'integer_units':
            x = x * g.integers(1, 1000, size=(1, m)) + g.integers(-1000, 1001, size=(1, m))
        elif flavour == 'dyadic_units':
            x = x * 2.0 ** g.integers(-10, 11, size=(1, m)) + g.integers(-8, 9, size=(1, m))
        elif flavour == 'float_units':
            x = x * 10.0 ** g.uniform(-2, 2, size=(1, m)) + g.normal(size=(1, m)) * rng.choice([0.0, 1.0, 100.0])
        integer = flavour in ('levels', 'integer_units') and rng.random() < 0.5
        order = ['coefficients', 'derived', 'variance', 'eigenvalues']
        rng.shuffle(order)
        return {'kind': 'pcomp', 'cls': 'pcomp_design', 'layout': layout, 'flavour': flavour, 'x': _lists(x),
                'covariance': rng.random() < 0.5, 'standardize': rng.random() < 0.15, 'integer': integer, 'order': order}

    def _gen_hmf(self, cls, rng, g):
        q = self.tier == 'quick'
        N = int(g.integers(10, 41 if q else 61))
        M = int(g.integers(40, 141 if q else 201))
        K = int(g.integers(1, 6))
        if rng.random() < 0.75:
            K = max(K, 2)
        nonneg = cls == 'hmf_nonneg'
        maskfrac = rng.choice([0.0, 0.02, 0.05, 0.1, 0.15])
        junk = rng.choice(['keep', 'zero', 'wild'])
        s, w = _spectral_matrix(g, N, M, K, nonneg, maskfrac, junk)
        edges = [0, 0]
        if rng.random() < 0.4:
            # leading / trailing pixels masked in every spectrum (rest-frame shifted spectra): HMF trims these columns
            edges = [rng.randint(0, 4), rng.randint(0, 4)]
            if edges == [0, 0]:
                edges[rng.randint(0, 1)] = rng.randint(1, 4)
            if edges[0]:
                w[:, :edges[0]] = 0
            if edges[1]:
                w[:, M - edges[1]:] = 0
        zero, spike = _plant_zero_spectra(rng, s, w, K, nonneg)
        if cls == 'hmf_exact':
            eps = rng.choice([None, 0.0])
        elif cls == 'hmf_smooth':
            eps = rng.choice([0.1, 10.0, 1e3])
        else:
            eps = rng.choice([None, None, 0.0, 0.1, 10.0, 1e3])
        return {'kind': 'hmf', 'spectra': _lists(s), 'invvar': _lists(w), 'K': K, 'n_iter': rng.randint(2, 8),
                'seed': 0 if rng.random() < 0.12 else rng.randint(0, 2 ** 31 - 1), 'epsilon': eps, 'nonnegative': nonneg, 'masked_edges': edges,
                'zero_spectra': zero, 'spike_spectra': spike,
                'global_seeds': [rng.randint(0, 2 ** 31 - 1), rng.randint(0, 2 ** 31 - 1)]}

    HMF_SHAPES = ('spectra_eq_K', 'spectra_eq_K_plus_1', 'K_eq_1', 'pixels_eq_K_plus_1', 'pixels_eq_K_plus_2')

    def _gen_hmf_boundary(self, rng, g, i):
        """Shape boundaries of the factorisation: as many spectra as components (every pixel sub-problem exactly determined,
        chi-square ~ 0), one spectrum more, a single component, and K + 1 / K + 2 pixels.  No masked pixels where the
        sub-problems would otherwise lose full rank."""
        shape = self.HMF_SHAPES[i % len(self.HMF_SHAPES)]
        K = 1 if shape == 'K_eq_1' else rng.randint(2, 4)
        N, M, maskfrac = rng.randint(10, 25), rng.randint(40, 80), 0.0
        if shape == 'spectra_eq_K':
            N = K
        elif shape == 'spectra_eq_K_plus_1':
            N = K + 1
        elif shape == 'K_eq_1':
            maskfrac = rng.choice([0.0, 0.05, 0.1])
        elif shape == 'pixels_eq_K_plus_1':
            M = K + 1
        else:
            M = K + 2
        nonneg = rng.random() < 0.35
        s, w = _spectral_matrix(g, N, M, K, nonneg, maskfrac, 'keep')
        zero, spike = _plant_zero_spectra(rng, s, w, K, nonneg, p_zero=0.15 if nonneg else 0.1)
        return {'kind': 'hmf', 'shape': shape, 'zero_spectra': zero, 'spike_spectra': spike, 'spectra': _lists(s), 'invvar': _lists(w), 'K': K, 'n_iter': rng.randint(2, 5),
                'seed': rng.randint(0, 2 ** 31 - 1), 'epsilon': rng.choice([None, None, 0.0, 0.1, 10.0]), 'nonnegative': nonneg,
                'masked_edges': [0, 0], 'global_seeds': [rng.randint(0, 2 ** 31 - 1), rng.randint(0, 2 ** 31 - 1)]}

    LARGE_N = (1000, 1024, 2000, 2001, 2048, 4097)

    def _gen_hmf_large_n(self, rng, g, i):
        """Numbers of spectra around implementation-typical caps (few pixels, K small, 1-2 iterations so that it stays cheap)."""
        N = self.LARGE_N[i % len(self.LARGE_N)]
        M = rng.randint(10, 14)
        K = rng.choice([2, 2, 3])
        s, w = _spectral_matrix(g, N, M, K, False, rng.choice([0.0, 0.02]), 'keep')
        return {'kind': 'hmf', 'light': True, 'large_n': N, 'spectra': _lists(s), 'invvar': _lists(w), 'K': K, 'n_iter': rng.randint(1, 2),
                'seed': rng.randint(0, 2 ** 31 - 1), 'epsilon': rng.choice([None, 0.1]), 'nonnegative': False,
                'masked_edges': [0, 0], 'global_seeds': [rng.randint(0, 2 ** 31 - 1), rng.randint(0, 2 ** 31 - 1)]}

    def _gen_hmf_direct(self, rng, g, i):
        """astep()/gstep()/astepnn()/gstepnn() called directly, as public methods, on an object whose a and g were set by the
        caller (random factors, or the factors of a previous solve) - including pixels without data in any spectrum
        (epsilon > 0: the smoothness term still determines them) and spectra without data (astep may refuse)."""
        N, M = rng.randint(8, 25), rng.randint(20, 60)
        K = rng.randint(1, 4)
        nonneg = rng.random() < 0.2
        eps = rng.choice([None, 0.0, 0.1, 10.0, 1e3]) if i % 2 else rng.choice([0.1, 10.0, 1e3])
        s, w = _spectral_matrix(g, N, M, K, nonneg, rng.choice([0.0, 0.05, 0.1]), rng.choice(['keep', 'zero']))
        init = rng.choice(['random', 'from_solve'])
        cols, rows = [], []
        if not nonneg:
            if eps is not None and eps > 0 and rng.random() < 0.7:
                cols = sorted(rng.sample(range(M), rng.choice([1, 1, 2, 3])))
                if rng.random() < 0.3:
                    cols = sorted(set(cols) | {rng.choice([0, M - 1])})          # an end pixel: one neighbour only
                if rng.random() < 0.3:
                    j = rng.randint(0, M - 2)
                    cols = sorted(set(cols) | {j, j + 1})                          # two adjacent dataless pixels
            if rng.random() < 0.25:
                rows = [rng.randrange(N)]
        zero, spike = _plant_zero_spectra(rng, s, w, K, nonneg, p_zero=0.2 if nonneg else 0.1, forbid=rows)
        steps = rng.choice([['gstep'], ['astep'], ['gstep', 'astep'], ['astep', 'gstep'], ['gstep', 'gstep', 'astep']])
        if cols and 'gstep' not in steps:
            steps = ['gstep'] + steps
        if nonneg:
            steps = [x + 'nn' for x in steps]
        a0 = g.normal(size=(N, K)) * np.sqrt(np.mean(s ** 2)) + (np.sqrt(np.mean(s ** 2)) if rng.random() < 0.5 else 0.0)
        g0 = g.normal(size=(K, M)) + rng.choice([0.0, 1.0])
        if nonneg:
            a0, g0 = np.abs(a0) + 1e-3, np.abs(g0) + 1e-3
        return {'kind': 'hmf_direct', 'spectra': _lists(s), 'invvar': _lists(w), 'K': K, 'epsilon': eps, 'nonnegative': nonneg,
                'init': init, 'a0': _lists(a0), 'g0': _lists(g0), 'steps': steps, 'dataless_columns': cols, 'dataless_spectra': rows, 'zero_spectra': zero, 'spike_spectra': spike,
                'seed': rng.randint(0, 2 ** 31 - 1)}

    PCA_SHAPES = ('spectra_eq_nkeep', 'nkeep_eq_1', 'pixels_eq_nkeep_plus_1', 'pixels_eq_spectra', 'pixels_eq_spectra_plus_1')

    def _gen_pca_boundary(self, rng, g, i):
        shape = self.PCA_SHAPES[i % len(self.PCA_SHAPES)]
        nkeep = 1 if shape == 'nkeep_eq_1' else rng.randint(2, 4)
        nobj, npix, maskfrac = rng.randint(5, 12), rng.randint(40, 90), rng.choice([0.0, 0.05])
        if shape == 'spectra_eq_nkeep':
            nobj = nkeep
        elif shape == 'pixels_eq_nkeep_plus_1':
            npix, maskfrac = nkeep + 1, 0.0
        elif shape == 'pixels_eq_spectra':
            npix, maskfrac = nobj, 0.0
        elif shape == 'pixels_eq_spectra_plus_1':
            npix, maskfrac = nobj + 1, 0.0
        s, w = _spectral_matrix(g, nobj, npix, nkeep, rng.random() < 0.5, maskfrac, 'keep')
        return {'kind': 'pca', 'shape': shape, 'flux': _lists(s.astype('f4')), 'ivar': _lists(w.astype('f4')), 'nkeep': nkeep,
                'nreturn': None, 'niter': rng.randint(1, 6), 'maxiter': rng.choice([0, 0, 1])}

    ORDER_PATTERNS = ('build2_solve2', 'draw_between', 'solve_twice', 'interleave_other_seed', 'reseed_between', 'random_program')

    def _gen_hmf_order(self, rng, g, i):
        """A *program* of constructions, solves and unrelated uses of numpy's global generator.

        Every object is built on its own copy of the same data with the same parameters; objects named A, B, E share
        ``seed``; C, D share ``other_seed``.  "A fixed seed gives identical results" must hold whatever happens between
        constructing a seeded object and solving it, and for a repeated solve() of one object.
        """
        N = int(g.integers(10, 26))
        M = int(g.integers(40, 81))
        K = int(g.integers(2, 5)) if rng.random() < 0.85 else 1
        nonneg = rng.random() < 0.25
        s, w = _spectral_matrix(g, N, M, K, nonneg, rng.choice([0.0, 0.05, 0.1]), rng.choice(['keep', 'zero']))
        edges = [0, 0]
        if rng.random() < 0.25:
            edges = [rng.randint(0, 2), rng.randint(1, 3)]
            if edges[0]:
                w[:, :edges[0]] = 0
            w[:, M - edges[1]:] = 0
        zero, spike = _plant_zero_spectra(rng, s, w, K, nonneg)
        seed = 0 if rng.random() < 0.2 else rng.randint(0, 2 ** 31 - 1)      # 0 is falsy but a perfectly good seed
        other = rng.randint(0, 2 ** 31 - 1)
        while other == seed:
            other = rng.randint(0, 2 ** 31 - 1)

        def draw():
            kind = rng.choice(['random', 'normal', 'randint', 'shuffle', 'seed'])
            return ['draw', kind, rng.randint(1, 2 ** 31 - 1) if kind == 'seed' else rng.randint(1, 50)]
        pattern = self.ORDER_PATTERNS[i % len(self.ORDER_PATTERNS)]
        if pattern == 'build2_solve2':
            ops = [['new', 'A', seed], ['new', 'B', seed], ['solve', 'A'], ['solve', 'B']]
        elif pattern == 'draw_between':
            ops = [['new', 'A', seed], ['draw', rng.choice(['random', 'normal', 'randint', 'shuffle']), rng.randint(1, 50)],
                   ['solve', 'A'], ['new', 'B', seed], ['draw', 'random', rng.randint(51, 99)], ['solve', 'B']]
        elif pattern == 'solve_twice':
            ops = [['new', 'A', seed], ['solve', 'A'], ['solve', 'A']]
            if rng.random() < 0.5:
                ops += [draw(), ['solve', 'A']]
        elif pattern == 'interleave_other_seed':
            ops = [['new', 'A', seed], ['new', 'C', other], ['solve', 'C'], ['solve', 'A'], ['new', 'B', seed],
                   ['solve', 'C'], ['solve', 'B'], ['new', 'D', other], ['solve', 'D']]
        elif pattern == 'reseed_between':
            ops = [['new', 'A', seed], ['draw', 'seed', rng.randint(1, 2 ** 31 - 1)], ['solve', 'A'],
                   ['new', 'B', seed], ['solve', 'B']]
        else:
            names = {'A': seed, 'B': seed, 'E': seed, 'C': other, 'D': other}
            built, ops, nsolve = [], [], 0
            pending = list(names)
            rng.shuffle(pending)
            while nsolve < 6 or not any(o[0] == 'solve' and names[o[1]] == seed for o in ops):
                r = rng.random()
                if pending and (r < 0.35 or not built):
                    n = pending.pop()
                    built.append(n)
                    ops.append(['new', n, names[n]])
                elif r < 0.55:
                    ops.append(draw())
                else:
                    ops.append(['solve', rng.choice(built)])
                    nsolve += 1
                if len(ops) > 30:
                    break
        return {'kind': 'hmf_order', 'spectra': _lists(s), 'invvar': _lists(w), 'K': K, 'n_iter': rng.randint(2, 4),
                'epsilon': rng.choice([None, None, 0.0, 0.1, 10.0]), 'nonnegative': nonneg, 'masked_edges': edges,
                'seed': seed, 'other_seed': other, 'pattern': pattern, 'ops': ops, 'zero_spectra': zero, 'spike_spectra': spike, 'global_seed': rng.randint(0, 2 ** 31 - 1)}

    def _gen_pca(self, cls, rng, g):
        q = self.tier == 'quick'
        nobj = int(g.integers(5, 25 if q else 41))
        K = int(g.integers(1, 5))
        npix = int(g.integers(nobj + K + 10, 120 if q else 300))
        maskfrac = rng.choice([0.0, 0.02, 0.05, 0.1, 0.15])
        s, w = _spectral_matrix(g, nobj, npix, K, rng.random() < 0.5, maskfrac, rng.choice(['keep', 'zero']))
        # a few pixels masked in every spectrum (use-mask 0 there)
        for j in g.choice(npix, size=rng.choice([0, 1, 3]), replace=False):
            w[:, j] = 0
        nkeep = rng.randint(1, K)
        nreturn = rng.choice([None, None, None, nkeep + 1 if nkeep + 1 <= nobj else None, max(1, nkeep - 1)])
        return {'kind': 'pca', 'flux': _lists(s.astype('f4')), 'ivar': _lists(w.astype('f4')), 'nkeep': nkeep,
                'nreturn': nreturn, 'niter': rng.randint(1, 8), 'maxiter': rng.choice([0, 0, 1, 2])}

    # ------------------------------------------------------------------------------------------ run
    def run(self, case, out):
        self._kmeans_short = False
        try:
            getattr(self, '_run_' + case['kind'])(case, out)
        finally:
            out.count('kmeans_returned_fewer_centroids_than_asked', self._kmeans_short)

    def classify(self, case, out):
        # open finding F-P4 (mechanism, not input): kmeans returned fewer than K centroids during this case and the only thing
        # that went wrong is the exception HMF raises on the resulting shape mismatch
        if out.fails and getattr(self, '_kmeans_short', False) and case.get('kind') == 'hmf' \
                and all(f['clause'] == 'exception' and (f.get('detail') or {}).get('type') == 'ValueError'
                        and 'spec1d.py' in str((f.get('detail') or {}).get('site')) for f in out.fails):
            return 'hmf_kmeans_fewer_centroids_than_K'
        return None

    def _margin(self, name, ratio):
        ratio = float(ratio)
        if name not in self.margins or not ratio <= self.margins[name]:
            self.margins[name] = ratio

    # ---- computechi2 ------------------------------------------------------------------------------
    def _run_chi2(self, case, out):
        dts = case['dtypes']
        A = np.array(case['A'], dtype='f8').astype(dts[0])
        b = np.array(case['b'], dtype='f8').astype(dts[1])
        sq = np.array(case['sqivar'], dtype='f8').astype(dts[2])
        n, m = A.shape
        ref = R.wls(A, b, sq)
        cond = (ref['smax'] / ref['smin']) ** 2
        if not cond <= case.get('cond_max', 1e12 if case.get('cls') == 'chi2_pixelpoly' else COND_MAX * 10):
            out.undecide()
            return
        out.count('chi2_cond_above_1e8', cond > 1e8)
        c = self.PM.computechi2(b, sq, A)
        got = {}
        for name in case['order']:
            got[name] = getattr(c, name)
        eps_w = float(np.finfo(np.result_type(A.dtype, sq.dtype)).eps)
        eps_b = float(np.finfo(np.result_type(b.dtype, sq.dtype)).eps)
        eps_b = 0.0 if eps_b <= EPS else eps_b
        # first-order bound for x = inv(mm) rhs with inv(mm) built from an SVD of mm in working precision
        dx = (CHI2_SAFETY * eps_w * cond * ref['rhsnorm'] / ref['smin'] ** 2
              + 100 * eps_b * ref['bnorm'] / ref['smin'])
        xn = float(np.linalg.norm(ref['x']))
        x = np.asarray(got['acoeff'], dtype='f8')
        ok = x.shape == (m,) and np.isfinite(x).all()
        err = float(np.linalg.norm(x - ref['x'])) if ok else float('inf')
        self._margin('chi2_acoeff_err/tol', err / dx if dx > 0 else 0.0)
        out.expect(ok and err <= dx, 'chi2-coefficients',
                   'acoeff differs from the long-double QR solution by %.3g (tolerance %.3g, |x| = %.3g, cond %.3g)' % (
                       err, dx, xn, cond), got=x, want=ref['x'])
        disc = dx <= 1e-3 * xn
        if disc:
            out.count('chi2_discriminating')
        # fitted values
        rown = float(np.max(np.linalg.norm(A.astype('f8'), axis=1)))
        yf = np.asarray(got['yfit'], dtype='f8')
        ytol = rown * dx + 100 * EPS * float(np.max(np.abs(A.astype('f8')) @ np.abs(ref['x'])))
        yerr = float(np.max(np.abs(yf - ref['yfit']))) if yf.shape == (n,) else float('inf')
        self._margin('chi2_yfit_err/tol', yerr / ytol if ytol > 0 else 0.0)
        out.expect(yerr <= ytol, 'chi2-yfit', 'yfit differs from A.x by %.3g (tolerance %.3g)' % (yerr, ytol))
        # chi-square
        dm = ref['smax'] * dx
        ctol = 2 * np.sqrt(ref['chi2']) * dm + dm * dm + 1e3 * max(eps_b, EPS) * (ref['bnorm'] ** 2 + (ref['smax'] * xn) ** 2)
        cerr = abs(float(got['chi2']) - ref['chi2'])
        self._margin('chi2_chi2_err/tol', cerr / ctol if ctol > 0 else 0.0)
        out.expect(cerr <= ctol, 'chi2-chi2', 'chi2 %.17g differs from weighted sum of squared residuals %.17g (tolerance %.3g)' % (
            float(got['chi2']), ref['chi2'], ctol))
        # the reported chi-square must be the chi-square of the reported fit: sum w (b - yfit)^2 evaluated here in float64.
        # Tolerance from the residual evaluation itself: each weighted residual may carry dr = (m+2) u (sq |A||x| + |b~|)
        # (+ u_b |b~| when b~ = b*sqivar is formed in single precision), i.e. sum 2|r| dr + dr^2 ~ u S chi2 at
        # signal-to-noise S - NOT a fraction of |b~|^2 = S^2 chi2, which is what a cancellation identity loses.
        if ok and yf.shape == (n,):
            A8, b8, s8 = A.astype('f8'), b.astype('f8'), sq.astype('f8')
            bt = np.abs(b8 * s8)
            r = s8 * (b8 - yf)
            cself = float(np.sum(r * r))
            dr = (m + 2) * eps_w * (s8 * (np.abs(A8) @ np.abs(x)) + bt) + eps_b * bt
            usum = (4 + np.log2(n)) * max(eps_w, eps_b, EPS)
            stol = CHI2_SELF * float(np.sum(2 * np.abs(r) * dr + dr * dr)) + usum * cself + np.finfo(float).tiny
            serr = abs(float(got['chi2']) - cself)
            self._margin('chi2_selfconsistency_err/tol', serr / stol)
            out.expect(serr <= stol, 'chi2-of-reported-fit',
                       'chi2 = %.17g but the weighted squared residuals of the returned yfit sum to %.17g (difference %.3g, allowed %.3g; '
                       '|b~|^2 = %.3g)' % (float(got['chi2']), cself, serr, stol, float(np.sum(bt * bt))))
            eps_id = float(np.finfo(np.result_type(b.dtype, sq.dtype)).eps)
            if eps_id * float(np.sum(bt * bt)) > 10 * stol:
                out.count('chi2_cancellation_would_show')       # an identity b.b - x.M^T b would be off by more than 10 tolerances
                if eps_id > EPS:
                    out.count('chi2_cancellation_would_show_float32')
        # degrees of freedom
        out.expect(int(got['dof']) == ref['dof'], 'chi2-dof', 'dof %r != #(sqivar > 0) - M = %d' % (got['dof'], ref['dof']))
        # covariance and variances
        cov = np.asarray(got['covar'], dtype='f8')
        cn = float(np.linalg.norm(ref['covar'], 2))
        covtol = CHI2_SAFETY * eps_w * cond * cn
        coverr = float(np.linalg.norm(cov - ref['covar'], 2)) if cov.shape == (m, m) and np.isfinite(cov).all() else float('inf')
        self._margin('chi2_covar_err/tol', coverr / covtol)
        out.expect(coverr <= covtol, 'chi2-covariance', 'covar differs from inverse(A^T W A) by %.3g (tolerance %.3g, norm %.3g)' % (
            coverr, covtol, cn), got=cov, want=ref['covar'])
        var = np.asarray(got['var'], dtype='f8')
        verr = float(np.max(np.abs(var - np.diag(ref['covar'])))) if var.shape == (m,) else float('inf')
        out.expect(verr <= covtol, 'chi2-variance', 'var differs from diag(inverse(A^T W A)) by %.3g (tolerance %.3g)' % (verr, covtol),
                   got=var, want=np.diag(ref['covar']))
        # state that could go stale across calls: a second object of the same system read in the opposite order, with an
        # object of a *different* system constructed and read in between, and every attribute of the first object re-read
        c2 = self.PM.computechi2(b.copy(), sq.copy(), A.copy())
        decoy = self.PM.computechi2(np.roll(b, 1) * 1.5 + 1, sq[::-1].copy(), A[::-1].copy())
        for name in case['order']:
            getattr(decoy, name)
        for name in reversed(case['order']):
            v2 = getattr(c2, name)
            v1 = getattr(c, name)
            out.expect(_same_bits(v1, got[name]) and _same_bits(v2, got[name]), 'chi2-stale-state',
                       '%s changed between reads / differs between two objects of the same system read in different orders' % name,
                       first=got[name], reread=v1, second_object=v2)
            out.count('stale_chi2_rereads')
        # two (three) live objects: results of the first must survive the evaluation of the others and alias nothing
        names = ['acoeff', 'chi2', 'yfit', 'dof', 'covar', 'var']

        def chi2_factory(bb, ss, AA):
            def make():
                ins = {'bvec': bb.copy(), 'sqivar': ss.copy(), 'amatrix': AA.copy()}
                obj = self.PM.computechi2(ins['bvec'], ins['sqivar'], ins['amatrix'])
                return (lambda order: {k: getattr(obj, k) for k in order}), ins
            return make
        orders = [case['order'], case['order'][::-1], ['var', 'chi2', 'covar', 'yfit', 'dof', 'acoeff'],
                  ['yfit', 'acoeff', 'dof', 'var', 'chi2', 'covar']]
        live_objects(out, 'chi2', [
            ('A', chi2_factory(b, sq, A)),
            ('B(same shape, other system)', chi2_factory((np.roll(b, 1) * 1.5 + 1).astype(b.dtype), sq[::-1], A[::-1])),
            ('C(two more rows)', chi2_factory(np.append(b, b[:2] + 1).astype(b.dtype), np.append(sq, sq[:2]), np.vstack([A, A[:2]]))),
        ], orders, exempt=(frozenset(('covar', 'var')),))
        used = int((sq != 0).sum())
        if n == m and used == n and n >= 2 and not np.array_equal(A, A.T):
            out.count('chi2_square_nonsymmetric_systems')
            # exactly determined: the fit reproduces the data
            out.expect(bool(np.all(np.abs(yf - b.astype('f8')) <= ytol + 1e3 * max(eps_b, EPS) * np.abs(b.astype('f8')))), 'chi2-yfit',
                       'exactly determined system (N == M == %d): yfit does not reproduce b (max deviation %.3g)' % (
                           n, float(np.max(np.abs(yf - b.astype('f8'))))))
        if 'shape' in case:
            out.count('chi2_shape:' + case['shape'])
        if used == m:
            out.count('chi2_used_rows_eq_m')
        elif used == m + 1:
            out.count('chi2_used_rows_eq_m_plus_1')
        nz = int((sq == 0).sum())
        if nz:
            out.count('chi2_zero_weight_cases')
        out.nontrivial = m >= 2 and nz >= 1
        out.info.update(n=n, m=m, zero_weights=nz, cond=cond, acoeff_err=err, tol=dx)

    # ---- pcomp ------------------------------------------------------------------------------------
    def _run_pcomp(self, case, out):
        x = np.array(case['x'], dtype='f8')
        if case.get('integer'):
            x = x.astype('i8')
        n, m = x.shape
        cov, std = case['covariance'], case['standardize']
        p = self.PC.pcomp(x, standardize=std, covariance=cov)
        got = {}
        for name in case['order']:
            got[name] = np.asarray(getattr(p, name))
        xf = x.astype('f8')
        if std:
            xc = xf - xf.mean(0)
            arr = xc / xc.std(0)
        else:
            arr = xf
        C = R.colmatrix(arr, cov)
        big = float(np.max(np.abs(C)))
        ev = got['eigenvalues']
        ok = ev.shape == (m,) and np.isfinite(ev).all()
        out.expect(ok, 'pcomp-eigenvalues', 'eigenvalues not finite / wrong shape', got=ev)
        if ok:
            out.expect(bool((np.diff(ev) <= 0).all()), 'pcomp-eigenvalues', 'eigenvalues not in descending order', got=ev)
            want = np.sort(np.linalg.eigvalsh(C))[::-1]
            e = float(np.max(np.abs(ev - want))) / big
            self._margin('pcomp_eigenvalue_err/tol', e / TOL_PCOMP)
            out.expect(e <= TOL_PCOMP, 'pcomp-eigenvalues', 'eigenvalues differ from those of the %s matrix by %.3g (relative to max entry)' % (
                'covariance' if cov else 'correlation', e), got=ev, want=want)
        co = got['coefficients']
        fin = co.shape == (m, m) and np.isfinite(co).all()
        out.expect(fin, 'pcomp-components', 'coefficients contain NaN/inf or have the wrong shape (%d observations, %d variables)' % (n, m),
                   eigenvalues=ev, coefficients=co)
        if fin:
            e = float(np.max(np.abs(co @ co.T - C))) / big
            self._margin('pcomp_outer_err/tol', e / TOL_PCOMP)
            out.expect(e <= TOL_PCOMP, 'pcomp-components', 'coefficients . coefficients^T differs from the %s matrix by %.3g (relative)' % (
                'covariance' if cov else 'correlation', e))
        va = got['variance']
        vs = float(np.sum(va)) if va.shape == (m,) else float('nan')
        self._margin('pcomp_variance_sum_err/tol', abs(vs - 1.0) / TOL_SUM)
        out.expect(abs(vs - 1.0) <= TOL_SUM, 'pcomp-variance', 'variance fractions sum to %.17g' % vs, got=va)
        if ok and va.shape == (m,):
            e = float(np.max(np.abs(va * np.trace(C) - ev))) / big
            out.expect(e <= TOL_PCOMP, 'pcomp-variance', 'variance is not eigenvalue / trace (%.3g)' % e, got=va)
        if not std:
            de = got['derived']
            if fin:
                want = xf @ co
                tol = 1e-12 * (np.abs(xf) @ np.abs(co)) + np.finfo(float).tiny
                good = de.shape == want.shape and bool((np.abs(de - want) <= tol).all())
                if de.shape == want.shape:
                    self._margin('pcomp_derived_err/tol', float(np.max(np.abs(de - want) / tol)))
                out.expect(good, 'pcomp-derived', 'derived differs from data . coefficients')
                out.count('pcomp_derived_checked')
        p2 = self.PC.pcomp(x.copy(), standardize=std, covariance=cov)
        decoy = self.PC.pcomp(x[::-1, ::-1] * 2 + 1, standardize=std, covariance=not cov)
        for name in case['order']:
            getattr(decoy, name)
        for name in reversed(case['order']):
            v2 = np.asarray(getattr(p2, name))
            v1 = np.asarray(getattr(p, name))
            out.expect(_same_bits(v1, got[name]) and _same_bits(v2, got[name]), 'pcomp-stale-state',
                       '%s changed between reads / differs between two objects of the same data read in different orders' % name,
                       first=got[name], reread=v1, second_object=v2)
            out.count('stale_pcomp_rereads')
        def pcomp_factory(xx, cv):
            def make():
                ins = {'x': xx.copy()}
                obj = self.PC.pcomp(ins['x'], standardize=std, covariance=cv)
                return (lambda order: {k: getattr(obj, k) for k in order}), ins
            return make
        orders = [case['order'], case['order'][::-1], ['variance', 'derived', 'coefficients', 'eigenvalues'],
                  ['derived', 'eigenvalues', 'coefficients', 'variance']]
        live_objects(out, 'pcomp', [
            ('A', pcomp_factory(x, cov)),
            ('B(second sample of the same shape)', pcomp_factory(x[::-1, ::-1] * 2 + 1, cov)),
            ('B2(same sample, %s matrix)' % ('correlation' if cov else 'covariance'), pcomp_factory(x, not cov)),
            ('C(one more observation)', pcomp_factory(np.vstack([x, x[:1] * 3 + 2]), cov)),
        ], orders)
        if case.get('layout'):
            # structured data: which exact structure did the matrix handed to the eigen-solver have, and did it show in the result?
            out.count('pcomp_design:' + case['layout'])
            out.count('pcomp_design_flavour:' + case['flavour'])
            off = C - np.diag(np.diag(C))
            if m >= 2 and not std:
                if not off[0].any():
                    out.count('pcomp_first_variable_exactly_uncorrelated')
                if not off[-1].any():
                    out.count('pcomp_last_variable_exactly_uncorrelated')
                if any(not off[k].any() for k in range(1, m - 1)):
                    out.count('pcomp_middle_variable_exactly_uncorrelated')
                if not off.any():
                    out.count('pcomp_exactly_diagonal_matrix')
                elif (off == 0).sum() >= 2:
                    out.count('pcomp_exactly_block_structured_matrix')
                d = np.diag(C)
                if cov and any(d[j] == d[k] and C[j, k] != 0 for j in range(m) for k in range(j)):
                    out.count('pcomp_equal_variance_correlated_pair')
                if ok and float(np.min(np.abs(ev))) <= 1e-13 * big:
                    out.count('pcomp_exactly_singular_matrix')
            if ok and fin:
                live = ev > 1e-9 * big
                zl = int(((co == 0).any(0) & live).sum())
                if zl:
                    out.count('pcomp_components_with_an_exactly_zero_loading', zl)
                sl = int(((co.sum(0) == 0) & live).sum())
                if sl:
                    out.count('pcomp_components_with_loadings_summing_to_exactly_zero', sl)
                # every variable has its variance accounted for: the diagonal of the outer product is the diagonal of the matrix
                # (stated separately so that the witness names the variable whose components were lost)
                dg = np.abs(np.sum(co * co, axis=1) - np.diag(C)) / big
                out.expect(bool((dg <= TOL_PCOMP).all()), 'pcomp-components',
                           'sum of squared loadings of variable %d is %.6g, its %s is %.6g (layout %s)' % (
                               int(np.argmax(dg)), float(np.sum(co * co, axis=1)[int(np.argmax(dg))]),
                               'variance' if cov else 'self-correlation', float(np.diag(C)[int(np.argmax(dg))]), case['layout']))
        if n <= m:
            out.count('pcomp_wide_cases')
        if m == 2:
            out.count('pcomp_two_variable_cases')
        if abs(n - m) <= 1:
            out.count('pcomp_nobs_%s_nvar' % ('eq' if n == m else 'plus_1' if n > m else 'minus_1'))
        out.nontrivial = m >= 2
        out.info.update(n=n, m=m, covariance=cov, standardize=std, smallest_eigenvalue=float(ev.min()) if ok else None)

    # ---- HMF --------------------------------------------------------------------------------------
    def _flush_contract_counters(self, out, before):
        for k, v in MON.evals.items():
            d = v - before.get(k, 0)
            if d:
                out.count('contract:' + k, d)

    def _run_hmf(self, case, out):
        HMF = self.S1.HMF
        s0 = np.array(case['spectra'], dtype='f8')
        w0 = np.array(case['invvar'], dtype='f8')
        N, M = s0.shape
        K, n_iter, eps, nonneg = case['K'], case['n_iter'], case['epsilon'], case['nonnegative']
        nonneg_data = bool((s0 >= 0).all())
        out.count('hmf_masked_edge_columns', any(case.get('masked_edges', [0, 0])))
        before = dict(MON.evals)
        state = np.random.get_state()
        results = []
        try:
            for rep in range(2):
                s, w = s0.copy(), w0.copy()
                np.random.seed(case['global_seeds'][rep])
                np.random.random(rep + 1)
                MON.reset_run(nonneg_data=nonneg_data)
                h = HMF(s, w, K=K, n_iter=n_iter, seed=case['seed'], nonnegative=nonneg, epsilon=eps)
                try:
                    res = h.solve()
                except MonitorViolation as e:
                    _contract_failure(out, e, 'solve #%d, update counts %r' % (rep + 1, MON.updates))
                    return
                finally:
                    self._flush_contract_counters(out, before)
                    before = dict(MON.evals)
                out.count('hmf_solves')
                a, gg = np.asarray(res['acoeff']), np.asarray(res['flux'])
                # pixels masked in every spectrum at the two ends are trimmed by HMF (largest contiguous good range)
                Mt = M - sum(case.get('masked_edges', [0, 0]))
                ok = a.shape == (N, K) and gg.shape == (K, Mt) and np.isfinite(a).all() and np.isfinite(gg).all()
                out.expect(ok, 'hmf-result', 'solve() returned acoeff %r / flux %r, expected (%d,%d) / (%d,%d), finite' % (
                    a.shape, gg.shape, N, K, K, Mt))
                if not ok:
                    return
                _check_zero_spectra(out, case, a, 'solve #%d' % (rep + 1))
                # after the last iteration: unit rms, model unchanged by reorder/normalisation
                dev = float(np.max(np.abs(R.rms_rows(gg) - 1.0)))
                MON.worst('rms_deviation', dev)
                out.expect(dev <= TOL_RMS, 'unit-rms', 'returned components do not have unit rms: max |rms-1| = %.3g' % dev)
                e0, e1 = case.get('masked_edges', [0, 0])
                st, wt = s0[:, e0:M - e1], w0[:, e0:M - e1]                      # the trimmed columns carry no weight
                cfin = R.hmf_chi2(st, wt, a, gg)
                efin = R.hmf_objective_eval_error(st, wt, a, gg, eps)
                if MON.last_chi2 is not None:
                    inc = _increase('chi2_increase_between_updates', MON.last_chi2, cfin, efin + MON.last_err)
                    out.expect(inc <= 1.0, 'chi2-monotone',
                               'chi-square of the returned factors (%.17g) exceeds the value after the last update (%.17g)' % (
                                   cfin, MON.last_chi2))
                # the chi-square HMF itself reports must be the chi-square of the factors it returns (no short-cut identity)
                if np.shape(h.spectra) == st.shape:
                    want = cfin + R.hmf_penalty(gg, eps)
                    rep_b = float(h.badness())
                    allow = TOL_MONO * abs(want) + MONO_EVAL * efin
                    MON.worst('reported_badness_error/allowed', abs(rep_b - want) / allow)
                    out.expect(abs(rep_b - want) <= allow, 'hmf-badness',
                               'HMF.badness() = %.17g but chi-square (+ penalty) of the returned factors is %.17g (allowed %.3g)' % (
                                   rep_b, want, allow))
                    out.count('hmf_reported_badness_checked')
                if nonneg:
                    out.expect(_nonneg_finite(a) and _nonneg_finite(gg), 'nonnegative',
                               'returned factors of the non-negative mode contain negative values: min a %.3g, min g %.3g' % (
                                   a.min(), gg.min()))
                    out.expect(MON.updates['astepnn'] > 0 and MON.updates['gstepnn'] > 0, 'monitor',
                               'contracts did not observe the non-negative updates: %r' % (MON.updates,))
                else:
                    out.expect(s.tobytes() == s0.tobytes() and w.tobytes() == w0.tobytes(), 'caller-arrays',
                               'default mode modified the caller\'s arrays: %d flux and %d invvar elements changed' % (
                                   int((s != s0).sum()), int((w != w0).sum())))
                    out.expect(MON.updates['astep'] > 0 and MON.updates['gstep'] > 0, 'monitor',
                               'contracts did not observe the updates: %r' % (MON.updates,))
                    if eps is not None and eps > 0:
                        out.count('hmf_gstep_smooth_updates', MON.updates['gstep'])
                    if (s0 < 0).any():
                        out.count('hmf_default_negative_flux_runs')
                results.append((a.copy(), gg.copy(), dict(MON.updates), cfin))
        finally:
            np.random.set_state(state)
        (a1, g1, u1, c1), (a2, g2, u2, c2) = results

        _count_planted(out, case)
        if case.get('large_n'):
            out.count('hmf_large_n:%d' % case['large_n'])
            if case['large_n'] > 2000:
                out.count('hmf_same_seed_pairs_above_2000_spectra')

        def hmf_factory(ss, ww, seed):
            def make():
                ins = {'spectra': ss.copy(), 'invvar': ww.copy()}
                MON.reset_run(nonneg_data=nonneg_data)
                hh = HMF(ins['spectra'], ins['invvar'], K=K, n_iter=min(n_iter, 2), seed=seed, nonnegative=nonneg, epsilon=eps)
                res = hh.solve()
                return (lambda order: {'acoeff': res['acoeff'], 'flux': res['flux'], 'a': hh.a, 'g': hh.g, 'model': hh.model()}), ins
            return make
        state = np.random.get_state()
        before = dict(MON.evals)
        try:
            if not case.get('light'):
                live_objects(out, 'hmf', [
                    ('A', hmf_factory(s0, w0, case['seed'])),
                    ('B(same shape, other spectra, other seed)', hmf_factory(s0[::-1] * 1.3, w0[::-1] / 1.69, case['seed'] + 1)),
                    (('C(one pixel less)', hmf_factory(s0[:, 1:], w0[:, 1:], case['seed'])) if M >= K + 8 else
                     ('C(one pixel more)', hmf_factory(np.hstack([s0, s0[:, :1] * 1.25]), np.hstack([w0, w0[:, :1]]), case['seed']))),
                ], [None], exempt=(frozenset(('acoeff', 'a')), frozenset(('flux', 'g'))), volatile=('model',))
        except MonitorViolation as e:
            _contract_failure(out, e, 'live-objects solves')
        finally:
            np.random.set_state(state)
            self._flush_contract_counters(out, before)
        if 'shape' in case:
            out.count('hmf_shape:' + case['shape'])
        out.count('hmf_same_seed_pairs')
        if case['seed'] == 0 and K >= 2:
            out.count('hmf_seed_zero_cases')
        same = a1.tobytes() == a2.tobytes() and g1.tobytes() == g2.tobytes()
        out.expect(same, 'same-seed', 'two solves with seed=%d gave different results: max |da| = %.3g, max |dg| = %.3g' % (
            case['seed'], float(np.max(np.abs(a1 - a2))), float(np.max(np.abs(g1 - g2)))))
        nmask = int((w0 == 0).sum())
        out.nontrivial = nmask > 0 and K >= 2
        out.info.update(N=N, M=M, K=K, n_iter=n_iter, epsilon=eps, nonnegative=nonneg, masked=nmask, updates=u1,
                        final_chi2=c1, chi2_per_dof=c1 / max(1, int((w0 > 0).sum()) - K * (N + M)))

    # ---- HMF: the update steps called directly ---------------------------------------------------------
    def _run_hmf_direct(self, case, out):
        HMF = self.S1.HMF
        s_full = np.array(case['spectra'], dtype='f8')
        w_full = np.array(case['invvar'], dtype='f8')
        K, eps, nonneg = case['K'], case['epsilon'], case['nonnegative']
        cols, rows = case['dataless_columns'], case['dataless_spectra']
        s, w = s_full.copy(), w_full.copy()
        w[:, cols] = 0
        w[rows, :] = 0
        nonneg_data = bool((s >= 0).all())
        before = dict(MON.evals)
        state = np.random.get_state()
        try:
            if case['init'] == 'from_solve':
                MON.reset_run(nonneg_data=nonneg_data)
                hs = HMF(s_full.copy(), w_full.copy(), K=K, n_iter=2, seed=case['seed'], nonnegative=nonneg, epsilon=eps)
                try:
                    hs.solve()
                except MonitorViolation as e:
                    _contract_failure(out, e, 'solve() providing the start of the direct steps')
                    return
                a, gg = np.array(hs.a, copy=True), np.array(hs.g, copy=True)
                out.count('hmf_direct_from_solve')
            else:
                a, gg = np.array(case['a0'], dtype='f8'), np.array(case['g0'], dtype='f8')
            h = HMF(s, w, K=K, n_iter=2, seed=case['seed'], nonnegative=nonneg, epsilon=eps)
            h.a, h.g = a, gg
            MON.reset_run(nonneg_data=nonneg_data)
            MON.direct = True
            for k, step in enumerate(case['steps']):
                label = 'direct call #%d: %s() (epsilon=%r, dataless pixels %r, dataless spectra %r, start %s)' % (
                    k + 1, step, eps, cols, rows, case['init'])
                a_in, g_in = np.array(h.a, copy=True), np.array(h.g, copy=True)
                try:
                    res = getattr(h, step)()
                except MonitorViolation as e:
                    _contract_failure(out, e, label)
                    return
                except np.linalg.LinAlgError:
                    if step == 'astep' and rows:
                        # a spectrum without data leaves its coefficients undetermined: refusing is as good as any value
                        out.count('hmf_direct_astep_dataless_spectrum_refused')
                        break
                    raise
                res = np.asarray(res, dtype='f8')
                out.count('hmf_direct_steps')
                if step == 'gstep' and cols and eps is not None and eps > 0:
                    out.count('hmf_direct_dataless_column_gsteps')
                if step == 'gstep' and rows:
                    out.count('hmf_direct_dataless_spectrum_gsteps')
                # independent dense reference where the update is an exact optimum: astep always, gstep without smoothing
                ref = None
                if step == 'astep':
                    ref = (R.hmf_ref_astep(s, w, g_in), g_in)
                    got = (res, g_in)
                    excess = R.hmf_solver_excess(w, g_in, res, 'a')
                elif step == 'gstep' and not (eps is not None and eps > 0):
                    ref = (a_in, R.hmf_ref_gstep(s, w, a_in))
                    got = (a_in, res)
                    excess = R.hmf_solver_excess(w, a_in, res, 'g', eps)
                if ref is not None:
                    cr = R.hmf_chi2(s, w, *ref)
                    cg = R.hmf_chi2(s, w, *got)
                    err = (R.hmf_objective_eval_error(s, w, ref[0], ref[1], None) + R.hmf_objective_eval_error(s, w, got[0], got[1], None)
                           + excess)
                    allow = TOL_MONO * abs(cr) + MONO_EVAL * err + np.finfo(float).tiny
                    MON.worst('direct_step_above_reference_optimum/allowed', max((cg - cr) / allow, 0.0))
                    out.expect(cg - cr <= allow, 'a-optimum' if step == 'astep' else 'g-optimum',
                               '%s: chi-square %.17g of the returned update exceeds the optimum %.17g of an independent dense '
                               'least-squares solve (allowed %.3g)' % (label, cg, cr, allow))
                    out.count('hmf_direct_reference_optimum_checks')
                if step.startswith('astep'):
                    _check_zero_spectra(out, case, res, label)
                    h.a = res
                else:
                    h.g = res
        finally:
            MON.direct = False
            np.random.set_state(state)
            self._flush_contract_counters(out, before)
        _count_planted(out, case)
        out.nontrivial = K >= 2 and (bool(cols) or int((w_full == 0).sum()) > 0)
        out.info.update(N=s.shape[0], M=s.shape[1], K=K, epsilon=eps, steps=case['steps'], init=case['init'], dataless_columns=cols,
                        dataless_spectra=rows)

    # ---- HMF: same seed, different call orderings ------------------------------------------------------
    def _run_hmf_order(self, case, out):
        HMF = self.S1.HMF
        s0 = np.array(case['spectra'], dtype='f8')
        w0 = np.array(case['invvar'], dtype='f8')
        N, M = s0.shape
        K = case['K']
        Mt = M - sum(case['masked_edges'])
        nonneg_data = bool((s0 >= 0).all())
        before = dict(MON.evals)
        state = np.random.get_state()
        objs = {}
        first = {}          # seed -> (label, a, g) of the first solve with that seed
        ncmp = 0
        try:
            np.random.seed(case['global_seed'])
            for k, op in enumerate(case['ops']):
                if op[0] == 'new':
                    objs[op[1]] = (HMF(s0.copy(), w0.copy(), K=K, n_iter=case['n_iter'], seed=op[2],
                                       nonnegative=case['nonnegative'], epsilon=case['epsilon']), op[2], [0])
                elif op[0] == 'draw':
                    kind, n = op[1], op[2]
                    if kind == 'random':
                        np.random.random(n)
                    elif kind == 'normal':
                        np.random.normal(size=n)
                    elif kind == 'randint':
                        np.random.randint(0, 1000, size=n)
                    elif kind == 'shuffle':
                        np.random.shuffle(np.arange(n + 1))
                    else:
                        np.random.seed(n)
                else:
                    h, seed, nsolved = objs[op[1]]
                    nsolved[0] += 1
                    label = 'op %d: solve #%d of object %s (seed %d)' % (k, nsolved[0], op[1], seed)
                    MON.reset_run(nonneg_data=nonneg_data)
                    try:
                        res = h.solve()
                    except MonitorViolation as e:
                        _contract_failure(out, e, label)
                        return
                    finally:
                        self._flush_contract_counters(out, before)
                        before = dict(MON.evals)
                    out.count('hmf_solves')
                    if nsolved[0] > 1:
                        out.count('hmf_order_resolves_of_one_object')
                    a, gg = np.array(res['acoeff']), np.array(res['flux'])
                    ok = a.shape == (N, K) and gg.shape == (K, Mt) and np.isfinite(a).all() and np.isfinite(gg).all()
                    out.expect(ok, 'hmf-result', '%s returned acoeff %r / flux %r, expected (%d,%d) / (%d,%d), finite' % (
                        label, a.shape, gg.shape, N, K, K, Mt))
                    if not ok:
                        return
                    _check_zero_spectra(out, case, a, label)
                    if seed not in first:
                        first[seed] = (label, a, gg)
                        continue
                    l0, a0, g0 = first[seed]
                    ncmp += 1
                    same = a.tobytes() == a0.tobytes() and gg.tobytes() == g0.tobytes()
                    out.expect(same, 'same-seed', 'same data, same parameters, same seed, different results: [%s] vs [%s]: '
                               'max |da| = %.3g, max |dg| = %.3g (pattern %s)' % (
                                   l0, label, float(np.max(np.abs(a - a0))), float(np.max(np.abs(gg - g0))), case['pattern']),
                               ops=case['ops'][:k + 1])
        finally:
            np.random.set_state(state)
        _count_planted(out, case)
        out.count('hmf_order_equal_seed_comparisons', ncmp)
        if case['seed'] == 0 and K >= 2:
            out.count('hmf_seed_zero_cases')
        out.count('hmf_order:' + case['pattern'])
        out.nontrivial = K >= 2 and ncmp >= 1
        out.info.update(N=N, M=M, K=K, pattern=case['pattern'], ops=case['ops'], comparisons=ncmp)

    # ---- pca_solve --------------------------------------------------------------------------------
    def _run_pca(self, case, out):
        flux = np.array(case['flux'], dtype='f4')
        ivar = np.array(case['ivar'], dtype='f4')
        nobj, npix = flux.shape
        nkeep, nreturn = case['nkeep'], case['nreturn']
        r = self.S1.pca_solve(flux, ivar, maxiter=case['maxiter'], niter=case['niter'], nkeep=nkeep, nreturn=nreturn)
        nret = nkeep if nreturn is None else nreturn
        good = ivar != 0
        ok = all(k in r for k in ('flux', 'acoeff', 'eigenval', 'usemask'))
        out.expect(ok, 'pca-result', 'missing keys in %r' % sorted(r))
        if not ok:
            return
        G = np.asarray(r['flux'])
        ac = np.asarray(r['acoeff'])
        ev = np.asarray(r['eigenval'])
        um = np.asarray(r['usemask'])
        ok = G.shape == (nret, npix) and ac.shape == (nobj, nkeep) and ev.shape == (min(nret, nobj),) and um.shape == (npix,)
        out.expect(ok and np.isfinite(G).all() and np.isfinite(ac).all() and np.isfinite(ev).all(), 'pca-result',
                   'shapes/finite: flux %r acoeff %r eigenval %r usemask %r' % (G.shape, ac.shape, ev.shape, um.shape))
        if not ok:
            return
        out.expect(bool((np.diff(ev) <= 0).all()), 'pca-eigenvalues', 'eigenvalues not non-increasing', got=ev)
        want = good.sum(0)
        out.expect(bool((um == want).all()), 'pca-usemask', 'usemask differs from the number of good spectra per pixel at %d pixels' % (
            int((um != want).sum())), got=um, want=want)
        if (want == 0).any():
            out.count('pca_masked_columns')
        if nret >= nkeep:
            worst = 0.0
            Gk = G[:nkeep].astype('f8')
            for i in range(nobj):
                rel, cond = R.projection_residual(Gk, ivar[i].astype('f8'), flux[i].astype('f8'), ac[i])
                worst = max(worst, rel)
                out.count('pca_projections')
            self._margin('pca_projection_residual/tol', worst / TOL_PROJ)
            out.expect(worst <= TOL_PROJ, 'pca-projection',
                       'acoeff is not the inverse-variance weighted projection on the returned eigenspectra: relative '
                       'normal-equation residual %.3g' % worst)
        else:
            out.count('pca_projection_not_checkable(nreturn<nkeep)')
        # same call again after a call on different data: nothing may survive from one call to the next
        self.S1.pca_solve(flux[::-1, ::-1].copy(), ivar[::-1, ::-1].copy(), maxiter=0, niter=1, nkeep=nkeep)
        r2 = self.S1.pca_solve(flux.copy(), ivar.copy(), maxiter=case['maxiter'], niter=case['niter'], nkeep=nkeep, nreturn=nreturn)
        for k in sorted(r):
            out.expect(k in r2 and _same_bits(r[k], r2[k]), 'pca-stale-state',
                       'pca_solve called twice on the same input (another call in between) returned a different %r' % k)
        out.count('stale_pca_recalls')
        if 'shape' in case:
            out.count('pca_shape:' + case['shape'])

        def pca_factory(ff, vv):
            def make():
                ins = {'newflux': ff.copy(), 'newivar': vv.copy()}
                res = self.S1.pca_solve(ins['newflux'], ins['newivar'], maxiter=case['maxiter'], niter=case['niter'], nkeep=nkeep,
                                        nreturn=nreturn)
                return (lambda order: dict(res)), ins
            return make
        live_objects(out, 'pca', [
            ('A', pca_factory(flux, ivar)),
            ('B(same shape, other spectra)', pca_factory(flux[::-1, ::-1] * np.float32(1.5), ivar[::-1, ::-1])),
            ('C(one more pixel)', pca_factory(np.hstack([flux, flux[:, :1]]), np.hstack([ivar, ivar[:, :1]]))),
        ], [None])
        out.nontrivial = bool((~good).any()) and nkeep >= 2
        out.info.update(nobj=nobj, npix=npix, nkeep=nkeep, nreturn=nreturn, niter=case['niter'], maxiter=case['maxiter'],
                        masked=int((~good).sum()), eigenval=ev)

    # ------------------------------------------------------------------------------------ evidence
    def summarise(self, case):
        c = {}
        for k, v in case.items():
            if isinstance(v, list) and v and isinstance(v[0], list):
                c[k] = 'matrix %dx%d, first row head %r' % (len(v), len(v[0]), v[0][:4])
            elif isinstance(v, list) and len(v) > 12:
                c[k] = 'vector %d, head %r' % (len(v), v[:4])
            else:
                c[k] = v
        return c

    def shard_extra(self):
        m = dict(self.margins)
        m.update({'hmf_' + k: v for k, v in MON.maxima.items()})
        return {'x_margins': m}

    def extra_evidence(self, merged):
        worst = {}
        for d in merged.get('x_margins', []):
            for k, v in d.items():
                if k not in worst or not v <= worst[k]:
                    worst[k] = v
        return {'worst_observed': {k: worst[k] for k in sorted(worst)},
                'worst_observed_note': 'err/tol entries are fractions of the tolerance used (1.0 = at tolerance); hmf_* are raw values '
                                       '(tolerances: residual %g, objective increase %g relative + %g x evaluation-error bound, rms %g)' % (TOL_RES, TOL_MONO, MONO_EVAL, TOL_RMS)}


CHECK = C15()
