"""C02 - yanny: the meaning of a file does not depend on its surface syntax.

Events: yanny(path | text file object | binary file object, raw=False|True) and the accessor calls on the result.
Oracle: a *logical document* (pairs, enums, struct definitions with declared C types, rows per table) gives the
expected parse; a renderer with a layout RNG produces admissible surface forms.  Verdict: the real parse of every
rendering equals the expected parse; two different renderings of the same document parse identically (metamorphic).
"""
import os
import random
import numpy as np
from vlib.harness import Check
from vlib.refs import yanny_model as M

INTB = {'short': 15, 'int': 31, 'long': 63}
NPT = {'short': 'i2', 'int': 'i4', 'long': 'i8', 'float': 'f4', 'double': 'f8'}
STRCH = 'abcXYZ019_-+.:;,/()[]<>=!?*&^%$@~|\'`{'


def rstr(rng, maxlen, ws=True, hash_ok=True):
    n = rng.randint(0, maxlen)
    ch = STRCH + (' \t' if ws else '') + ('#' if hash_ok else '')
    s = ''.join(rng.choice(ch) for _ in range(n))
    if s.startswith('{'):
        s = 'x' + s[1:]
    return s


class Renderer:
    """Renders a logical document; every layout freedom is an independent coin of the layout RNG."""

    def __init__(self, seed, freedoms=None, force=None):
        self.L = random.Random(seed)
        self.used = set()
        self.only = freedoms
        self.force = force or {}      # layout decisions fixed by the caller (e.g. one line-end convention for a series of files)
        self.blocks = {}              # the lines written for the enum definitions / the struct definitions

    def coin(self, name, p):
        if name in self.force:
            if self.force[name]:
                self.used.add(name)
            return self.force[name]
        if self.only is not None and name not in self.only:
            return False
        r = self.L.random() < p
        if r:
            self.used.add(name)
        return r

    def ws(self):
        if self.coin('blank_runs', 0.6):
            return self.L.choice(['  ', '\t', ' \t ', '    ', '\t\t'])
        return ' '

    def cws(self):
        """white space in front of a trailing comment: none at all is legal too (`54579# mjd`)"""
        if self.coin('tight_trailing_comment', 0.25):
            return ''
        return self.ws()

    def comment(self, hostile=False):
        body = ''.join(self.L.choice('abc XYZ 019 _-+.:,/()=!?\'') for _ in range(self.L.randint(0, 20)))
        if hostile and self.coin('hostile_comment', 0.5):
            body += self.L.choice([' # second mark', ' a lone " quote', ' ## # #', ' "quoted" text', ' {{}} ', ' it\'s 5" #1'])
        return '#' + self.L.choice(['', ' ']) + body.rstrip('\\')

    def fmt_num(self, v, typ):
        L = self.L
        if typ in INTB:
            s = str(v)
            if self.coin('number_spelling', 0.3):
                if v >= 0:
                    s = L.choice(['+' + s, '0' * L.randint(1, 3) + s, s])
                else:
                    s = '-' + '0' * L.randint(0, 2) + s[1:]
            return s
        if v != v:
            return L.choice(['nan', 'NaN', 'NAN', '-nan'])
        if v in (float('inf'), float('-inf')):
            return ('-' if v < 0 else L.choice(['', '+'])) + L.choice(['inf', 'Inf', 'INF', 'Infinity'])
        s = repr(float(v))
        if self.coin('number_spelling', 0.4):
            alt = [('%.17e' % v), ('%.17E' % v), ('%.17g' % v)]
            if float(v) == int(v) and abs(v) < 1e15:
                alt += ['%d.' % v, '%d' % v, '%de0' % v, '%d.0E+00' % v]
            if 0 < abs(v) < 1 and s.startswith(('0.', '-0.')):
                alt.append(s.replace('0.', '.', 1))
            if v >= 0:
                alt.append('+' + s)
            s = L.choice(alt)
        return s

    def fmt_str(self, s, in_array):
        opts = ['q']
        if len(s) > 0 and not any(c in s for c in ' \t#') and not s.startswith(('{', '"')):
            opts += ['b', 'b']
        if not in_array and s == s.strip() and not any(c in s for c in '#}"') and not (s == ''):
            opts.append('br')
        if s == '' and not in_array:
            opts += ['db', 'eb']
        if s == '' and in_array:
            opts += ['db']
        o = self.L.choice(opts)
        if o != 'b':
            self.used.add({'q': 'quoted', 'br': 'brace_wrapped', 'db': 'double_brace_empty', 'eb': 'brace_empty'}[o])
        if self.only is not None and o in ('br', 'db', 'eb') and 'brace_strings' not in self.only:
            o = 'q'
        if o == 'q':
            return '"' + s + '"'
        if o == 'b':
            return s
        if o == 'br':
            return '{' + s + '}'
        if o == 'eb':
            return self.L.choice(['{}', '{ }'])
        return self.L.choice(['{{}}', '{ { } }', '{{ }}', '{ {}}'])

    def render(self, doc, shared=None):
        """shared: {'enums': [lines], 'structs': [lines]} - definition blocks to be written verbatim (the definitions of
        another file of the same kind, character for character) instead of being laid out afresh."""
        L = self.L
        out = []
        shared = shared or {}

        def junk():
            if self.coin('blank_and_comment_lines', 0.5):
                for _ in range(L.randint(1, 2)):
                    out.append(L.choice(['', self.comment(), '   ', '\t', self.comment(True)]))
        if L.random() < 0.5:
            out.append('#%yanny')
        junk()
        for k, v in doc['pairs']:
            line = k + self.ws() + v if v else k
            if v and self.coin('continuation', 0.25):
                # (the line break counts as one blank: neither a blank before the backslash nor indentation of the next line is needed)
                line = k + L.choice([' ', ' ', '']) + '\\' + L.choice(['', ' ', '\t']) + '\n' + L.choice([self.ws(), self.ws(), '']) + v
            if self.coin('trailing_comment', 0.3):
                line += self.cws() + self.comment(True)
            elif self.coin('trailing_blanks', 0.2):
                line += L.choice([' ', '\t', '  '])
            out.append(line)
            junk()
        mark = len(out)
        for en, labs in ([] if 'enums' in shared else doc['enums'].items()):
            name = en if not self.coin('typedef_name_case', 0.3) else L.choice([en.lower(), en.capitalize()])
            # enum type names are matched literally by the member declarations: keep the declared spelling
            name = en
            if self.coin('one_line_enum', 0.4):
                out.append('typedef enum {' + self.ws() + (',' + self.ws()).join(labs) + self.ws() + '} ' + name + ';')
            else:
                out.append('typedef' + self.ws() + 'enum' + L.choice([' ', '']) + '{')
                for i, l in enumerate(labs):
                    out.append(self.ws() + l + (',' if i < len(labs) - 1 else ''))
                out.append('}' + self.ws() + name + ';')
            junk()
        out.extend(shared.get('enums', []))
        self.blocks['enums'] = out[mark:]
        mark = len(out)
        order = list(range(len(doc['tables'])))
        for ti in ([] if 'structs' in shared else order):
            t = doc['tables'][ti]
            tn = t['name']
            if self.coin('typedef_name_case', 0.4):
                tn = L.choice([tn.lower(), tn.upper(), ''.join(L.choice([c.upper(), c.lower()]) for c in tn)])
            legacy = self.coin('legacy_brackets', 0.25)
            lb, rb = ('<', '>') if legacy else ('[', ']')
            out.append('typedef' + self.ws() + 'struct' + L.choice([' ', '']) + '{')
            for c in t['cols']:
                d = c['type'] + self.ws() + c['name']
                if c['alen']:
                    d += lb + str(c['alen']) + rb
                if c['type'] == 'char':
                    d += lb + (str(c['clen']) if c['clen'] > 0 else '') + rb
                d += ';'
                if self.coin('typedef_member_comment', 0.3):
                    d += self.ws() + '# ' + ''.join(L.choice('abc XYZ,.#"') for _ in range(L.randint(0, 12)))
                out.append(self.ws() + d)
                if self.coin('comment_line_in_typedef', 0.1):
                    out.append(self.ws() + '# ' + ''.join(L.choice('abc XYZ,.') for _ in range(L.randint(0, 12))))
            tail = '}' + self.ws() + tn + ';'
            if self.coin('trailing_comment', 0.2):
                tail += self.cws() + self.comment(True)
            out.append(tail)
            junk()
        out.extend(shared.get('structs', []))
        self.blocks['structs'] = out[mark:]
        queues = {ti: list(t['rows']) for ti, t in enumerate(doc['tables'])}
        interleave = self.coin('interleaved_tables', 0.6) and len(doc['tables']) > 1
        seq = []
        if interleave:
            while any(queues.values()):
                ti = L.choice([k for k, q in queues.items() if q])
                seq.append((ti, queues[ti].pop(0)))
        else:
            for ti in order:
                seq += [(ti, r) for r in queues[ti]]
        for ti, row in seq:
            t = doc['tables'][ti]
            nm = t['name']
            if self.coin('row_name_case', 0.5):
                nm = L.choice([nm.lower(), nm.upper(), ''.join(L.choice([c.upper(), c.lower()]) for c in nm)])
            toks = [nm]
            for c, val in zip(t['cols'], row):
                isnum = c['type'] in NPT
                if c['alen']:
                    if c['type'] == 'char':
                        inner = [self.fmt_str(v, True) for v in val]
                    elif isnum:
                        inner = [self.fmt_num(v, c['type']) for v in val]
                    else:
                        inner = list(val)
                    pad = self.coin('padded_arrays', 0.4)
                    toks.append('{' + (L.choice([' ', '  ', '\t']) if pad else '') + self.ws().join(inner) +
                                (L.choice([' ', '  ']) if pad else '') + '}')
                else:
                    if c['type'] == 'char':
                        toks.append(self.fmt_str(val, False))
                    elif isnum:
                        toks.append(self.fmt_num(val, c['type']))
                    else:
                        toks.append(val)
            line = (L.choice([' ', '\t', '  ']) if self.coin('leading_blanks', 0.2) else '') + toks[0]
            for tk in toks[1:]:
                if self.coin('continuation', 0.12):
                    tight = L.random() < 0.35
                    line += ('' if tight else ' ') + '\\' + L.choice(['', ' ']) + '\n' + ('' if tight and L.random() < 0.7 else self.ws()) + tk
                    if tight:
                        self.used.add('tight_continuation')
                else:
                    line += self.ws() + tk
            if self.coin('trailing_comment', 0.3):
                line += self.cws() + self.comment(True)
            elif self.coin('trailing_blanks', 0.2):
                line += L.choice([' ', '\t', '   '])
            out.append(line)
            junk()
        crlf = self.coin('crlf', 0.3)
        text = '\n'.join(out)
        if crlf:
            text = text.replace('\n', '\r\n')
        if not self.coin('no_final_newline', 0.3):
            text += '\r\n' if crlf else '\n'
        return text


class C02(Check):
    ID = 'C02'
    RULE = ('random logical documents (0-4 pairs, 0-2 enums, 1-3 tables of 1-6 columns over short/int/long/float/double, '
            'char[n], char[], char[m][n], numeric arrays, enum-typed columns; 1-5 rows) x two independent renderings each '
            'drawn from the layout freedoms of the SDSS specification (comment lines, trailing comments incl. ones '
            'containing # and quotes, blank lines, runs of blanks/tabs, CRLF, backslash continuation, bare/quoted/'
            'brace-wrapped strings, four spellings of the empty string, [n] vs <n>, letter case of structure names on '
            'rows and typedefs, interleaved tables, alternative number spellings, padded arrays, with/without #%yanny and '
            'final newline), read from a path, a text file object or a binary file object, normal and raw mode.  Extra '
            'classes: structure names that are substrings of each other / equal to column names / one letter; sequences of documents that reuse structure and column names with other declarations, read one after another in one process; '
            'series of files of one kind (definition text identical character for character, each file with its own rows and its own '
            'longest strings in the char[] columns; variants: other labels in the enum of the same name, two structures with one member '
            'list, one path rewritten, earlier objects looked at again after the later reads).  The accessor dtype() is compared with the '
            'document\'s column types on every read.  '
            'Non-trivial: >=2 layout freedoms active and >=1 row; distinct by (document, rendering) hash.')
    ASSUMPTIONS = ['typedef members are written one per line as "type name[dims];" (C style, as every SDSS file does); '
                   'comments inside typedef bodies contain no ; { } and not the word typedef',
                   'brace-wrapped strings carry no #, ", } and no edge blanks; pair values carry no #, quotes, edge blanks or {{}}',
                   'char[] columns have at least one non-empty value; a comment never ends with a backslash']
    REQUIRED_COUNTERS = ('same_definitions_other_longest_value_reads_normal_mode', 'same_struct_text_other_enum_labels_reads',
                         'same_path_rewritten_reads', 'twin_structure_documents', 'earlier_objects_looked_at_again', 'dtype_accessor_calls',
                         'same_names_other_types_reads', 'renderings_parsed', 'raw_mode_parses', 'binary_mode_parses', 'crlf_renderings',
                         'continuation_renderings', 'continuation_without_blank_or_indentation_renderings', 'interleaved_renderings', 'hostile_comment_renderings',
                         'metamorphic_pairs', 'char_var_columns', 'enum_columns')

    def setup(self):
        import pydl.pydlutils.yanny as Y
        self.Y = Y
        for f in (Y.yanny._parse, Y.yanny.get_token, Y.yanny.trailing_comment, Y.yanny.type, Y.yanny.isarray,
                  Y.yanny.isenum, Y.yanny.char_length, Y.yanny.array_length, Y.yanny.dtype, Y.yanny.convert,
                  Y.yanny.__init__):
            self.reach.add(f)
        self._n = 0

    def budget(self, tier):
        k = 1 if tier == 'quick' else 100
        return {'random_docs': 1500 * k, 'structname_torture': 400 * k, 'single_freedom': 600 * k,
                'typedef_in_comment': 20 * k, 'name_reuse': 150 * k, 'format_words': 200 * k, 'same_kind_files': 250 * k}

    # ------------------------------------------------------------------ gen
    def gen_rows(self, rng, cols, enums, p_words=0.12):
        """Rows for the declared columns (the draws are made in the same order as when this was part of gen_doc)."""
        rows = []
        nrows = rng.randint(1, 5) if p_words <= 0.5 else rng.randint(3, 8)
        if rng.random() < 0.12 and not any(c['type'] == 'char' and c['clen'] == -1 for c in cols):
            nrows = 0            # a structure that is declared but has no data rows (array columns included)
        for r in range(nrows):
            row = []
            for c in cols:
                def one(in_array):
                    typ = c['type']
                    if typ in INTB:
                        b = INTB[typ]
                        return rng.choice([0, 1, -1, 2**b - 1, -2**b, rng.randint(-2**b, 2**b - 1), rng.randint(-99, 99)])
                    if typ in ('float', 'double'):
                        v = rng.choice([0.0, 1.5, -2.25, 1e10, 1e-10, rng.uniform(-1e3, 1e3), 3.0, -7.0, 0.125,
                                        float('nan'), float('inf'), float('-inf'), rng.gauss(0, 1) * 10**rng.randint(-20, 20)])
                        return float(np.float32(v)) if typ == 'float' else v
                    if typ == 'char':
                        s = rstr(rng, c['clen'] if c['clen'] > 0 else 10)
                        if rng.random() < p_words:
                            # the format's own vocabulary as cell text (F-Y7, F-Y8): just text inside a data row
                            s = rng.choice(M.FORMAT_WORDS)
                            if c['clen'] > 0:
                                s = s[:c['clen']]
                        if in_array:
                            s = s.replace('}', ')')
                        return s
                    return rng.choice(enums[typ])
                row.append([one(True) for _ in range(c['alen'])] if c['alen'] else one(False))
            rows.append(row)
        # char[] columns need one non-empty value; a scalar string in the last column must not end in a backslash
        for ci, c in enumerate(cols):
            if c['type'] == 'char' and c['clen'] == -1 and not c['alen'] and all(len(r[ci]) == 0 for r in rows):
                rows[0][ci] = 'v'
            if c['type'] == 'char' and c['clen'] == -1 and c['alen'] and all(len(x) == 0 for r in rows for x in r[ci]):
                rows[0][ci][0] = 'v'
        if cols[-1]['type'] == 'char' and not cols[-1]['alen']:
            for r in rows:
                r[-1] = r[-1].rstrip('\\')
            if cols[-1]['clen'] == -1 and all(len(r[-1]) == 0 for r in rows):
                rows[0][-1] = 'v'
        return rows

    def gen_doc(self, rng, torture=False, like=None, p_words=0.12):
        """like: another document whose structure names and column names are reused (with freshly drawn types)."""
        ntab = rng.randint(1, 3) if like is None else len(like['tables'])
        names = [] if like is None else [t['name'] for t in like['tables']]
        if torture:
            base = M.ident(rng, 1, 3, suffix=False).upper()
            cand = [base, base + M.ident(rng, 1, 2, suffix=False).upper(), rng.choice('OUIDTNSRAE'), 'X' + base,
                    rng.choice(['ID', 'INT', 'O', 'U', 'OR', 'LE', 'T', 'AR', 'HAR', 'LOAT'])]
            rng.shuffle(cand)
            for c in cand:
                if c not in names and c.lower() not in M.KEYWORDS and len(names) < ntab:
                    names.append(c)
        while len(names) < ntab:
            nm = M.ident(rng, 2, 7).upper()
            if nm not in names:
                names.append(nm)
        enums = {}
        if rng.random() < 0.5:
            for _ in range(rng.randint(1, 2)):
                en = M.ident(rng, 3, 6, suffix=False).upper() + rng.choice(['_T', '_T', '_T2', '2', '_2010', '_V1', ''])
                if en in names:
                    continue
                labs = []
                for k in range(rng.randint(1, 4)):
                    labs.append(M.ident(rng, 1, 6, suffix=False).upper() + str(k))
                enums[en] = labs
        tables = []
        for ti, nm in enumerate(names):
            cols = []
            used = set()
            likecols = None if like is None else [c['name'] for c in like['tables'][ti]['cols']]
            for ci_like in range(rng.randint(1, 6) if likecols is None else len(likecols)):
                cn = M.ident(rng) if likecols is None else likecols[ci_like]
                if likecols is not None:
                    used.discard(cn.lower())
                if torture and rng.random() < 0.3:
                    cn = rng.choice(names).lower() if rng.random() < 0.5 else rng.choice(names)
                if cn.lower() in used or cn.lower() in M.KEYWORDS or cn.upper() == nm:
                    continue
                used.add(cn.lower())
                kind = rng.choice(['short', 'int', 'long', 'float', 'double', 'char', 'chararr', 'numarr', 'enum', 'charvar',
                                   'chararrvar'])
                if kind == 'enum' and not enums:
                    kind = 'int'
                if kind == 'numarr':
                    cols.append({'name': cn, 'type': rng.choice(list(NPT)), 'alen': rng.randint(1, 4), 'clen': 0})
                elif kind == 'char':
                    cols.append({'name': cn, 'type': 'char', 'alen': 0, 'clen': rng.randint(1, 12)})
                elif kind == 'charvar':
                    cols.append({'name': cn, 'type': 'char', 'alen': 0, 'clen': -1})
                elif kind == 'chararrvar':
                    # an array of strings of open length, `char words[3][]`: sized by the longest string anywhere in the column
                    cols.append({'name': cn, 'type': 'char', 'alen': rng.randint(1, 3), 'clen': -1})
                elif kind == 'chararr':
                    cols.append({'name': cn, 'type': 'char', 'alen': rng.randint(1, 3), 'clen': rng.randint(1, 8)})
                elif kind == 'enum':
                    cols.append({'name': cn, 'type': rng.choice(sorted(enums)), 'alen': rng.choice([0, 0, 0, 2]), 'clen': 0})
                else:
                    cols.append({'name': cn, 'type': kind, 'alen': 0, 'clen': 0})
            if not cols:
                cols = [{'name': 'x', 'type': 'int', 'alen': 0, 'clen': 0}]
            if p_words > 0.5:
                # room for the whole words, mostly string columns, more rows
                for c in cols:
                    if c['type'] in ('short', 'int', 'long') and not c['alen'] and rng.random() < 0.5:
                        c['type'], c['clen'] = 'char', 24
                    if c['type'] == 'char' and c['clen'] > 0:
                        c['clen'] = 24
            rows = self.gen_rows(rng, cols, enums, p_words)
            tables.append({'name': nm, 'cols': cols, 'rows': rows})
        if torture and like is None and len(tables) >= 2 and rng.random() < 0.4:
            # structure names A and A_X, with a column X_c in A and a column c in A_X of another declared type: every identifier
            # is distinct, but "structure + '_' + column" is not
            t0, t1 = tables[0], tables[1]
            cand = [c for c in t1['cols'] if c['type'] in NPT or c['type'] == 'char']
            X = M.ident(rng, 1, 3, suffix=False).upper()
            newname = t0['name'] + '_' + X
            if cand and newname.upper() not in [t['name'].upper() for t in tables] and newname.upper() not in names:
                c1 = rng.choice(cand)
                cn = X + '_' + c1['name']
                if cn.lower() not in [c['name'].lower() for c in t0['cols']]:
                    names[names.index(t1['name'])] = newname
                    t1['name'] = newname
                    if c1['type'] in NPT and not c1['alen']:
                        col = {'name': cn, 'type': 'char', 'alen': 0, 'clen': 6}
                        vals = [rng.choice(['ab', 'x y', '17.5', '']) for _ in t0['rows']]
                    else:
                        col = {'name': cn, 'type': 'double', 'alen': 2, 'clen': 0}
                        vals = [[1.5 * k, -2.25] for k, _ in enumerate(t0['rows'])]
                    # not as the last column (the last-column rules were applied above)
                    t0['cols'].insert(0, col)
                    for r, v in zip(t0['rows'], vals):
                        r.insert(0, v)
        pairs = []
        seen = set()
        for _ in range(rng.randint(0, 4)):
            k = M.pair_key(rng, 1, 8)
            if k.upper() in names or k.lower() in seen:
                continue
            seen.add(k.lower())
            v = rstr(rng, 15, hash_ok=False).strip()
            if v.endswith('\\') or '{{' in v or ('{' in v and '}' in v):
                v = v.replace('{', '(').rstrip('\\')
            pairs.append([k, v])
        return {'pairs': pairs, 'enums': enums, 'tables': tables}

    FREEDOMS = ['tight_trailing_comment', 'blank_runs', 'hostile_comment', 'number_spelling', 'continuation', 'trailing_comment', 'trailing_blanks',
                'typedef_name_case', 'one_line_enum', 'legacy_brackets', 'typedef_member_comment',
                'comment_line_in_typedef', 'interleaved_tables', 'row_name_case', 'padded_arrays', 'leading_blanks',
                'crlf', 'no_final_newline', 'blank_and_comment_lines', 'brace_strings']

    SAFE = 'abcXYZ019_-+.:/'

    def impose_widths(self, rng, doc, prev):
        """Makes the longest value of every char[] / char[n][] column of `doc` a freshly drawn length, different from the one the
        same column has in `prev` (another file of the same kind)."""
        for ti, t in enumerate(doc['tables']):
            for ci, c in enumerate(t['cols']):
                if not (c['type'] == 'char' and c['clen'] == -1):
                    continue
                before = None
                if prev is not None:
                    before = max(len(x) for r in prev['tables'][ti]['rows'] for x in (r[ci] if c['alen'] else [r[ci]]))
                W = rng.choice([w for w in range(1, 15) if w != before])
                for r in t['rows']:
                    if c['alen']:
                        r[ci] = [x[:W] for x in r[ci]]
                    else:
                        r[ci] = r[ci][:W]
                        if ci == len(t['cols']) - 1:
                            r[ci] = r[ci].rstrip('\\')
                word = ''.join(rng.choice(self.SAFE) for _ in range(W))
                r = rng.choice(t['rows'])
                if c['alen']:
                    r[ci][rng.randrange(c['alen'])] = word
                else:
                    r[ci] = word

    @staticmethod
    def widths_differing(doc, prev):
        """number of char[] / char[n][] columns whose longest value in `doc` has another length than in `prev`"""
        n = 0
        for t, tp in zip(doc['tables'], prev['tables']):
            for ci, c in enumerate(t['cols']):
                if c['type'] == 'char' and c['clen'] == -1:
                    w = [max(len(x) for r in tt['rows'] for x in (r[ci] if c['alen'] else [r[ci]])) for tt in (t, tp)]
                    n += w[0] != w[1]
        return n

    def gen_same_kind(self, cls, rng):
        """Files of one kind, as a pipeline reads them one after another in one process: the definitions are the same text character
        for character (written by the same program), the data are each file's own - other rows, another number of rows, other
        longest strings in the char[] columns.  Variants: the enum of the same name has other labels (another software version)
        while the struct text stays; two structures of one file have the same member list; every file of the series is written
        to the same path; the objects read first stay alive and are looked at again after the later reads."""
        a = self.gen_doc(rng)
        # at least one column of open length (identifiers drawn by the model never hold a q or a z)
        if not any(c['type'] == 'char' and c['clen'] == -1 for t in a['tables'] for c in t['cols']):
            t = rng.choice(a['tables'])
            col = {'name': 'zq' + M.ident(rng, 1, 4, suffix=False), 'type': 'char', 'alen': rng.choice([0, 0, 2, 3]), 'clen': -1}
            t['cols'].insert(rng.randrange(len(t['cols']) + 1), col)
            t['rows'] = self.gen_rows(rng, t['cols'], a['enums'])
        twin = len(a['tables']) >= 2 and rng.random() < 0.3
        if twin:
            # two structures with the same member list (PLUGMAPOBJ / PLUGMAPOBJ_OLD): each is sized by its own rows
            a['tables'][1]['cols'] = [dict(c) for c in a['tables'][0]['cols']]
            a['tables'][1]['rows'] = self.gen_rows(rng, a['tables'][1]['cols'], a['enums'])
        self.impose_widths(rng, a, None)
        other_enum = bool(a['enums']) and rng.random() < 0.3
        docs = [a]
        for k in range(rng.randint(1, 3)):
            prev = docs[-1]
            d = {'pairs': [[key, (v if rng.random() < 0.5 else rstr(rng, 12, ws=False, hash_ok=False).replace('{', '(') or 'v')]
                           for key, v in a['pairs']],
                 'enums': {en: list(labs) for en, labs in prev['enums'].items()}, 'tables': []}
            if other_enum:
                for en in d['enums']:
                    # same enum name, other labels, and the longest label has another length
                    before = max(len(x) for x in d['enums'][en])
                    W = rng.choice([w for w in range(2, 12) if w != before])
                    labs = [M.ident(rng, 1, min(5, W - 1), suffix=False).upper() + str(j) for j in range(rng.randint(1, 4))]
                    labs[rng.randrange(len(labs))] = 'L' * (W - 1) + '9'
                    d['enums'][en] = labs
            for t in a['tables']:
                cols = [dict(c) for c in t['cols']]
                rows = self.gen_rows(rng, cols, d['enums'])      # (never empty when a column has open length)
                d['tables'].append({'name': t['name'], 'cols': cols, 'rows': rows})
            self.impose_widths(rng, d, prev)
            docs.append(d)
        if rng.random() < 0.5:
            # ... and the first file once more at the end (its own widths again)
            docs.append(a)
        differ = [self.widths_differing(d, p) for p, d in zip(docs, docs[1:])]
        crlf = rng.random() < 0.25
        same_path = rng.random() < 0.3
        seq = []
        shared = {}
        for k, d in enumerate(docs):
            R = Renderer(rng.getrandbits(32), None, {'crlf': crlf})
            text = R.render(d, shared)
            if k == 0:
                shared = {'structs': R.blocks['structs']}
                if not other_enum:
                    shared['enums'] = R.blocks['enums']
            seq.append({'doc': d, 'text': text, 'freedoms': sorted(R.used),
                        'mode': 'path' if same_path else rng.choice(['path', 'path', 'text', 'binary', 'text_nl']),
                        'raw': rng.random() < 0.2, 'open_length_columns_differing': 0 if k == 0 else differ[k - 1]})
        return {'kind': cls, 'sequence': seq, 'same_path': same_path, 'other_enum': other_enum, 'twin_structures': twin}

    def gen(self, cls, rng, i):
        if cls == 'same_kind_files':
            return self.gen_same_kind(cls, rng)
        if cls == 'name_reuse':
            # several documents read one after another in the same process that reuse structure and column names with
            # different declarations (files of the same kind from different software versions): nothing may leak from one
            # read into the next
            a = self.gen_doc(rng)
            a['enums'] = {}
            for t in a['tables']:
                for c in t['cols']:
                    if c['type'] not in NPT and c['type'] != 'char':
                        c['type'] = 'int'
                        c['alen'] = 0
                        t['rows'] = [[(7 if cc is c else v) for cc, v in zip(t['cols'], r)] for r in t['rows']]
            b = self.gen_doc(rng, like=a)
            seq = [a, b, a] if rng.random() < 0.5 else [b, a, b]
            docs = []
            for d in seq:
                R = Renderer(rng.getrandbits(32), {'blank_runs', 'trailing_comment'})
                docs.append({'doc': d, 'text': R.render(d), 'mode': rng.choice(['path', 'text', 'binary']), 'raw': rng.random() < 0.3})
            return {'kind': cls, 'sequence': docs}
        # class format_words: most string cells are the format's own vocabulary (definition words, brace groups, statement ends)
        doc = self.gen_doc(rng, torture=(cls == 'structname_torture'), p_words=0.7 if cls == 'format_words' else 0.12)
        rend = []
        for k in range(2):
            seed = rng.getrandbits(32)
            only = None
            if cls == 'single_freedom':
                only = {self.FREEDOMS[(i + k) % len(self.FREEDOMS)]}
                if 'hostile_comment' in only or 'tight_trailing_comment' in only:
                    only.add('trailing_comment')
            R = Renderer(seed, only)
            text = R.render(doc)
            rend.append({'text': text, 'freedoms': sorted(R.used), 'mode': rng.choice(['path', 'text', 'binary', 'text_nl']),
                         'raw': rng.random() < 0.3})
        case = {'kind': cls, 'doc': doc, 'renderings': rend}
        if cls == 'typedef_in_comment':
            t = doc['tables'][0]
            inj = rng.choice(['# typedef struct { int zz; } %s;', '#typedef struct {\n#    int zz;\n# } %s;',
                              '  # typedef enum { AA, BB } %s;']) % rng.choice(['ZZFAKE', t['name']])
            for r in rend:
                lines = r['text'].split('\n')
                # a comment line may go anywhere except inside a backslash-continued logical line
                ok = [k for k in range(1, len(lines) + 1) if not lines[k - 1].rstrip(' \t\r').endswith('\\')]
                lines.insert(rng.choice(ok), inj + ('\r' if r['text'].count('\r\n') else ''))
                r['text'] = '\n'.join(lines)
        return case

    # ------------------------------------------------------------------ run
    def expected(self, doc):
        return doc

    def parse(self, r, fn=None):
        self._n += 1
        fn = fn or os.path.join(self.workdir, 'c02_%d.par' % self._n)
        data = r['text'].encode('ascii')
        with open(fn, 'wb') as f:
            f.write(data)
        try:
            if r['mode'] == 'path':
                return self.Y.yanny(fn, raw=r['raw'])
            if r['mode'] == 'binary':
                with open(fn, 'rb') as f:
                    return self.Y.yanny(f, raw=r['raw'])
            if r['mode'] == 'text_nl':
                with open(fn, 'r', newline='') as f:
                    return self.Y.yanny(f, raw=r['raw'])
            with open(fn, 'r') as f:
                return self.Y.yanny(f, raw=r['raw'])
        finally:
            os.remove(fn)

    @staticmethod
    def model_dtype(doc, t):
        dt = []
        for ci, c in enumerate(t['cols']):
            typ = c['type']
            if typ in NPT:
                base = NPT[typ]
            elif typ == 'char' and c['clen'] > 0:
                base = 'S%d' % c['clen']
            elif typ == 'char':
                base = 'S%d' % max(len(x) for r in t['rows'] for x in (r[ci] if c['alen'] else [r[ci]]))
            else:
                base = 'S%d' % max(len(x) for x in doc['enums'][typ])
            dt.append((c['name'], base, (c['alen'],)) if c['alen'] else (c['name'], base))
        return np.dtype(dt)

    @staticmethod
    def same_float(a, b):
        if a != a or b != b:
            return a != a and b != b
        return a == b and np.signbit(a) == np.signbit(b)

    def compare(self, out, y, doc, raw, where):
        keys = [k for k, v in doc['pairs']]
        out.expect(list(y.pairs()) == keys, 'pairs', '%s: pair keys %r != %r' % (where, list(y.pairs()), keys))
        for k, v in doc['pairs']:
            if k in y:
                out.expect(y[k] == v, 'pairs', '%s: pair %s = %r expected %r' % (where, k, y[k], v))
        names = [t['name'] for t in doc['tables']]
        out.expect(sorted(y.tables()) == sorted(names), 'tables', '%s: tables %r != %r' % (where, y.tables(), names))
        for t in doc['tables']:
            nm = t['name']
            if nm not in y.tables():
                continue
            cols = [c['name'] for c in t['cols']]
            if not out.expect(list(y.columns(nm)) == cols, 'columns', '%s:%s columns %r != %r' % (where, nm, y.columns(nm), cols)):
                continue
            if not out.expect(y.size(nm) == len(t['rows']), 'rows', '%s:%s row count %d != %d' % (where, nm, y.size(nm), len(t['rows']))):
                continue
            tab = y[nm]
            if t['rows'] or not any(c['type'] == 'char' and c['clen'] == -1 for c in t['cols']):
                # the accessor dtype(): the column types of *this* document (declared types; char[] by this document's longest value;
                # enums by this document's longest label), in normal and in raw mode alike
                want = self.model_dtype(doc, t)
                try:
                    got = y.dtype(nm)
                except Exception as e:       # noqa
                    got = '%s: %s' % (type(e).__name__, e)
                out.expect(isinstance(got, np.dtype) and got == want, 'dtype-accessor', '%s: dtype(%r) is %r, the document needs %r' % (where, nm, got, want))
                out.count('dtype_accessor_calls')
            for ci, c in enumerate(t['cols']):
                typ = c['type']
                isenum = typ in doc['enums']
                if not raw:
                    dt = tab.dtype[c['name']]
                    base = dt.subdtype[0] if dt.subdtype else dt
                    shape = tuple(dt.subdtype[1]) if dt.subdtype else ()
                    out.expect(shape == ((c['alen'],) if c['alen'] else ()), 'dtype', '%s:%s.%s shape %s' % (where, nm, c['name'], shape))
                    if typ in NPT:
                        out.expect(base.str[1:] == NPT[typ], 'dtype', '%s:%s.%s dtype %s declared %s' % (where, nm, c['name'], base, typ))
                    elif typ == 'char' and c['clen'] > 0:
                        out.expect(base.kind == 'S' and base.itemsize == c['clen'], 'dtype',
                                   '%s:%s.%s dtype %s declared char[%d]' % (where, nm, c['name'], base, c['clen']))
                    elif typ == 'char':
                        longest = max(len(x) for r in t['rows'] for x in ([r[ci]] if not c['alen'] else r[ci]))
                        out.expect(base.kind == 'S' and base.itemsize == longest, 'dtype',
                                   '%s:%s.%s char[] sized %s, longest value %d' % (where, nm, c['name'], base, longest))
                    elif isenum:
                        longest = max(len(x) for x in doc['enums'][typ])
                        out.expect(base.kind == 'S' and base.itemsize == longest, 'dtype',
                                   '%s:%s.%s enum sized %s, longest label %d' % (where, nm, c['name'], base, longest))
                    if shape != ((c['alen'],) if c['alen'] else ()):
                        continue
                for ri, row in enumerate(t['rows']):
                    exp = row[ci] if c['alen'] else [row[ci]]
                    got = tab[c['name']][ri]
                    if raw:
                        g = list(got) if c['alen'] else [got]
                        if c['alen']:
                            out.expect(isinstance(got, list), 'raw', '%s:%s.%s raw array cell is %s' % (where, nm, c['name'], type(got).__name__))
                    else:
                        g = np.atleast_1d(got).tolist()
                    if typ == 'char' or isenum:
                        gs = [x.decode('ascii') if isinstance(x, bytes) else x for x in g]
                        if raw:
                            out.expect(all(isinstance(x, str) for x in g), 'raw', '%s:%s.%s raw string cell type' % (where, nm, c['name']))
                        out.expect(gs == list(exp), 'cell-str', '%s:%s.%s[%d] got %r expected %r' % (where, nm, c['name'], ri, gs, exp))
                    elif typ in INTB:
                        if raw:
                            out.expect(all(type(x) is int for x in g), 'raw', '%s:%s.%s raw int cell type %r' % (where, nm, c['name'], [type(x).__name__ for x in g]))
                        out.expect([int(x) for x in g] == list(exp), 'cell-int', '%s:%s.%s[%d] got %r expected %r' % (where, nm, c['name'], ri, g, exp))
                    else:
                        if raw:
                            out.expect(all(type(x) is float for x in g), 'raw', '%s:%s.%s raw float cell type' % (where, nm, c['name']))
                        e = [float(np.float32(v)) if (typ == 'float' and not raw) else float(v) for v in exp]
                        gg = [float(x) for x in g]
                        out.expect(len(gg) == len(e) and all(self.same_float(a, b) for a, b in zip(gg, e)), 'cell-float',
                                   '%s:%s.%s[%d] got %r expected %r' % (where, nm, c['name'], ri, gg, e))

    def run_same_kind(self, case, out):
        seq = case['sequence']
        fn = os.path.join(self.workdir, 'c02_series_%d.par' % self._n) if case['same_path'] else None
        alive = []
        for k, d in enumerate(seq):
            where = 'file%d-of-series[%s%s]' % (k, d['mode'], ',raw' if d['raw'] else '')
            y = self.parse(d, fn)
            self.compare(out, y, d['doc'], d['raw'], where)
            alive.append((y, d, where))
            out.count('renderings_parsed')
            out.count('raw_mode_parses', d['raw'])
            out.count('binary_mode_parses', d['mode'] == 'binary')
            if k and d['open_length_columns_differing']:
                # the deciding situation: definitions already seen in this process, data that size the char[] columns otherwise
                out.count('same_definitions_other_longest_value_reads')
                out.count('same_definitions_other_longest_value_reads_normal_mode', not d['raw'])
            out.count('same_struct_text_other_enum_labels_reads', bool(k) and case['other_enum'])
            out.count('same_path_rewritten_reads', bool(k) and case['same_path'])
        out.count('twin_structure_documents', case['twin_structures'])
        # the objects read earlier are still the documents they were read from
        for y, d, where in alive[:-1]:
            self.compare(out, y, d['doc'], d['raw'], where + '-looked-at-again-after-the-later-reads')
            out.count('earlier_objects_looked_at_again')
        out.nontrivial = any(len(d['freedoms']) >= 2 for d in seq) and any(t['rows'] for d in seq for t in d['doc']['tables'])
        out.info['freedoms'] = [d['freedoms'] for d in seq]

    def run(self, case, out):
        if case['kind'] == 'same_kind_files':
            return self.run_same_kind(case, out)
        if case['kind'] == 'name_reuse':
            for k, d in enumerate(case['sequence']):
                r = {'text': d['text'], 'mode': d['mode'], 'raw': d['raw'], 'freedoms': []}
                y = self.parse(r)
                self.compare(out, y, d['doc'], d['raw'], 'read%d-of-sequence[%s%s]' % (k, d['mode'], ',raw' if d['raw'] else ''))
                out.count('renderings_parsed')
                out.count('same_names_other_types_reads')
            out.nontrivial = True
            return
        doc = case['doc']
        parsed = []
        for k, r in enumerate(case['renderings']):
            y = self.parse(r)
            parsed.append(y)
            self.compare(out, y, doc, r['raw'], 'rendering%d[%s%s]' % (k, r['mode'], ',raw' if r['raw'] else ''))
            out.count('renderings_parsed')
            out.count('raw_mode_parses', r['raw'])
            out.count('binary_mode_parses', r['mode'] == 'binary')
            fr = r['freedoms']
            out.count('crlf_renderings', 'crlf' in fr)
            out.count('continuation_renderings', 'continuation' in fr)
            out.count('continuation_without_blank_or_indentation_renderings', 'tight_continuation' in fr)
            out.count('interleaved_renderings', 'interleaved_tables' in fr)
            out.count('hostile_comment_renderings', 'hostile_comment' in fr)
            out.count('legacy_bracket_renderings', 'legacy_brackets' in fr)
            out.count('empty_string_spellings', 'double_brace_empty' in fr or 'brace_empty' in fr)
        # metamorphic: both renderings, same mode, give identical tables
        a, b = case['renderings']
        if a['raw'] == b['raw']:
            out.count('metamorphic_pairs')
            ya, yb = parsed
            for t in doc['tables']:
                nm = t['name']
                if nm in ya.tables() and nm in yb.tables():
                    if a['raw']:
                        same = all(repr(ya[nm][c['name']]) == repr(yb[nm][c['name']]) for c in t['cols'])
                    else:
                        same = ya[nm].dtype == yb[nm].dtype and len(ya[nm]) == len(yb[nm])
                        if same:
                            for c in t['cols']:
                                ca, cb = ya[nm][c['name']], yb[nm][c['name']]
                                if ca.dtype.kind == 'f':     # NaN sign/payload is not part of the meaning
                                    same = same and bool(np.all((ca == cb) & (np.signbit(ca) == np.signbit(cb)) |
                                                                (np.isnan(ca) & np.isnan(cb))))
                                else:
                                    same = same and ca.tobytes() == cb.tobytes()
                    out.expect(same, 'metamorphic', 'two renderings of the same document parse differently (table %s)' % nm)
        for t in doc['tables']:
            for c in t['cols']:
                out.count('char_var_columns', c['type'] == 'char' and c['clen'] == -1)
                out.count('enum_columns', c['type'] in doc['enums'])
        out.nontrivial = any(len(r['freedoms']) >= 2 for r in case['renderings']) and any(t['rows'] for t in doc['tables'])
        out.info['freedoms'] = [r['freedoms'] for r in case['renderings']]

    def summarise(self, case):
        if case['kind'] in ('name_reuse', 'same_kind_files'):
            return {'kind': case['kind'], 'texts': [d['text'][:500] for d in case['sequence']]}
        return {'kind': case['kind'], 'doc_tables': [(t['name'], [(c['name'], c['type'], c['alen'], c['clen']) for c in t['cols']], t['rows'][:2])
                                                     for t in case['doc']['tables'][:2]],
                'pairs': case['doc']['pairs'], 'rendering0': case['renderings'][0]['text'][:1200],
                'mode': [r['mode'] for r in case['renderings']], 'raw': [r['raw'] for r in case['renderings']]}


CHECK = C02()
