"""C17 - rejection, mask interpolation and sky masking act on exactly the intended pixels.

Every case is a short history of calls on the SAME caller arrays; the reference of every step is computed from pristine
copies, and a byte copy of each argument array is compared after each call (Guard).

Events : djs_reject -> (mask, qdone) over 1-3 step histories (outmask fed back, last step repeated);
         djs_maskinterp1 / djs_maskinterp (1-3-D, every axis, index or x); aesthetics;
         djs_median(width, boundary='reflect'); skymask.
Oracle : element-by-element reference models in vlib/refs/pixels.py (long-double residual tests with an
         ambiguity band, brute-force nearest-good-neighbour interpolation, brute-force reflected window median,
         Python-int flag test + per-row dilation).
"""
import os
import math
import numpy as np
from vlib.harness import Check, np_rng, VERIF
from vlib.refs import pixels as R

FIXTURE = os.path.join(VERIF, 'fixtures', 'maskbits.par')
BADSKYCHI, REDMONSTER = 27, 28          # official SPPIXMASK bit numbers (fixtures/maskbits.par)
GARBAGE = [float('nan'), float('inf'), float('-inf'), 1e300, -1e300]
INT_RANGE = {'int16': (-2**15, 2**15 - 1), 'int32': (-2**31, 2**31 - 1), 'int64': (-2**63, 2**63 - 1),
             'uint64': (0, 2**64 - 1)}


# Scalar kinds a caller realistically has for each scalar option; every kind listed here is accepted by the clean code
# (probed on the unchanged tree) and must give exactly the result of the plain Python value.
_INT = ['py', 'int64', 'int32', 'uint8', 'intp', 'arr0']
KINDS = {
    'axis': _INT + ['float', 'npfloat'],       # whole floats pass the clean validation (axis - int(axis) == 0)
    'ngrow': _INT + ['float', 'npfloat'],
    'grow': _INT,                                # range(1, grow + 1): integers only
    'width': _INT,                               # scipy medfilt: integers only
    'const': ['py', 'npbool', 'int01', 'npint01'],
    'sticky': ['py', 'npbool', 'int01', 'npint01'],
    'lower': ['py', 'npfloat', 'arr0', 'npint'],  # npint only for whole-number limits
    'upper': ['py', 'npfloat', 'arr0', 'npint'],
    'maxdev': ['py', 'npfloat', 'arr0'],
    'method': ['py', 'npstr'],
    'boundary': ['py', 'npstr'],
}
KIND_COUNTERS = tuple('kind_%s_%s' % (o, k) for o, ks in KINDS.items() for k in ks)


def pick_kind(rng, opt, value=None):
    pool = KINDS[opt][1:]
    if opt in ('lower', 'upper') and float(value) != int(value):
        pool = [k for k in pool if k != 'npint']
    return 'py' if rng.random() < 0.5 else rng.choice(pool)


def as_kind(v, kind):
    """the stored plain value v presented to pydl as the given scalar kind"""
    if kind == 'py' or v is None:
        return v
    if kind in ('int64', 'int32', 'uint8', 'intp'):
        return getattr(np, kind)(v)
    if kind == 'arr0':
        return np.array(v)                       # 0-d array
    if kind == 'float':
        return float(v)
    if kind == 'npfloat':
        return np.float64(v)
    if kind == 'npint':
        return np.int64(int(v))
    if kind == 'npbool':
        return np.bool_(v)
    if kind == 'int01':
        return int(bool(v))
    if kind == 'npint01':
        return np.int64(int(bool(v)))
    if kind == 'npstr':
        return np.str_(v)
    raise ValueError(kind)


def same_result(a, b):
    a, b = np.asarray(a), np.asarray(b)
    return a.shape == b.shape and bool(np.array_equal(a, b, equal_nan=(a.dtype.kind == 'f' and b.dtype.kind == 'f')))


# Memory presentation of array arguments: layout x byte order.  astropy.io.fits hands out big-endian arrays, slices are strided.
LAYOUTS = ['c', 'strided', 'fortran', 'offset', 'reversed']
# SPPIXMASK tables: the global maskbits table is an input of skymask; (BADSKYCHI bit, REDMONSTER bit) per table
TABLES = {'official': ('maskbits.par', 27, 28), 't1': ('maskbits_c17_t1.par', 3, 4), 't2': ('maskbits_c17_t2.par', 12, 30),
          't3': ('maskbits_c17_t3.par', 28, 5)}


def pick_pres(rng, swap_ok=True):
    """[layout, byte-swapped] of one array argument; 60 % plain"""
    if rng.random() < 0.6:
        return ['c', False]
    return [rng.choice(LAYOUTS), bool(swap_ok and rng.random() < 0.5)]


def present(a, pres=None):
    """a fresh array with the values of ``a`` in the requested memory layout / byte order (the caller's object)"""
    a = np.array(a)
    layout, swap = pres if pres else ('c', False)
    if swap and a.dtype.itemsize > 1 and a.dtype.kind in 'iuf':
        a = a.astype(a.dtype.newbyteorder())
    if a.ndim == 0 or a.size == 0:
        return a
    if layout == 'fortran' and a.ndim < 2:
        layout = 'offset'
    if layout == 'strided':
        big = np.zeros(a.shape[:-1] + (2 * a.shape[-1],), dtype=a.dtype)
        v = big[..., ::2]
        v[...] = a
        return v
    if layout == 'fortran':
        return np.asfortranarray(a)
    if layout == 'offset':
        big = np.zeros(a.size + 3, dtype=a.dtype)
        v = big[3:].reshape(a.shape)
        v[...] = a
        return v
    if layout == 'reversed':
        big = a[..., ::-1].copy()
        return big[..., ::-1]
    return a


def unit_scale(rng, lo, hi, ordinary):
    """per-case scale ("units") factor: a third of the cases log-uniform over 10**lo .. 10**hi, else the ordinary range"""
    if rng.random() < 1.0 / 3.0:
        return 10.0 ** rng.uniform(lo, hi)
    return ordinary()


def amplitude(a):
    """typical magnitude of the finite non-zero values of a (0.0 if none)"""
    a = np.abs(np.asarray(a, dtype=np.float64)).ravel()
    a = a[np.isfinite(a) & (a > 0) & (a < 1e299)]
    return float(np.median(a)) if a.size else 0.0


def prod(shape):
    n = 1
    for s in shape:
        n *= s
    return n


def mask_pattern(rng, n, p_bad=None):
    """list of n booleans (True = bad) with hostile structure: runs, ends, all, none, one good."""
    kind = rng.choice(['random', 'random', 'runs', 'ends', 'ends', 'allbad', 'allgood', 'onegood', 'sparse'])
    if kind == 'random':
        p = p_bad if p_bad is not None else rng.choice([0.1, 0.3, 0.5, 0.9])
        return [rng.random() < p for _ in range(n)]
    if kind == 'sparse':
        b = [False] * n
        for _ in range(rng.randint(1, 3)):
            b[rng.randrange(n)] = True
        return b
    if kind == 'runs':
        b = []
        cur = rng.random() < 0.5
        while len(b) < n:
            b += [cur] * rng.randint(1, max(1, n // 3))
            cur = not cur
        return b[:n]
    if kind == 'ends':
        b = [rng.random() < 0.15 for _ in range(n)]
        a, z = rng.randint(0, min(n, 4)), rng.randint(0, min(n, 4))
        for i in range(a):
            b[i] = True
        for i in range(z):
            b[n - 1 - i] = True
        return b
    if kind == 'allbad':
        return [True] * n
    if kind == 'allgood':
        return [False] * n
    b = [True] * n
    b[rng.randrange(n)] = False
    return b


class Presenter:
    """hands out the caller's arrays in the memory presentation stored in the case and counts the effective ones"""

    def __init__(self, out, fn, pres):
        self.out, self.fn, self.pres, self.nonplain = out, fn, pres or {}, False

    def __call__(self, name, a):
        if a is None:
            return None
        pr = self.pres.get(name)
        arr = present(a, pr)
        if pr and arr.ndim and arr.size:
            if pr[0] != 'c':
                self.out.count('pres_layout_' + pr[0])
                self.nonplain = True
            if not arr.dtype.isnative:
                self.out.count('pres_swapped_%s_%s' % (self.fn, name))
                self.nonplain = True
        return arr


def native(a):
    """plain contiguous native-byte-order copy (for the comparison call)"""
    return None if a is None else np.array(a, dtype=a.dtype.newbyteorder('='))


class Guard:
    """Byte copies of the caller's argument arrays; check() asserts the call wrote to none of them.

    ``only`` restricts the comparison to the selected elements (aesthetics: the property itself allows flux to
    change where the inverse variance is zero, so only the other pixels of the caller's flux are asserted)."""

    def __init__(self, out, fn):
        self.out, self.fn, self.items = out, fn, []

    def add(self, name, arr, only=None):
        if isinstance(arr, np.ndarray):
            self.items.append((name, arr, arr.copy(), only))
        return self

    def check(self, **detail):
        for name, arr, snap, only in self.items:
            a, b = (arr, snap) if only is None else (arr[only], snap[only])
            same = arr.dtype == snap.dtype and arr.shape == snap.shape and a.tobytes() == b.tobytes()
            where = None
            if not same and arr.shape == snap.shape:
                with np.errstate(all='ignore'):
                    diff = ~((arr == snap) | ((arr != arr) & (snap != snap)))
                where = np.argwhere(diff if only is None else diff & only)[:10]
            self.out.expect(same, self.fn + '-input-modified',
                            "the caller's %s array was written to by %s (arguments are inputs; results are returned)"
                            % (name, self.fn), where=where, **detail)
            self.out.count('inputs_verified_unmodified')


class C17(Check):
    ID = 'C17'
    MIN_NONTRIVIAL = 1000
    RULE = ('djs_reject on 1-D float64 vectors of 1-200 points (and 2-3-D arrays without grow) under random combinations of '
            'sigma (array, with zeros, or scalar) | invvar (with zeros) | neither, lower/upper/maxdev, bool or 0/1 integer '
            'inmask (random, runs, ends, all-bad), previous outmask, sticky, grow 0-6 (also > n), with residuals planted at '
            '(1 +- 1e-8..1e-1) x each limit and outliers at both ends; every case is a history of 1-3 calls with changing '
            'model and the returned mask fed back as outmask, then the last call repeated (completion must be reported).  '
            'djs_maskinterp1/djs_maskinterp on 1-3-D float64 arrays, every axis, index or distinct x (ascending, descending, '
            'shuffled), masks bool/int with values 1,2,255,-1 in runs / at ends / all bad / one good per line, NaN/inf/1e300 '
            'hidden under masked samples.  aesthetics(traditional|noconst|mean|nothing) with >= 1 good pixel.  '
            'djs_median(boundary=reflect) odd widths 1-21 on 1-D and 2-D arrays with every extent >= (width+1)/2, tie-rich '
            'values.  skymask on 1-4 rows x 1-200 pixels, int16/int32/int64/uint64 masks with BADSKYCHI/REDMONSTER next to '
            'distractor bits (BRIGHTSKY, bit 26, 29, sign bit, bit 63), flags at row ends, ngrow 0-8, ormask=None.  '
            'Every case is a short history on the SAME caller arrays (maskinterp: 1-3 calls with other masks / other axes on one '
            'y and x; reject: masks handed back as the returned object itself, or one array used as inmask and first outmask; '
            'aesthetics: 1-3 methods on one flux/invvar; median: 1-2 widths on one array; skymask: 1-3 ngrow on one invvar/ormask), '
            'every step compared with the reference computed from the ORIGINAL values, and a byte copy of every argument array is '
            'compared after each call.  '
            'Units: a third of the cases carry a log-uniform unit factor - sigma 1e-6..1e6 / invvar 1e-12..1e12 (reject, with data, '
            'model, maxdev in the same unit), invvar 1e-12..1e12 with noisy stretches down to 1e-22 and exact zeros kept (aesthetics, '
            'skymask), flux amplitude 1e-17..1e6 (maskinterp y, aesthetics flux, median values), x spacing 1e-9..1e9; all oracles are '
            'relative to the data scale.  '
            'Memory presentation: 40 % of the array arguments are strided / Fortran-ordered / offset / negative-stride views and half '
            'of those byte-swapped (dtype.newbyteorder(), what astropy.io.fits returns), result = that of plain native arrays.  '
            'skymask: the global SPPIXMASK table is switched between the calls of a case (official + 3 hand-written tables with the '
            'sky labels on bits 3/4, 12/30, 28/5 and other labels on 27/28; via set_maskbits(file) or direct assignment), after one '
            'priming call under the official table; expectation from the table current at the call; fixture table restored.  '
            'x vectors: dtype family {float64, float32, int16/32/64, uint8/16/32/64} drawn independently of the order family '
            '{ascending, descending, block-swapped, shuffled}, distinct values that fit the dtype (also at the ends of its range, '
            '|x| < 2^53), expectation from the float64 reference on the same values; median arrays also in float32 and every integer '
            'dtype; aesthetics invvar also as integer weights.  '
            'Every scalar option is presented per call in one of the scalar kinds a caller has (Python value; numpy int64/int32/'
            'uint8/intp scalar; 0-d array; whole float / numpy.float64 for axis and ngrow; bool / numpy.bool_ / 0-1 int for const and '
            'sticky; float / numpy.float64 / 0-d array / numpy.int64 for lower, upper, maxdev; str / numpy.str_ for method and '
            'boundary); the kind is stored in the case, counted per option and kind, and the result must equal that of the plain call.  '
            'Non-trivial: reject history with >= 1 point rejected by a limit and >= 1 kept; interpolation with >= 1 masked '
            'sample between two good neighbours; aesthetics with good and bad pixels; median whose output differs from its '
            'input; skymask with >= 1 flagged and >= 1 surviving pixel.  Distinct by hash of the materialised input.')
    ASSUMPTIONS = [
        'scalar kinds: only kinds the unchanged code accepts are generated (probed): float grow and float width are refused by '
        'range() / scipy medfilt and are not generated; maxrej/groupdim/groupsize and djs_median(dimension=) stay outside the property',
        'arguments are inputs: no anchored function may write to an argument array (the IDL originals return new arrays; clause '
        '*-input-modified, byte comparison).  One carve-out, because the property text itself says so: aesthetics may change the '
        'caller\'s flux where invvar == 0, so only the pixels with invvar != 0 (and the invvar array) are guarded there; the '
        'history form (later results on the same arrays equal the reference of the original data) is asserted for all functions',
        'limits are decided on the exact residual data-model in long double; comparisons within 1e-9 relative of a limit are '
        'undecided (code needs <= 3 roundings, 3e-16)',
        'grow: neighbours are added around points rejected by a residual limit in the same call (IDL djs_reject semantics), '
        'not around points excluded by inmask / sticky outmask; neighbours of points with undecided residual are undecided',
        'lower/upper are used with a supplied sigma or invvar; the default sigma (neither given: population standard deviation of '
        'the residual over the points good in inmask and in the outmask passed in) is exercised for 1-D unsigned data only; lower, '
        'upper >= 0 including exactly 0 (everything on that side of the model is rejected; a residual of exactly 0 is undecided), maxdev > 0 (maxdev = 0 divides by zero in the unchanged code and marks zero-residual points through NaN); maxrej/groupsize/groupdim/groupbadpix unused',
        'djs_reject data/model: float64, or BOTH unsigned (uint8/16/32/64 counts, some below the model, values < 2^53; F-J1) with '
        'lower/upper only - maxdev with integer data raises in `badness +=` on the unchanged tree and is left out; floating or '
        'signed sigma (an unsigned sigma array with a Python-int limit raises OverflowError); with integer data inmask is bool or uint8 (a signed-integer inmask raises UFuncTypeError in `badness *= inmask`); floating y for maskinterp (n-D '
        'integer y truncates interpolated values)',
        'sigma == 0 means infinite significance: rejected iff the residual is on the limited side and non-zero',
        'maskinterp: IDL axis k = numpy axis ndim-1-k (as the implementation and DESIGN fix it); x distinct along each line; '
        'interpolated values compared to 1e-9 x max|neighbour values| (np.interp error is a few 1e-16 of that), good samples, '
        'held ends, single-good broadcast and all-bad lines compared exactly',
        'aesthetics: invvar >= 0 with at least one good pixel (no-good-pixel inputs belong to F-C3 / C11); method damp is not in the property',
        'djs_median reflect: odd width, every array extent >= (width+1)/2 so that one symmetric reflection fills the pad',
        'skymask: int16 masks hold non-negative values (bits 27/28 do not exist in 16 bits); flag test evaluated on Python '
        'ints (two\'s complement); finite inverse variance; maskbits pre-loaded from fixtures/maskbits.par (no download)',
    ]
    REQUIRED_COUNTERS = (
        'online_reject_points_judged', 'online_reject_points_rejected_by_a_limit', 'brd_differentials', 'reject_calls', 'reject_by_limit_points', 'reject_kept_points', 'reject_excluded_points', 'reject_grown_points',
        'reject_grow_clipped_at_end', 'reject_near_limit_decided', 'reject_qdone_true', 'reject_qdone_false',
        'reject_sticky_steps_with_prev_rejected', 'reject_nonsticky_readmitted_points', 'reject_invvar_zero_points',
        'interp_interior_samples', 'interp_end_samples', 'interp_single_good_lines', 'interp_allbad_lines',
        'interp_x_unsorted_lines', 'interp_nd_calls', 'interp_good_samples_compared',
        'aesthetics_good_pixels_compared', 'aesthetics_bad_pixels',
        'median_reflected_windows', 'median_2d_cases',
        'skymask_flagged_pixels', 'skymask_grown_pixels', 'skymask_signed_dtype_cases', 'skymask_row_end_flags',
        'skymask_ormask_none', 'skymask_distractor_only_pixels',
        'inputs_verified_unmodified', 'reject_aliased_mask_reuse_steps', 'reject_outmask_is_inmask_steps',
        'interp_history_steps_on_same_array', 'interp_history_steps_nd', 'aesthetics_history_steps_on_same_array',
        'median_history_steps_on_same_array', 'skymask_history_steps_on_same_array',
        'scalar_kind_calls_compared_with_plain_call',
        'reject_invvar_below_1e-8_points', 'reject_invvar_above_1e8_points', 'reject_sigma_below_1e-4_cases',
        'reject_sigma_above_1e4_cases', 'interp_y_amp_below_1e-10_cases', 'interp_y_amp_above_1e4_cases',
        'interp_x_spacing_below_1e-6_cases', 'interp_x_spacing_above_1e6_cases',
        'aesthetics_good_pixels_invvar_below_1e-8', 'aesthetics_good_pixels_invvar_above_1e8',
        'aesthetics_flux_amp_below_1e-10_cases', 'aesthetics_flux_amp_above_1e4_cases',
        'median_amp_below_1e-10_cases', 'median_amp_above_1e4_cases',
        'skymask_invvar_below_1e-8_pixels', 'skymask_invvar_above_1e8_pixels',
        'skymask_table_official_calls', 'skymask_table_t1_calls', 'skymask_table_t2_calls', 'skymask_table_t3_calls',
        'skymask_table_set_via_file', 'skymask_table_set_via_assign', 'skymask_table_changed_between_calls',
        'pres_layout_strided', 'pres_layout_fortran', 'pres_layout_offset', 'pres_layout_reversed',
        'pres_swapped_reject_data', 'pres_swapped_reject_model', 'pres_swapped_reject_sigma', 'pres_swapped_reject_invvar',
        'pres_swapped_reject_inmask', 'pres_swapped_interp_y', 'pres_swapped_interp_mask', 'pres_swapped_interp_x',
        'pres_swapped_aesthetics_flux', 'pres_swapped_aesthetics_invvar', 'pres_swapped_median_a',
        'reject_zero_lower_only_calls', 'reject_zero_upper_only_calls', 'reject_zero_both_calls',
        'reject_zero_with_nonzero_other_side_calls', 'reject_all_passed_limits_zero_calls', 'reject_zero_limit_with_nonzero_limit_calls',
        'reject_zero_limit_as_int_py', 'reject_zero_limit_as_float_py', 'reject_zero_limit_as_int_npint', 'reject_zero_limit_as_float_npfloat',
        'reject_zero_limit_as_int_arr0', 'reject_zero_limit_as_float_arr0',
        'reject_unsigned_data_model_calls', 'reject_unsigned_points_below_model', 'reject_default_sigma_calls',
        'reject_unsigned_dtype_uint8', 'reject_unsigned_dtype_uint16', 'reject_unsigned_dtype_uint32', 'reject_unsigned_dtype_uint64',
        'median_swapped_float_1d_filter_calls', 'median_swapped_float_2d_filter_calls',
        'interp_x_dtype_float32', 'interp_x_dtype_int16', 'interp_x_dtype_int32', 'interp_x_dtype_int64', 'interp_x_dtype_uint8',
        'interp_x_dtype_uint16', 'interp_x_dtype_uint32', 'interp_x_dtype_uint64', 'interp_x_unsigned_unsorted_lines',
        'interp_x_order_asc', 'interp_x_order_desc', 'interp_x_order_block', 'interp_x_order_shuffled',
        'median_dtype_float32', 'median_dtype_int16', 'median_dtype_int32', 'median_dtype_int64', 'median_dtype_uint8',
        'median_dtype_uint16', 'median_dtype_uint32', 'median_dtype_uint64', 'aesthetics_integer_invvar_cases',
        'pres_swapped_skymask_invvar', 'pres_swapped_skymask_ormask', 'pres_swapped_skymask_andmask',
    ) + KIND_COUNTERS

    # ---------------------------------------------------------------- setup
    def setup(self):
        import pydl.pydlutils.math as M
        import pydl.pydlutils.image as I
        import pydl.pydlspec2d.spec2d as S2
        import pydl.pydlspec2d.spec1d as S1
        import pydl.pydlutils.sdss as SD
        self.M, self.I, self.S2, self.S1, self.SD = M, I, S2, S1, SD
        for f in (M.djs_reject, M.djs_median, I.djs_maskinterp1, I.djs_maskinterp, S2.aesthetics, S1.skymask):
            self.reach.add(f)
        self._saved_maskbits = SD.maskbits
        if not os.path.exists(FIXTURE):
            raise RuntimeError('fixture missing: ' + FIXTURE)
        SD.maskbits = SD.set_maskbits(maskbits_file=FIXTURE)      # never let it download
        self._tables, self._table_files = {}, {}
        for name, (fn, b1, b2) in TABLES.items():
            path = os.path.join(VERIF, 'fixtures', fn)
            t = SD.set_maskbits(maskbits_file=path)
            assert t['SPPIXMASK']['BADSKYCHI'] == b1 and t['SPPIXMASK']['REDMONSTER'] == b2, name
            self._tables[name], self._table_files[name] = t, path
        assert SD.maskbits['SPPIXMASK']['BADSKYCHI'] == BADSKYCHI and SD.maskbits['SPPIXMASK']['REDMONSTER'] == REDMONSTER
        self.brd.attach(self.rec, M, 'djs_reject', every=5, own=True)
        self.brd.attach(self.rec, M, 'djs_median', every=5, own=True)
        self.brd.attach(self.rec, I, 'djs_maskinterp1', every=5, own=True)
        self.brd.attach(self.rec, I, 'djs_maskinterp', every=5, own=True)
        self.brd.attach(self.rec, S2, 'aesthetics', every=5, own=True)
        self.brd.attach(self.rec, S1, 'skymask', every=5, own=True)
        self.rec.wrap(M, 'djs_reject')
        self.rec.wrap(M, 'djs_median')
        self.rec.wrap(I, 'djs_maskinterp1')
        self.rec.wrap(I, 'djs_maskinterp')
        self.rec.wrap(S2, 'djs_maskinterp', label='pydl.pydlspec2d.spec2d.djs_maskinterp(alias)')
        self.rec.wrap(S2, 'aesthetics')
        self.rec.wrap(S1, 'skymask')
        self._max_rel = 0.0
        # online monitor (vlib.xwork): djs_reject judged on the calls iterfit and xy2traceset make while their own checks' workloads run
        from vlib import xwork
        import sys
        self.online = xwork.Online()
        self.xw = xwork.XWork(self)
        for modname in ('pydl.pydlutils.bspline', 'pydl.pydlutils.trace', 'pydl.pydlspec2d.spec1d'):
            __import__(modname)
            mod = sys.modules[modname]
            if callable(mod.__dict__.get('djs_reject')):
                self.online.attach(self.rec, mod, 'djs_reject', self.online_reject, pre=self.online_reject_pre)

    def online_reject_pre(self, a, k):
        names = ('data', 'model', 'outmask', 'inmask', 'sigma', 'invvar', 'lower', 'upper', 'maxdev', 'maxrej', 'groupdim', 'groupsize',
                 'groupbadpix', 'grow', 'sticky')
        kw = dict(zip(names, a))
        kw.update(k)
        return {n: (np.array(v, copy=True) if isinstance(v, np.ndarray) else v) for n, v in kw.items()}

    def online_reject(self, on, a, k, r, kw):
        on.count('online_reject_calls')
        data, model = kw.get('data'), kw.get('model')
        f8 = lambda v: isinstance(v, np.ndarray) and v.dtype == np.float64
        if not (f8(data) and f8(model) and data.shape == model.shape and data.size > 0) or kw.get('maxrej') is not None \
                or kw.get('groupdim') is not None or kw.get('groupsize') is not None or kw.get('groupbadpix') \
                or not np.all(np.isfinite(data)) or not np.all(np.isfinite(model)):
            return on.count('online_reject_calls_outside_domain')
        sigma, invvar = kw.get('sigma'), kw.get('invvar')
        if sigma is None and invvar is None:
            return on.count('online_reject_calls_outside_domain')          # (default sigma: the check's own classes)
        for v in (sigma, invvar):
            if v is not None and not ((f8(v) and v.shape == data.shape) or isinstance(v, float)):
                return on.count('online_reject_calls_outside_domain')
            if v is not None and not np.all(np.isfinite(v)):
                return on.count('online_reject_calls_outside_domain')
        if sigma is not None and np.any(np.asarray(sigma) < 0):
            return on.count('online_reject_calls_outside_domain')
        grow = kw.get('grow', 0) or 0
        sticky = bool(kw.get('sticky', False))
        if grow and data.ndim != 1:
            return on.count('online_reject_calls_outside_domain')
        for v in (kw.get('lower'), kw.get('upper'), kw.get('maxdev')):
            if v is not None and not isinstance(v, (int, float, np.integer, np.floating)):
                return on.count('online_reject_calls_outside_domain')
        mask, qdone = r
        mask = np.asarray(mask)
        if mask.shape != data.shape:
            return on.fail('reject-shape', 'djs_reject called inside another entry point: mask shape %r for data shape %r' % (mask.shape, data.shape))
        inmask, prev = kw.get('inmask'), kw.get('outmask')
        neg = None
        if invvar is not None and sigma is None and isinstance(invvar, np.ndarray):
            neg = invvar < 0                                             # (a negative inverse variance has no square root: not judged)
        ref = R.reject_ref(data, model, inmask=inmask, outmask=prev, sigma=sigma,
                           invvar=None if sigma is not None else (np.where(neg, 0.0, invvar) if neg is not None else invvar),
                           lower=kw.get('lower'), upper=kw.get('upper'), maxdev=kw.get('maxdev'), grow=int(grow), sticky=sticky)
        got = ~(mask != 0)
        und = ref['und'].copy()
        if neg is not None and neg.any():
            if grow:
                return on.count('online_reject_calls_outside_domain')
            und |= neg & ~ref['excluded']
        miss = ref['must'] & ~got & ~und
        extra = ~ref['must'] & got & ~und
        on.count('online_reject_points_judged', int((~und).sum()))
        on.count('online_reject_points_rejected_by_a_limit', ref['n_thr'])
        det = dict(n=int(data.size), grow=int(grow), sticky=sticky, lower=kw.get('lower'), upper=kw.get('upper'))
        if (miss & ref['excluded']).any():
            on.fail('reject-excluded-kept', 'djs_reject called inside another entry point: a point excluded by inmask / the sticky previous '
                    'outmask is not rejected in the output mask', where=np.argwhere(miss & ref['excluded'])[:10], **det)
        if (miss & ref['thr']).any():
            on.fail('reject-limit-kept', 'djs_reject called inside another entry point: a point whose residual is beyond a limit is not rejected',
                    where=np.argwhere(miss & ref['thr'])[:10], resid=(data - model)[miss & ref['thr']][:10], **det)
        if (miss & ~ref['excluded'] & ~ref['thr']).any():
            on.fail('reject-grow-missing', 'djs_reject called inside another entry point: neighbour within grow=%d of a point rejected by a limit '
                    'is not rejected' % grow, where=np.argwhere(miss & ~ref['excluded'] & ~ref['thr'])[:10], **det)
        if extra.any():
            on.fail('reject-extra', 'djs_reject called inside another entry point: a point is rejected although it is not excluded, within all '
                    'limits and not within grow of a rejected point', where=np.argwhere(extra)[:10], resid=(data - model)[extra][:10], **det)
        prev_eff = np.ones(data.shape, dtype=bool) if prev is None else (np.asarray(prev) != 0)
        unchanged = bool(np.array_equal(mask != 0, prev_eff))
        if bool(qdone) != unchanged:
            on.fail('reject-qdone', 'djs_reject called inside another entry point: qdone=%r but the mask %s relative to the outmask passed in'
                    % (qdone, 'is unchanged' if unchanged else 'changed'), **det)
        on.count('online_reject_qdone_' + ('true' if unchanged else 'false'))

    def run_xwork(self, case, out):
        self.online.begin()
        try:
            self.xw.run(case, out)
        finally:
            fails, counts = self.online.end()
        for n, v in counts.items():
            out.count(n, v)
        for clause, msg, detail in fails:
            out.fail(clause, msg, **detail)
        out.nontrivial = counts.get('online_reject_points_rejected_by_a_limit', 0) > 0
        out.info.update(driver=case['driver'], driver_class=case.get('dcls'), online=counts)

    def shard_extra(self):
        return {'x_interp_max_rel_err': self._max_rel}

    def extra_evidence(self, merged):
        v = merged.get('x_interp_max_rel_err') or [0.0]
        return {'interp_max_rel_err_observed': max(v), 'interp_rel_tolerance': 1e-9,
                'reject_ambiguity_band_rel': R.BAND}

    def teardown(self):
        self.xw.teardown()
        self.rec.unwrap_all()
        self.SD.maskbits = self._saved_maskbits

    def budget(self, tier):
        q = tier == 'quick'
        return {
            'xw_iterfit': 150 if q else 6000, 'xw_traceset': 60 if q else 2500, 'xw_suite': 1,
            'reject_options': 2500 if q else 120000,
            'reject_near': 1200 if q else 60000,
            'reject_grow': 2500 if q else 120000,
            'reject_small_history': 2000 if q else 75000,
            'reject_nd': 600 if q else 30000,
            'interp_1d': 2000 if q else 90000,
            'interp_nd': 1500 if q else 60000,
            'aesthetics': 1500 if q else 75000,
            'median_1d': 1200 if q else 60000,
            'median_2d': 500 if q else 24000,
            'skymask': 1500 if q else 75000,
        }

    # ------------------------------------------------------------------ gen
    def gen(self, cls, rng, i):
        if cls == 'xw_iterfit':
            return self.xw.gen('C10', rng)
        if cls == 'xw_suite':
            return self.xw.gen_suite(['pydl/pydlutils/tests/test_bspline.py', 'pydl/pydlutils/tests/test_trace.py', 'pydl/pydlutils/tests/test_math.py'])
        if cls == 'xw_traceset':
            return self.xw.gen('C13', rng, classes=('tset_fit', 'tset_table'))
        if cls.startswith('reject'):
            return self.gen_reject(cls, rng)
        if cls.startswith('interp'):
            return self.gen_interp(cls, rng)
        if cls == 'aesthetics':
            return self.gen_aesthetics(rng)
        if cls.startswith('median'):
            return self.gen_median(cls, rng)
        if cls == 'skymask':
            return self.gen_skymask(rng)
        raise ValueError(cls)

    def gen_reject(self, cls, rng):
        g = np_rng(rng)
        thorough = self.tier == 'thorough'
        if cls == 'reject_nd':
            shape = [rng.randint(1, 7) for _ in range(rng.choice([2, 2, 3]))]
        elif cls == 'reject_grow':
            shape = [rng.choice([1, 2, 3, 4, 5, 6, 8, 13, 21, 40, 60, 120 if thorough else 60])]
        elif cls == 'reject_small_history':
            shape = [rng.randint(2, 7)]
        else:
            shape = [rng.choice([1, 2, 3, 5, 8, 17, 40, 100, 200])]
        n = prod(shape)
        # units: sigma 1e-6 .. 1e6 (invvar 1e-12 .. 1e12); data, model and maxdev carry the same unit
        scale = unit_scale(rng, -6, 6, lambda: 10.0 ** rng.uniform(-2, 3) if rng.random() < 0.5 else 1.0)
        mode = rng.choice(['sigma', 'sigma', 'invvar', 'invvar', 'none', 'sigma_scalar', 'both'])
        sig = g.uniform(0.5, 2.0, n) * scale
        if mode == 'sigma_scalar':
            sig[:] = sig[0]
        lower = upper = maxdev = None
        if mode != 'none':
            if rng.random() < 0.75:
                lower = rng.choice([rng.uniform(0.3, 4.0), float(rng.randint(1, 4)), rng.randint(1, 4)])
            if rng.random() < 0.75:
                upper = rng.choice([rng.uniform(0.3, 4.0), float(rng.randint(1, 4)), rng.randint(1, 4)])
        if mode == 'none' or rng.random() < 0.35:
            maxdev = rng.uniform(0.8, 5.0) * scale
        # limits of exactly zero ("reject everything on that side of the model"), alone and combined with None / ordinary
        # other limits; 0 as int or float here, as numpy scalar / 0-d array through the scalar kinds.  maxdev = 0 is left out
        # (division by zero in the unchanged code: points with zero residual get NaN badness).
        if mode != 'none' and rng.random() < 0.12:
            z = lambda: rng.choice([0, 0.0])
            nz = lambda: rng.choice([rng.uniform(0.3, 4.0), rng.randint(1, 4)])
            lower, upper = rng.choice([(z(), None), (None, z()), (z(), z()), (z(), nz()), (nz(), z())])
            if rng.random() < 0.7:
                maxdev = None
        case = {'kind': 'reject', 'shape': shape, 'lower': lower, 'upper': upper, 'maxdev': maxdev,
                'sticky': rng.random() < 0.5, 'grow': 0, 'sigma': None, 'invvar': None}
        if cls == 'reject_grow':
            case['grow'] = rng.choice([1, 1, 2, 2, 3, 4, 6])
        zero = g.uniform(size=n) < (0.08 if rng.random() < 0.5 else 0.0)
        if mode in ('sigma', 'both'):
            s = sig.copy()
            s[zero] = 0.0
            case['sigma'] = s.tolist()
        elif mode == 'sigma_scalar':
            case['sigma'] = float(sig[0])
        if mode in ('invvar', 'both'):
            iv = 1.0 / sig ** 2
            if mode == 'both':
                iv = g.uniform(0.0, 5.0, n)          # must be ignored when sigma is given
            else:
                iv[zero] = 0.0
            case['invvar'] = iv.tolist()
        # residual in units of sig: bulk, outliers, planted near-limit values
        zspread = rng.choice([0.7, 1.5, 3.0]) if cls != 'reject_grow' else rng.choice([0.5, 0.8, 1.2])
        z = g.normal(size=n) * zspread
        out = g.uniform(size=n) < (0.05 if cls == 'reject_grow' else 0.03)
        z[out] = g.choice([-1.0, 1.0], size=int(out.sum())) * g.uniform(5, 30, int(out.sum()))
        if n >= 1 and rng.random() < (0.6 if cls == 'reject_grow' else 0.2):
            for pos in rng.sample([0, n - 1, 1 % n, (n - 2) % n], rng.randint(1, 2)):
                z[pos] = rng.choice([-1, 1]) * rng.uniform(6, 20)
        resid = z * sig
        limits = []
        if lower is not None:
            limits.append(('lower', -1.0, float(lower)))
        if upper is not None:
            limits.append(('upper', +1.0, float(upper)))
        pnear = 0.5 if cls == 'reject_near' else 0.08
        if cls == 'reject_grow':
            pnear = 0.02
        for k in range(n):
            if rng.random() < pnear and (limits or maxdev is not None):
                delta = rng.choice([-1, 1]) * 10.0 ** rng.uniform(-8, -1)
                if rng.random() < 0.03:
                    delta = 0.0
                if maxdev is not None and (not limits or rng.random() < 0.4):
                    resid[k] = rng.choice([-1, 1]) * maxdev * (1 + delta)
                else:
                    _, sgn, lim = rng.choice(limits)
                    resid[k] = sgn * lim * sig[k] * (1 + delta)
        nsteps = rng.choice([1, 1, 2, 3]) if cls != 'reject_small_history' else rng.choice([2, 3])
        base = g.normal(size=n) * scale * rng.choice([0.0, 0.1, 3.0]) + rng.choice([0.0, 0.0, 10.0 * scale])
        data = base + resid
        models = [base.tolist()]
        for _ in range(nsteps - 1):
            models.append((base + g.normal(size=n) * sig * rng.choice([0.3, 1.0, 2.0])).tolist())
        case['data'] = data.tolist()
        case['models'] = models
        pin = 0.6 if cls != 'reject_grow' else 0.4
        case['inmask'] = None
        case['inmask_dtype'] = 'bool'
        if rng.random() < pin:
            case['inmask'] = [0 if b else 1 for b in mask_pattern(rng, n, p_bad=rng.choice([0.05, 0.2, 0.5]))]
            case['inmask_dtype'] = rng.choice(['bool', 'bool', 'bool', 'int32', 'uint8'])
        case['outmask'] = None
        if rng.random() < (0.9 if cls == 'reject_small_history' else 0.5):
            case['outmask'] = [0 if rng.random() < rng.choice([0.1, 0.3]) else 1 for _ in range(n)]
        # data AND model both unsigned integers (counts), some points below the model (F-J1): the whole case is rescaled to
        # counts, shifted to a non-negative level (near 0, mid-range or the top of the dtype), rounded and clipped.
        # Limits lower/upper only: maxdev with integer data raises in `badness +=` on the unchanged tree (outside the domain).
        case['data_dtype'] = None
        case['default_sigma'] = False
        if rng.random() < 0.15:
            udt = rng.choice(['uint8', 'uint16', 'uint32', 'uint64'])
            top = min(int(np.iinfo(udt).max), 2**53)
            tsig = rng.choice([2.0, 3.0]) if udt == 'uint8' else rng.choice([3.0, 10.0, 40.0])
            f = tsig / scale
            spread = int(8 * tsig)
            level = rng.choice([spread // 4, spread, top // 2, top - spread, top - spread // 4])
            level = max(0, min(top, level))

            def counts(v):
                return np.clip(np.rint(np.asarray(v) * f - float(np.median(base)) * f + level), 0, top).tolist()
            case['data'] = counts(case['data'])
            case['models'] = [counts(m) for m in case['models']]
            if isinstance(case['sigma'], list):
                case['sigma'] = (np.asarray(case['sigma']) * f).tolist()
            elif case['sigma'] is not None:
                case['sigma'] = case['sigma'] * f
            if case['invvar'] is not None and mode != 'both':
                case['invvar'] = (np.asarray(case['invvar']) / f ** 2).tolist()
            case['maxdev'] = None
            if case['lower'] is None and case['upper'] is None:
                case['upper'] = 3.0
                case['lower'] = rng.choice([None, 2.5])
            if cls != 'reject_nd' and (mode == 'none' or rng.random() < 0.3):
                case['sigma'] = case['invvar'] = None        # default sigma: std of the residual over the good points (1-D)
                case['default_sigma'] = True
            elif mode == 'none':
                case['sigma'] = (sig * f).tolist()
            case['data_dtype'] = udt
            if case['inmask_dtype'] == 'int32':
                # integer data with a SIGNED-integer inmask raises UFuncTypeError in `badness *= inmask` on the unchanged tree
                # (reported, not asserted); bool and uint8 masks are accepted
                case['inmask_dtype'] = 'uint8'
        # how the masks travel through the history: fresh copies, the returned array itself handed back as outmask
        # (as iterfit does), or one array serving as inmask and as the first outmask
        case['alias'] = rng.choice(['copy', 'reuse', 'reuse', 'outmask_is_inmask'])
        case['pres'] = {k: pick_pres(rng) for k in ('data', 'model', 'sigma', 'invvar', 'inmask', 'outmask')}
        # scalar kind of every scalar option, drawn per call of the history (nsteps calls + the repeated one)
        case['kinds'] = []
        for _ in range(nsteps + 1):
            kd = {'grow': pick_kind(rng, 'grow'), 'sticky': pick_kind(rng, 'sticky')}
            for k in ('lower', 'upper', 'maxdev'):
                if case[k] is not None:
                    kd[k] = pick_kind(rng, k, case[k])
            case['kinds'].append(kd)
        return case

    def gen_interp(self, cls, rng):
        g = np_rng(rng)
        if cls == 'interp_1d':
            shape = [rng.choice([1, 2, 3, 4, 5, 8, 15, 40, 100, 200])]
        else:
            nd = rng.choice([2, 2, 3])
            shape = [rng.randint(1, 9 if nd == 2 else 6) for _ in range(nd)]
        n = prod(shape)
        nd = len(shape)
        axis = None if nd == 1 else rng.randrange(nd)
        npaxis = 0 if nd == 1 else nd - 1 - axis
        scale = unit_scale(rng, -17, 6, lambda: 10.0 ** rng.uniform(-3, 4) if rng.random() < 0.5 else 1.0)   # flux units
        y = g.normal(size=n) * scale + rng.choice([0.0, 0.0, 100.0 * scale])
        if rng.random() < 0.2:
            y = np.round(y / scale)                     # ties, exact zeros
        # masks line by line along the interpolation axis so that each line gets its own hostile pattern
        mdt = rng.choice(['bool', 'int32', 'uint8', 'int64', 'int16'])
        if mdt == 'bool':
            mvals = [1]
        elif mdt == 'uint8':
            mvals = [1, 2, 255]
        else:
            mvals = [1, 2, 255, -1, 4096]

        def one_mask(npax):
            b = np.zeros(shape, dtype=bool)
            bm = np.moveaxis(b, npax, -1)
            for idx in np.ndindex(bm.shape[:-1]):
                bm[idx] = mask_pattern(rng, shape[npax])
            b = b.ravel()
            return b, [rng.choice(mvals) if v else 0 for v in b.tolist()]
        bad, mask = one_mask(npaxis)
        # history on the same arrays: 0-2 further calls with another mask and (n-D) possibly another axis
        more = []
        allbad = bad.copy()
        for _ in range(rng.choice([0, 1, 1, 2])):
            ax2 = None if nd == 1 else rng.randrange(nd)
            b2, m2 = one_mask(0 if nd == 1 else nd - 1 - ax2)
            more.append({'mask': m2, 'axis': ax2, 'const': rng.random() < 0.5, 'const_kind': pick_kind(rng, 'const'),
                         'axis_kind': 'py' if ax2 is None else pick_kind(rng, 'axis')})
            allbad &= b2
        if rng.random() < 0.5:
            for k in range(n):
                if allbad[k] and rng.random() < 0.5:      # garbage only where every call of the history masks it
                    y[k] = rng.choice(GARBAGE)
        x = None
        xorder = None
        xdt = 'float64'
        if rng.random() < 0.5:
            # dtype family and order family are drawn independently
            xdt = rng.choice(['float64'] * 8 + ['float32', 'int16', 'int32', 'int64', 'uint8', 'uint16', 'uint32', 'uint64'])
            xorder = rng.choice(['asc', 'desc', 'block', 'shuffled', 'shuffled'] + (['asc_uneven'] if xdt == 'float64' else []))
            if xdt in ('float64', 'float32'):
                xs = unit_scale(rng, -9, 9, lambda: 10.0 ** rng.uniform(-3, 3))              # x units (spacing)
                xa = (g.normal(size=n) * xs + rng.choice([0.0, 1000.0 * xs])).reshape(shape)
                if xorder == 'asc_uneven':
                    xa = np.cumsum(10.0 ** g.uniform(-3, 1, size=n)).reshape(shape) * xs
                    if nd > 1:
                        xa = g.permutation(xa.ravel()).reshape(shape)
                if xdt == 'float32':
                    xa = xa.astype(np.float32).astype(np.float64)
            else:
                # distinct integers that fit the dtype (|x| < 2**53 so that the float64 reference sees the same values):
                # a narrow window anywhere in the range (also at its very top / bottom) or the whole range
                lo, hi = int(np.iinfo(xdt).min), int(np.iinfo(xdt).max)
                lo, hi = max(lo, -2**53), min(hi, 2**53)
                if n > hi - lo + 1:
                    return None
                if rng.random() < 0.6:
                    w = min(hi - lo, rng.choice([n, 2 * n, 10 * n + 5]))
                    start = rng.choice([lo, hi - w, rng.randint(lo, hi - w)])
                    vals = rng.sample(range(start, start + w + 1), n) if w + 1 >= n else None
                else:
                    vals = rng.sample(range(lo, hi + 1), n)
                if vals is None:
                    return None
                xa = np.array(vals, dtype=object).reshape(shape)
            if xorder in ('asc', 'asc_uneven', 'block'):
                xa = np.sort(xa, axis=npaxis)
                if xorder == 'block':
                    xa = np.roll(xa, shape[npaxis] // 2, axis=npaxis)
            elif xorder == 'desc':
                xa = np.flip(np.sort(xa, axis=npaxis), axis=npaxis)
            if len(set(xa.ravel().tolist())) != n:
                return None
            x = xa.ravel().tolist()
        entry = 'maskinterp'
        if nd == 1 and rng.random() < 0.5:
            entry = 'maskinterp1'
        return {'kind': 'interp', 'shape': shape, 'y': y.tolist(), 'mask': mask, 'mask_dtype': mdt, 'x': x,
                'xorder': xorder, 'axis': axis, 'const': rng.random() < 0.5, 'entry': entry, 'more': more,
                'const_kind': pick_kind(rng, 'const'), 'axis_kind': 'py' if axis is None else pick_kind(rng, 'axis'),
                'pres': {k: pick_pres(rng) for k in ('y', 'mask', 'x')}, 'x_dtype': xdt}

    def gen_aesthetics(self, rng):
        g = np_rng(rng)
        n = rng.choice([1, 2, 3, 5, 10, 30, 100, 300])
        fs = unit_scale(rng, -17, 6, lambda: 10.0 ** rng.uniform(-2, 3))                          # flux units
        flux = g.normal(size=n) * fs + rng.choice([0.0, 50.0, 50.0 * fs])
        bad = mask_pattern(rng, n)
        if all(bad):
            bad[rng.randrange(n)] = False                # at least one good pixel (F-C3 is out of this domain)
        ivar = g.uniform(0.01, 5.0, n) * unit_scale(rng, -12, 12, lambda: 10.0 ** rng.uniform(-3, 3))   # 1/flux^2 units
        if rng.random() < 0.25 and n > 2:                # a very noisy stretch: tiny but non-zero inverse variance
            a0 = rng.randrange(n)
            ivar[a0:a0 + rng.randint(1, max(1, n // 3))] *= 10.0 ** rng.uniform(-10, -2)
        for k in range(n):
            if bad[k]:
                ivar[k] = 0.0                            # exact zeros stay exact zeros
                if rng.random() < 0.3:
                    flux[k] = rng.choice(GARBAGE)
        ivdt = None
        if rng.random() < 0.2:
            ivdt = rng.choice(['uint8', 'uint16', 'int32', 'int64'])             # integer weights 0, 1, 2, 5 ...
            ivar = np.where(ivar > 0, g.integers(1, 6, n), 0).astype(float)
        dt = rng.choice(['float64', 'float64', 'float32'])
        if dt == 'float32':
            flux = flux.astype(np.float32).astype(np.float64)
            ivar = np.maximum(ivar, np.where(ivar > 0, 1e-30, 0.0)).astype(np.float32).astype(np.float64)   # no underflow to 0
        return {'kind': 'aesthetics', 'flux': flux.tolist(), 'invvar': ivar.tolist(), 'dtype': dt,
                'method': rng.choice(['traditional', 'noconst', 'mean', 'nothing']),
                'more': [rng.choice(['traditional', 'noconst', 'mean', 'nothing']) for _ in range(rng.choice([0, 1, 2]))],
                'kinds': [pick_kind(rng, 'method') for _ in range(3)],
                'pres': {k: pick_pres(rng) for k in ('flux', 'invvar')}, 'invvar_dtype': ivdt}

    def gen_median(self, cls, rng):
        g = np_rng(rng)
        widths = [1, 3, 3, 5, 5, 7, 9, 11] + ([13, 21] if self.tier == 'thorough' else [13])
        w = rng.choice(widths)
        pad = (w + 1) // 2
        if cls == 'median_1d':
            shape = [rng.choice([pad, pad, pad + 1, w, w + 1, 2 * w, rng.randint(pad, 200)])]
        else:
            w = min(w, 9)
            pad = (w + 1) // 2
            shape = [rng.choice([pad, pad + 1, w, rng.randint(pad, 14)]) for _ in range(2)]
        n = prod(shape)
        style = rng.choice(['ties', 'normal', 'spikes', 'ramp'])
        if style == 'ties':
            a = g.integers(0, 5, n).astype(float)
        elif style == 'normal':
            a = g.normal(size=n)
        elif style == 'ramp':
            a = np.arange(n, dtype=float) * rng.choice([1.0, -1.0]) + g.normal(size=n) * 0.01
        else:
            a = g.normal(size=n)
            a[g.uniform(size=n) < 0.15] = 1e6
        dt = 'float64'
        if style == 'ties' and rng.random() < 0.6:
            # small non-negative integers fit every dtype; all of these are accepted by the unchanged code
            dt = rng.choice(['float32', 'int16', 'int32', 'int64', 'uint8', 'uint16', 'uint32', 'uint64'] if cls == 'median_1d'
                            else ['float32', 'int32', 'uint8', 'uint16'])
            if dt.startswith('u') or dt.startswith('i'):
                a = a + rng.choice([0, 0, 250 if dt == 'uint8' else 1000])     # unsigned values above the signed half-range for uint8
        else:
            a = a * unit_scale(rng, -17, 6, lambda: 1.0)                                          # flux units
        wmax = 2 * min(shape) - 1                       # widest window one reflection can fill
        more = [rng.choice([v for v in (1, 3, 5, 7, 9, 11, 13) if v <= wmax]) for _ in range(rng.choice([0, 1, 1]))]
        return {'kind': 'median', 'shape': shape, 'a': a.tolist(), 'width': w, 'dtype': dt, 'more': more,
                'kinds': [{'width': pick_kind(rng, 'width'), 'boundary': pick_kind(rng, 'boundary')} for _ in range(2)],
                # byte-swapped (FITS-native) float vectors included: F-R2, repaired in bc90e7f (pydl/median.py converts to native order)
                'pres': {'a': pick_pres(rng)}}

    def gen_skymask(self, rng):
        g = np_rng(rng)
        nr = rng.randint(1, 4)
        npx = rng.choice([1, 2, 3, 4, 5, 7, 10, 20, 50, 200 if self.tier == 'thorough' else 80])
        ngrow = rng.choice([0, 1, 1, 2, 2, 2, 3, 4, 5, 8])
        dt = rng.choice(['int16', 'int32', 'int32', 'int64', 'uint64'])
        lo, hi = INT_RANGE[dt]
        pflag = rng.choice([0.0, 0.03, 0.1, 0.3])
        # the global maskbits table is an input: one table per call of the history (half of the cases stay on the official one)
        nmore = rng.choice([0, 1, 1, 2])
        if rng.random() < 0.5:
            tabs = ['official'] * (1 + nmore)
        else:
            tabs = [rng.choice(sorted(TABLES)) for _ in range(1 + nmore)]
        pool = sorted({b for t in tabs for b in TABLES[t][1:]})          # sky bits under any table of this case
        poolmask = sum(1 << b for b in pool)
        others = sorted({b for t in TABLES for b in TABLES[t][1:]} - set(pool))   # sky bits of tables NOT in use: distractors
        mask = []
        for r in range(nr):
            row = []
            for c in range(npx):
                v = 0
                if rng.random() < pflag:
                    v |= 1 << rng.choice(pool)
                    if rng.random() < 0.1:
                        t = rng.choice(tabs)
                        v |= (1 << TABLES[t][1]) | (1 << TABLES[t][2])
                if rng.random() < 0.35:
                    v |= 1 << rng.choice([0, 22, 23, 23, 24, 25, 26, 26, 29, 29, 30] + others)
                if rng.random() < 0.1:
                    v |= rng.getrandbits(31)
                if rng.random() < 0.45:
                    v &= ~poolmask                      # distractor-only pixel
                row.append(v)
            mask.append(row)
        # flags at row ends: last pixel of one row / first pixel of the next must not leak across rows
        if rng.random() < 0.6:
            r = rng.randrange(nr)
            mask[r][rng.choice([0, npx - 1])] |= 1 << rng.choice(pool)
        for r in range(nr):
            for c in range(npx):
                v = mask[r][c]
                if dt == 'int16':
                    v &= 0x7fff                         # non-negative 16-bit values only
                elif dt == 'int32':
                    if rng.random() < 0.08:
                        v |= 1 << 31
                    v &= 0xffffffff
                    if v >= 2**31:
                        v -= 2**32
                elif dt == 'int64':
                    if rng.random() < 0.08:
                        v |= (1 << 63) | (rng.getrandbits(31) << 32)
                    if v >= 2**63:
                        v -= 2**64
                else:
                    if rng.random() < 0.08:
                        v |= (1 << 63) | (rng.getrandbits(31) << 32)
                assert lo <= v <= hi
                mask[r][c] = v
        ivar = g.uniform(0.05, 4.0, (nr, npx)) * unit_scale(rng, -12, 12, lambda: 10.0 ** rng.uniform(-3, 3))
        if rng.random() < 0.25:                          # a noisy row segment: tiny but non-zero inverse variance
            r0 = rng.randrange(nr)
            c0 = rng.randrange(npx)
            ivar[r0, c0:c0 + rng.randint(1, max(1, npx // 2))] *= 10.0 ** rng.uniform(-10, -2)
        ivar[g.uniform(size=(nr, npx)) < 0.05] = 0.0
        return {'kind': 'skymask', 'shape': [nr, npx], 'ivar': ivar.ravel().tolist(), 'mask': mask, 'dtype': dt,
                'ngrow': ngrow, 'ormask_none': rng.random() < 0.04,
                'andmask': rng.choice(['none', 'zeros', 'allflags']),
                'ngrow_kind': pick_kind(rng, 'ngrow'), 'table': tabs[0], 'via': rng.choice(['file', 'assign']),
                'pres': {k: pick_pres(rng) for k in ('invvar', 'ormask', 'andmask')},
                'more': [{'ngrow': rng.choice([0, 1, 2, 3, 5]), 'ormask_none': rng.random() < 0.04,
                          'ngrow_kind': pick_kind(rng, 'ngrow'), 'table': tabs[1 + k], 'via': rng.choice(['file', 'assign'])}
                         for k in range(nmore)]}

    # ------------------------------------------------------------------ run
    def run(self, case, out):
        getattr(self, 'run_' + case['kind'])(case, out)

    # .................................................................. djs_reject
    def run_reject(self, case, out):
        shape = tuple(case['shape'])
        # pristine values: the reference is always computed from these, never from the objects handed to pydl
        data0 = np.array(case['data'], dtype=np.float64).reshape(shape)
        models0 = [np.array(m, dtype=np.float64).reshape(shape) for m in case['models']]
        udt = case.get('data_dtype')                     # data AND model as unsigned integers (exact: values < 2**53)
        data_t0 = data0 if udt is None else data0.astype(udt)
        models_t0 = models0 if udt is None else [m.astype(udt) for m in models0]
        if udt is not None:
            assert data_t0.astype(np.float64).tolist() == data0.tolist()
        default_sigma = bool(case.get('default_sigma'))
        sigma0 = case['sigma']
        if isinstance(sigma0, list):
            sigma0 = np.array(sigma0, dtype=np.float64).reshape(shape)
        invvar0 = None if case['invvar'] is None else np.array(case['invvar'], dtype=np.float64).reshape(shape)
        inmask0 = None
        if case['inmask'] is not None:
            inmask0 = np.array(case['inmask']).reshape(shape).astype(case['inmask_dtype'])
        prev0 = None                                     # value of the mask passed as outmask
        if case['outmask'] is not None:
            prev0 = np.array(case['outmask']).reshape(shape).astype(bool)
        alias = case.get('alias', 'copy')
        if alias == 'outmask_is_inmask' and (inmask0 is None or inmask0.dtype != bool):
            alias = 'reuse'
        if alias == 'outmask_is_inmask':
            prev0 = inmask0.copy()
        # the caller's objects: created once, handed to every call of the history
        P = Presenter(out, 'reject', case.get('pres'))
        data = P('data', data_t0)
        models = [P('model', m) for m in models_t0]
        sigma = P('sigma', sigma0) if isinstance(sigma0, np.ndarray) else sigma0
        invvar = P('invvar', invvar0)
        inmask = P('inmask', inmask0)
        prev_obj = P('outmask', prev0)
        if alias == 'outmask_is_inmask':
            prev_obj = inmask                            # the very same array as inmask and as outmask
        grow, sticky = case['grow'], case['sticky']
        kw = {}
        for k in ('lower', 'upper', 'maxdev'):
            if case[k] is not None:
                kw[k] = case[k]
        if sigma is not None:
            kw['sigma'] = sigma
        if invvar is not None:
            kw['invvar'] = invvar
        n = data0.size
        any_thr = any_kept = False
        steps = list(range(len(models))) + [len(models) - 1]
        for step, mi in enumerate(steps):
            repeated = step == len(steps) - 1
            model, model0 = models[mi], models0[mi]
            prev = prev0
            if alias == 'copy' or prev_obj is None:
                prev_in = P('outmask', prev0)
            else:
                prev_in = prev_obj                       # the array returned by the previous call (or the initial one) itself
                out.count('reject_aliased_mask_reuse_steps')
                if prev_in is inmask:
                    out.count('reject_outmask_is_inmask_steps')
            guard = Guard(out, 'reject').add('data', data).add('model', model).add('inmask', inmask) \
                .add('outmask', prev_in).add('sigma', sigma).add('invvar', invvar)
            kl = case.get('kinds') or []
            kd = kl[step] if step < len(kl) else {}
            kwk = dict(kw)
            for k in ('lower', 'upper', 'maxdev'):
                if k in kwk:
                    kwk[k] = as_kind(kw[k], kd.get(k, 'py'))
                    out.count('kind_%s_%s' % (k, kd.get(k, 'py')))
            zl = case['lower'] is not None and case['lower'] == 0
            zu = case['upper'] is not None and case['upper'] == 0
            if zl or zu:
                passed = [v for v in (case['lower'], case['upper'], case['maxdev']) if v is not None]
                out.count('reject_zero_lower_only_calls' if zl and case['upper'] is None else
                          'reject_zero_upper_only_calls' if zu and case['lower'] is None else
                          'reject_zero_both_calls' if zl and zu else 'reject_zero_with_nonzero_other_side_calls')
                if all(v == 0 for v in passed):
                    out.count('reject_all_passed_limits_zero_calls')
                else:
                    out.count('reject_zero_limit_with_nonzero_limit_calls')
                for k in ('lower', 'upper'):
                    if case[k] is not None and case[k] == 0:
                        out.count('reject_zero_limit_as_%s_%s' % (type(case[k]).__name__, kd.get(k, 'py')))
            out.count('kind_grow_' + kd.get('grow', 'py'))
            out.count('kind_sticky_' + kd.get('sticky', 'py'))
            mask, qdone = self.M.djs_reject(data, model, outmask=prev_in, inmask=inmask, grow=as_kind(grow, kd.get('grow', 'py')),
                                            sticky=as_kind(sticky, kd.get('sticky', 'py')), **kwk)
            out.count('reject_calls')
            guard.check(step=step, sticky=sticky, alias=alias)
            if P.nonplain or any(v != 'py' for v in kd.values()):
                kwp = dict(kw)
                for k in ('sigma', 'invvar'):
                    if isinstance(kwp.get(k), np.ndarray):
                        kwp[k] = (sigma0 if k == 'sigma' else invvar0).copy()
                pm, pq = self.M.djs_reject(data_t0.copy(), models_t0[mi].copy(), outmask=None if prev0 is None else prev0.copy(),
                                           inmask=None if inmask0 is None else inmask0.copy(), grow=grow, sticky=sticky, **kwp)
                out.expect(same_result(mask, pm) and bool(qdone) == bool(pq), 'reject-differs-from-plain-call',
                           'scalar options given as %r / arrays presented as %r give a different (mask, qdone) than plain values in plain '
                           'native arrays' % (kd, P.pres), step=step, kinds=kd)
                out.count('scalar_kind_calls_compared_with_plain_call')
            mask = np.asarray(mask)
            if not out.expect(mask.shape == shape, 'reject-shape', 'mask shape %r for data shape %r' % (mask.shape, shape)):
                return
            sigma_ref = sigma0
            if default_sigma:
                # neither sigma nor invvar: sigma = population standard deviation of the residual over the points that are
                # good in inmask and in the outmask passed in (0 if there is none); 1-D only
                goodpts = np.ones(shape, dtype=bool) if prev0 is None else (prev0 != 0)
                if inmask0 is not None:
                    goodpts = goodpts & (inmask0 != 0)
                dd = (data0.astype(R.LD) - model0.astype(R.LD))[goodpts]
                sigma_ref = float(np.sqrt(np.mean((dd - dd.mean()) ** 2))) if dd.size else 0.0
                out.count('reject_default_sigma_calls')
            if udt is not None:
                out.count('reject_unsigned_data_model_calls')
                out.count('reject_unsigned_points_below_model', int((data0 < model0).sum()))
                out.count('reject_unsigned_dtype_' + udt)
            ref = R.reject_ref(data0, model0, inmask=inmask0, outmask=prev0, sigma=sigma_ref,
                               invvar=None if sigma_ref is not None else invvar0,
                               lower=case['lower'], upper=case['upper'], maxdev=case['maxdev'], grow=grow, sticky=sticky)
            got = ~(mask != 0)
            und = ref['und']
            out.undecide(int(und.sum()))
            miss = ref['must'] & ~got & ~und
            extra = ~ref['must'] & got & ~und
            det = dict(step=step, n=n, grow=grow, sticky=sticky)
            m_ex = miss & ref['excluded']
            out.expect(not m_ex.any(), 'reject-excluded-kept',
                       'point excluded by inmask / sticky previous outmask is not rejected in the output mask',
                       where=np.argwhere(m_ex)[:10], **det)
            m_thr = miss & ref['thr']
            out.expect(not m_thr.any(), 'reject-limit-kept', 'point whose residual is beyond a limit is not rejected',
                       where=np.argwhere(m_thr)[:10], resid=(data0 - model0)[m_thr][:10], **det)
            m_gr = miss & ~ref['excluded'] & ~ref['thr']
            out.expect(not m_gr.any(), 'reject-grow-missing',
                       'neighbour within grow=%d of a point rejected by a limit is not rejected' % grow,
                       where=np.argwhere(m_gr)[:10], seeds=np.argwhere(ref['thr'])[:20], **det)
            out.expect(not extra.any(), 'reject-extra',
                       'point rejected although it is not excluded, within all limits and not within grow of a rejected point',
                       where=np.argwhere(extra)[:10], resid=(data0 - model0)[extra][:10], seeds=np.argwhere(ref['thr'])[:20], **det)
            prev_eff = np.ones(shape, dtype=bool) if prev is None else (prev != 0)
            unchanged = bool(np.array_equal(mask != 0, prev_eff))
            out.expect(bool(qdone) == unchanged, 'reject-qdone',
                       'qdone=%r but mask %s relative to the outmask passed in' % (qdone, 'unchanged' if unchanged else 'changed'),
                       changed_at=np.argwhere((mask != 0) != prev_eff)[:10], **det)
            out.count('reject_qdone_true' if unchanged else 'reject_qdone_false')
            if repeated and not default_sigma:           # the default sigma depends on the outmask passed in
                out.expect(unchanged, 'reject-repeat', 'repeating the call with its own output as outmask changed the mask', **det)
            # counters
            out.count('reject_by_limit_points', ref['n_thr'])
            out.count('reject_kept_points', int((~ref['must'] & ~und).sum()))
            out.count('reject_excluded_points', ref['n_excluded'])
            out.count('reject_grown_points', ref['n_grown'])
            if grow > 0 and ref['n_thr'] and data0.ndim == 1:
                seeds = np.nonzero(ref['thr'])[0]
                if n > 2 * grow and (seeds.min() < grow or seeds.max() > n - 1 - grow):
                    out.count('reject_grow_clipped_at_end')
            if ref['n_near']:
                out.count('reject_near_limit_undecided', ref['n_near'])
            out.count('reject_near_limit_decided', self._near_count(data0, model0, sigma_ref, invvar0, case) - ref['n_near'])
            if invvar0 is not None and sigma0 is None:
                out.count('reject_invvar_zero_points', int((invvar0 == 0).sum()))
                out.count('reject_invvar_below_1e-8_points', int(((invvar0 > 0) & (invvar0 < 1e-8)).sum()))
                out.count('reject_invvar_above_1e8_points', int((invvar0 > 1e8).sum()))
            if sigma0 is not None and step == 0:
                sa = amplitude(sigma0)
                if 0 < sa < 1e-4:
                    out.count('reject_sigma_below_1e-4_cases')
                if sa > 1e4:
                    out.count('reject_sigma_above_1e4_cases')
            if prev is not None:
                prej = ~(prev != 0)
                if sticky and prej.any():
                    out.count('reject_sticky_steps_with_prev_rejected')
                if not sticky:
                    out.count('reject_nonsticky_readmitted_points', int((prej & ~ref['must'] & ~und).sum()))
            any_thr = any_thr or ref['n_thr'] > 0
            any_kept = any_kept or bool((~ref['must'] & ~und).any())
            prev0 = np.array(mask, copy=True)            # value of the returned mask (reference for the next step)
            prev_obj = mask                              # the returned object itself (handed back when alias != 'copy')
        out.nontrivial = any_thr and any_kept

    @staticmethod
    def _near_count(data, model, sigma, invvar, case):
        """number of points whose residual is within 1e-3 relative of some limit (planted near-limit elements)"""
        d = data - model
        near = np.zeros(d.shape, dtype=bool)
        with np.errstate(all='ignore'):
            if sigma is not None:
                unit = np.broadcast_to(np.asarray(sigma, dtype=float), d.shape)
            elif invvar is not None:
                unit = np.where(invvar > 0, 1.0 / np.sqrt(np.where(invvar > 0, invvar, 1.0)), np.inf)
            else:
                unit = None
            if unit is not None:
                if case['lower'] is not None:
                    t = -case['lower'] * unit
                    near |= np.isfinite(t) & (t != 0) & (np.abs(d - t) <= 1e-3 * np.abs(t))
                if case['upper'] is not None:
                    t = case['upper'] * unit
                    near |= np.isfinite(t) & (t != 0) & (np.abs(d - t) <= 1e-3 * np.abs(t))
            if case['maxdev'] is not None:
                near |= np.abs(np.abs(d) - case['maxdev']) <= 1e-3 * case['maxdev']
        return int(near.sum())

    # .................................................................. djs_maskinterp
    def run_interp(self, case, out):
        shape = tuple(case['shape'])
        nd = len(shape)
        # pristine values for the reference; y / x are the caller's arrays and are handed to EVERY call of the history
        y0 = np.array(case['y'], dtype=np.float64).reshape(shape)
        xdt = case.get('x_dtype', 'float64')
        x0 = None if case['x'] is None else np.array(case['x'], dtype=xdt).reshape(shape)      # pristine, in the caller's dtype
        if x0 is not None:
            assert x0.astype(np.float64).ravel().tolist() == [float(v) for v in case['x']]
            out.count('interp_x_dtype_' + xdt)
            out.count('interp_x_order_' + str(case.get('xorder')))
        P = self._interp_P = Presenter(out, 'interp', case.get('pres'))
        y = P('y', y0)
        x = P('x', x0)
        steps = [{'mask': case['mask'], 'axis': case['axis'], 'const': case['const'], 'axis_kind': case.get('axis_kind', 'py'),
                  'const_kind': case.get('const_kind', 'py')}] + list(case.get('more', []))
        nontrivial = False
        ya = amplitude(y0)
        if 0 < ya < 1e-10:
            out.count('interp_y_amp_below_1e-10_cases')
        if ya > 1e4:
            out.count('interp_y_amp_above_1e4_cases')
        if x0 is not None and x0.size > 1:
            sp = amplitude(np.diff(np.sort(x0.ravel())))
            if 0 < sp < 1e-6:
                out.count('interp_x_spacing_below_1e-6_cases')
            if sp > 1e6:
                out.count('interp_x_spacing_above_1e6_cases')
        for step, st in enumerate(steps):
            m0 = np.array(st['mask']).reshape(shape).astype(case['mask_dtype'])
            if step:
                out.count('interp_history_steps_on_same_array')
                if nd > 1:
                    out.count('interp_history_steps_nd')
            if not self._interp_step(case, out, y, y0, x, x0, m0, st['axis'], st['const'], step,
                                     st.get('axis_kind', 'py'), st.get('const_kind', 'py')):
                return
            nontrivial = nontrivial or out.nontrivial
        out.nontrivial = nontrivial

    def _interp_step(self, case, out, y, y_in, x, x_in, m_in, axis, const, step, axis_kind='py', const_kind='py'):
        """one call on the caller's arrays y / x with a fresh mask object; oracle from the pristine y_in / x_in"""
        shape = y_in.shape
        nd = len(shape)
        mask = self._interp_P('mask', m_in)
        npaxis = 0 if nd == 1 else nd - 1 - axis
        guard = Guard(out, 'interp').add('yval', y).add('mask', mask).add('xval', x)
        ck = as_kind(const, const_kind)
        out.count('kind_const_' + const_kind)

        def call(yy, mm, xx, ax, cc):
            if case['entry'] == 'maskinterp1':
                return self.I.djs_maskinterp1(yy, mm, xval=xx, const=cc)
            if nd == 1:
                return self.I.djs_maskinterp(yy, mm, xval=xx, const=cc)
            return self.I.djs_maskinterp(yy, mm, xval=xx, axis=ax, const=cc)
        if nd > 1:
            out.count('interp_nd_calls')
            out.count('kind_axis_' + axis_kind)
        else:
            axis_kind = 'py'
        got = call(y, mask, x, as_kind(axis, axis_kind), ck)
        if self._interp_P.nonplain or axis_kind != 'py' or const_kind != 'py':
            plain = call(y_in.copy(), m_in.copy(), None if x_in is None else x_in.copy(), axis, const)
            out.expect(same_result(got, plain), 'interp-differs-from-plain-call',
                       'axis given as %s / const as %s gives a different result than the plain Python values' % (axis_kind, const_kind),
                       step=step, axis=axis)
            out.count('scalar_kind_calls_compared_with_plain_call')
        guard.check(step=step, axis=axis)
        x = None if x_in is None else x_in.astype(np.float64)        # exact: |x| < 2**53
        x_in = x
        got = np.asarray(got)
        if not out.expect(got.shape == shape, 'interp-shape', 'result shape %r for input %r' % (got.shape, shape)):
            return False
        got = got.astype(np.float64)
        exp, scale, bad = R.maskinterp_ref(y_in, m_in, x, npaxis)
        good = ~bad
        # classify samples line by line
        bm = np.moveaxis(bad, npaxis, -1)
        kindarr = np.zeros(shape, dtype='U1')            # g good, a all-bad line, s single good, e end, i interior
        km = np.moveaxis(kindarr, npaxis, -1)
        xm = None if x is None else np.moveaxis(x, npaxis, -1)
        for idx in np.ndindex(bm.shape[:-1]):
            b = bm[idx]
            ng = int((~b).sum())
            k = km[idx]
            k[~b] = 'g'
            if ng == 0:
                k[b] = 'a'
                out.count('interp_allbad_lines')
            elif ng == 1 and b.any():
                k[b] = 's'
                out.count('interp_single_good_lines')
            elif b.any():
                pos = np.arange(b.size, dtype=float) if xm is None else xm[idx]
                gp = pos[~b]
                inner = (pos > gp.min()) & (pos < gp.max())
                k[b & inner] = 'i'
                k[b & ~inner] = 'e'
                if xm is not None and np.any(np.diff(pos) < 0):
                    out.count('interp_x_unsorted_lines')
                    if case.get('x_dtype', 'float64').startswith('uint'):
                        out.count('interp_x_unsigned_unsorted_lines')

        def same(a, b):
            return (a == b) | (np.isnan(a) & np.isnan(b))
        sel = kindarr == 'g'
        ok = got[sel] == y_in[sel]            # by value: -0.0 == 0.0 (the one-good-sample broadcast is 0 + value)
        out.expect(ok.all(), 'interp-good-changed', 'an unmasked sample of the result differs from the caller\'s original data',
                   where=np.argwhere(sel)[~ok][:10], got=got[sel][~ok][:10], was=y_in[sel][~ok][:10], axis=axis, step=step)
        out.count('interp_good_samples_compared', int(sel.sum()))
        sel = kindarr == 'a'
        ok = same(got[sel], y_in[sel])
        out.expect(ok.all(), 'interp-allbad', 'line without any good sample was not returned unchanged',
                   where=np.argwhere(sel)[~ok][:10], axis=axis, step=step)
        sel = kindarr == 's'
        ok = got[sel] == exp[sel]
        out.expect(ok.all(), 'interp-single-good', 'line with one good sample is not that value everywhere',
                   where=np.argwhere(sel)[~ok][:10], got=got[sel][~ok][:10], exp=exp[sel][~ok][:10], axis=axis, step=step)
        sel = kindarr == 'e'
        ok = got[sel] == exp[sel]
        out.expect(ok.all(), 'interp-ends', 'masked sample beyond the outermost good sample is not held at that sample\'s value',
                   where=np.argwhere(sel)[~ok][:10], got=got[sel][~ok][:10], exp=exp[sel][~ok][:10], axis=axis, x=case['xorder'], step=step)
        out.count('interp_end_samples', int(sel.sum()))
        sel = kindarr == 'i'
        with np.errstate(all='ignore'):
            err = np.abs(got[sel] - exp[sel])
            ok = err <= 1e-9 * scale[sel] + 1e-300
        out.expect(ok.all(), 'interp-interior',
                   'masked sample is not the linear interpolation between its nearest good neighbours',
                   where=np.argwhere(sel)[~ok][:10], got=got[sel][~ok][:10], exp=exp[sel][~ok][:10], axis=axis, x=case['xorder'], step=step)
        out.count('interp_interior_samples', int(sel.sum()))
        out.nontrivial = bool(sel.any())
        if sel.any():
            with np.errstate(all='ignore'):
                rel = err / np.where(scale[sel] > 0, scale[sel], 1.0)
            out.info['max_rel_err'] = float(np.nanmax(rel))
            if ok.all():
                self._max_rel = max(self._max_rel, out.info['max_rel_err'])
        return True

    # .................................................................. aesthetics
    def run_aesthetics(self, case, out):
        dt = case['dtype']
        f_in = np.array(case['flux'], dtype=np.float64).astype(dt)         # pristine
        iv_in = np.array(case['invvar'], dtype=np.float64).astype(case.get('invvar_dtype') or dt)
        if case.get('invvar_dtype'):
            out.count('aesthetics_integer_invvar_cases')
        P = Presenter(out, 'aesthetics', case.get('pres'))
        flux, ivar = P('flux', f_in), P('invvar', iv_in)                       # the caller's arrays, used by every call
        good = iv_in != 0
        b = f_in[good].astype(np.float64)
        out.count('aesthetics_good_pixels_invvar_below_1e-8', int((good & (np.abs(iv_in) <= 1e-8)).sum()))
        out.count('aesthetics_good_pixels_invvar_above_1e8', int((iv_in > 1e8).sum()))
        fa = amplitude(f_in)
        if 0 < fa < 1e-10:
            out.count('aesthetics_flux_amp_below_1e-10_cases')
        if fa > 1e4:
            out.count('aesthetics_flux_amp_above_1e4_cases')
        for step, method in enumerate([case['method']] + list(case.get('more', []))):
            # the property allows flux to change where invvar == 0, so only the other pixels of the caller's flux are guarded
            guard = Guard(out, 'aesthetics').add('flux', flux, only=good).add('invvar', ivar)
            kl = case.get('kinds') or []
            mk = kl[step] if step < len(kl) else 'py'
            out.count('kind_method_' + mk)
            got = np.asarray(self.S2.aesthetics(flux, ivar, method=as_kind(method, mk)))
            guard.check(step=step, method=method)
            if mk != 'py' or P.nonplain:
                plain = self.S2.aesthetics(f_in.copy(), iv_in.copy(), method=method)
                out.expect(same_result(got, plain), 'aesthetics-differs-from-plain-call',
                           'method given as numpy.str_ gives a different result than the plain str', step=step, method=method)
                out.count('scalar_kind_calls_compared_with_plain_call')
            if step:
                out.count('aesthetics_history_steps_on_same_array')
            if not out.expect(got.shape == f_in.shape, 'aesthetics-shape', 'result shape %r' % (got.shape,)):
                return
            a = got[good].astype(np.float64)
            ok = a == b
            out.expect(ok.all(), 'aesthetics-good-changed',
                       'method %s: flux at a pixel whose inverse variance is not zero differs from the caller\'s original flux' % method,
                       where=np.nonzero(good)[0][~ok][:10], got=a[~ok][:10], was=b[~ok][:10], step=step)
            out.count('aesthetics_good_pixels_compared', int(good.sum()))
            out.count('aesthetics_bad_pixels', int((~good).sum()))
            out.count('aesthetics_' + method)
        out.nontrivial = bool(good.any() and (~good).any())

    # .................................................................. djs_median
    def run_median(self, case, out):
        shape = tuple(case['shape'])
        a_in = np.array(case['a'], dtype=np.float64).reshape(shape).astype(case['dtype'])     # pristine
        P = Presenter(out, 'median', case.get('pres'))
        a = P('a', a_in)                                                                       # the caller's array
        nontrivial = False
        ma = amplitude(a_in)
        if 0 < ma < 1e-10:
            out.count('median_amp_below_1e-10_cases')
        if ma > 1e4:
            out.count('median_amp_above_1e4_cases')
        for step, w in enumerate([case['width']] + list(case.get('more', []))):
            guard = Guard(out, 'median').add('array', a)
            kl = case.get('kinds') or []
            kd = kl[step] if step < len(kl) else {}
            wk, bk = kd.get('width', 'py'), kd.get('boundary', 'py')
            out.count('kind_width_' + wk)
            out.count('kind_boundary_' + bk)
            if step == 0:
                out.count('median_dtype_' + case['dtype'])
            if w >= 3 and a.dtype.kind == 'f' and not a.dtype.isnative:
                out.count('median_swapped_float_%dd_filter_calls' % a.ndim)
            got = np.asarray(self.M.djs_median(a, width=as_kind(w, wk), boundary=as_kind('reflect', bk)))
            guard.check(step=step, width=w)
            if wk != 'py' or bk != 'py' or P.nonplain:
                plain = self.M.djs_median(a_in.copy(), width=w, boundary='reflect')
                out.expect(same_result(got, plain), 'median-differs-from-plain-call',
                           'width given as %s / boundary as %s gives a different result than the plain Python values' % (wk, bk),
                           step=step, width=w)
                out.count('scalar_kind_calls_compared_with_plain_call')
            if step:
                out.count('median_history_steps_on_same_array')
            if not out.expect(got.shape == shape, 'median-shape', 'result shape %r for input %r' % (got.shape, shape)):
                return
            exp = R.median_reflect_ref(a_in, w)
            ok = got == exp
            out.expect(ok.all(), 'median-reflect',
                       'running median with symmetric reflection differs from the brute-force window median of the caller\'s original array',
                       width=w, shape=list(shape), step=step, where=np.argwhere(~ok)[:10], got=got[~ok][:10], exp=exp[~ok][:10])
            h = w // 2
            nedge = 0
            if h:
                if a_in.ndim == 1:
                    nedge = min(shape[0], 2 * h)
                else:
                    inner = max(0, shape[0] - 2 * h) * max(0, shape[1] - 2 * h)
                    nedge = a_in.size - inner
                    out.count('median_2d_cases')
            out.count('median_reflected_windows', nedge)
            nontrivial = nontrivial or bool((exp != a_in).any())
        out.nontrivial = nontrivial

    # .................................................................. skymask
    def run_skymask(self, case, out):
        nr, npx = case['shape']
        iv_in = np.array(case['ivar'], dtype=np.float64).reshape(nr, npx)   # pristine
        dt = case['dtype']
        om_in = np.array(case['mask'], dtype=dt).reshape(nr, npx)
        assert om_in.tolist() == case['mask']
        andmask = None
        if case['andmask'] == 'zeros':
            andmask = np.zeros((nr, npx), dtype=dt)
        elif case['andmask'] == 'allflags':
            andmask = np.full((nr, npx), (1 << BADSKYCHI) | (1 << REDMONSTER) if dt != 'int16' else 1, dtype=dt)
        P = Presenter(out, 'skymask', case.get('pres'))
        ivar, om = P('invvar', iv_in), P('ormask', om_in)                    # the caller's arrays, used by every call
        andmask0, andmask = andmask, P('andmask', andmask)
        nontrivial = False
        try:
            # every case starts from the same global state: one call under the official table (so that a replay of the
            # case alone sees the same call history as the shard did)
            self._use_table('official', 'assign')
            pv = np.array([[1.0, 2.0, 3.0]])
            pg = np.asarray(self.S1.skymask(pv, None, np.array([[1 << BADSKYCHI, 0, 0]], dtype='int32'), ngrow=0))
            out.expect(np.array_equal(pg, [[0.0, 2.0, 3.0]]), 'skymask-not-zeroed', 'priming call under the official table is wrong')
            self._run_skymask_history(case, out, ivar, om, andmask, iv_in, om_in, andmask0, P)
        finally:
            self._use_table('official', 'assign')                           # restore the fixture table

    def _use_table(self, name, via):
        import copy
        if via == 'file':
            self.SD.maskbits = self.SD.set_maskbits(maskbits_file=self._table_files[name])
        else:
            self.SD.maskbits = copy.deepcopy(self._tables[name])

    def _run_skymask_history(self, case, out, ivar, om, andmask, iv_in, om_in, andmask0, P):
        nr, npx = case['shape']
        dt = case['dtype']
        nontrivial = False
        current = 'official'
        out.count('skymask_invvar_below_1e-8_pixels', int(((iv_in > 0) & (iv_in < 1e-8)).sum()))
        out.count('skymask_invvar_above_1e8_pixels', int((iv_in > 1e8).sum()))
        steps = [{'ngrow': case['ngrow'], 'ormask_none': case['ormask_none'], 'ngrow_kind': case.get('ngrow_kind', 'py'),
                  'table': case.get('table', 'official'), 'via': case.get('via', 'assign')}] + list(case.get('more', []))
        for step, st in enumerate(steps):
            ngrow = st['ngrow']
            table, via = st.get('table', 'official'), st.get('via', 'assign')
            self._use_table(table, via)
            out.count('skymask_table_%s_calls' % table)
            out.count('skymask_table_set_via_' + via)
            if table != current:
                out.count('skymask_table_changed_between_calls')
            current = table
            b1, b2 = TABLES[table][1:]
            F = (1 << b1) | (1 << b2)
            nk = st.get('ngrow_kind', 'py')
            ngrow_k = as_kind(ngrow, nk)
            out.count('kind_ngrow_' + nk)
            guard = Guard(out, 'skymask').add('invvar', ivar).add('ormask', om).add('andmask', andmask)
            if step:
                out.count('skymask_history_steps_on_same_array')
            if st.get('ormask_none'):
                got = np.asarray(self.S1.skymask(ivar, andmask, None, ngrow=ngrow_k))
                guard.check(step=step, ngrow=ngrow)
                out.expect(got.shape == iv_in.shape and np.array_equal(got, iv_in), 'skymask-none',
                           'ormask=None must leave the inverse variance unchanged', step=step)
                out.count('skymask_ormask_none')
                continue
            got = np.asarray(self.S1.skymask(ivar, andmask, om, ngrow=ngrow_k))
            guard.check(step=step, ngrow=ngrow, dtype=dt)
            if nk != 'py' or P.nonplain:
                plain = self.S1.skymask(iv_in.copy(), native(andmask0), om_in.copy(), ngrow=ngrow)
                out.expect(same_result(got, plain), 'skymask-differs-from-plain-call',
                           'ngrow given as %s / arrays presented as %r give a different result than a plain int with plain native '
                           'arrays' % (nk, P.pres), step=step, ngrow=ngrow, table=table)
                out.count('scalar_kind_calls_compared_with_plain_call')
            if dt in ('int16', 'int32', 'int64'):
                out.count('skymask_signed_dtype_cases')
            out.count('skymask_dtype_' + dt)
            if not out.expect(got.shape == (nr, npx), 'skymask-shape', 'result shape %r' % (got.shape,)):
                return
            exp, flagged, dil = R.skymask_ref(iv_in, case['mask'], (b1, b2), ngrow)
            got = got.astype(np.float64)
            z = dil & (got != 0)
            out.expect(not z.any(), 'skymask-not-zeroed',
                       'inverse variance within ngrow=%d pixels of a BADSKYCHI/REDMONSTER pixel (bits %d/%d of table %s) is not zero' % (ngrow, b1, b2, table),
                       where=np.argwhere(z)[:10], flagged=np.argwhere(flagged)[:20], dtype=dt, step=step)
            t = ~dil & (got != iv_in)
            out.expect(not t.any(), 'skymask-touched',
                       'inverse variance farther than ngrow=%d pixels (along the row) from every flagged pixel differs from the '
                       'caller\'s original inverse variance' % ngrow,
                       where=np.argwhere(t)[:10], flagged=np.argwhere(flagged)[:20], got=got[t][:10], was=iv_in[t][:10], dtype=dt, step=step)
            out.count('skymask_flagged_pixels', int(flagged.sum()))
            out.count('skymask_grown_pixels', int((dil & ~flagged).sum()))
            if flagged.any() and (flagged[:, 0].any() or flagged[:, -1].any()) and ngrow > 0 and nr > 1:
                out.count('skymask_row_end_flags')
            out.count('skymask_distractor_only_pixels', sum(1 for row in case['mask'] for v in row if v != 0 and not (v & F)))
            nontrivial = nontrivial or bool(flagged.any() and (~dil).any())
        out.nontrivial = nontrivial

    # ------------------------------------------------------------ evidence
    def summarise(self, case):
        if case.get('kind') == 'xwork':
            return {'kind': 'xwork', 'driver': case['driver'], 'driver_class': case.get('dcls'), 'files': case.get('files')}
        c = {}
        for k, v in case.items():
            if isinstance(v, list) and len(v) > 12:
                c[k] = v[:12] + ['... %d values' % len(v)]
            else:
                c[k] = v
        if 'models' in case:
            c['models'] = [m[:6] + ['...'] if len(m) > 6 else m for m in case['models']]
        return c


CHECK = C17()
