"""C19 - wavelength, photometric-system and band-flux conversions are self-consistent.

Events: return values (and argument bytes before/after) of airtovac / vactoair for every input flavour,
of sdssflux2ab in its three forms, and of filter_thru(flux, waveimg|wset, mask, toair).
Oracle: relations between observed outputs (round trip, flavour agreement, linearity, constant spectrum,
bounds, mask independence, wset == waveimg) plus an independent weighted-mean model for smooth
wavelength solutions (vlib/refs/conversions.py: own table parser, numpy.polynomial, long-double Ciddor).
"""
import numpy as np
from vlib.harness import Check, np_rng, repo_path
from vlib.refs import conversions as R

# Angstrom per unit (own table, not astropy's)
UNITS = {'AA': 1.0, 'nm': 10.0, 'um': 1.0e4, 'm': 1.0e10}
EDGE = 2000.0
RT_TOL = 1.0e-6          # Angstrom, from the property text
BAND = 1.0e-9            # relative ambiguity band around 2000 A for inputs that pass through a unit conversion
HOT = [100.0, 1999.0, 1999.999999, float(np.nextafter(2000.0, 0.0)), 2000.0, float(np.nextafter(2000.0, 3000.0)),
       2000.000001, 2000.001, 2000.6, 2000.6514, 2000.6515, 2000.652, 2001.0, 3000.0, 5000.0, 10000.0, 3.0e5]
INV = {'airtovac': 'vactoair', 'vactoair': 'airtovac'}


def _bytes(x):
    return np.asarray(x).tobytes()


# Ways a caller has of saying "yes" / "no" to a boolean keyword (magnitude=, ivar=, toair=).  The literal True / False
# is the reference spelling; everything else is what flags look like when they come out of data: an element of a bool
# array, a comparison or np.any()/np.all() (numpy.bool_), a 0/1 column (Python / numpy integers, whole floats), a 0-d
# array, None for "not set".  Built afresh for every call.
SWITCH_YES = {
    'numpy.True_': lambda: np.True_,
    '(numpy.arange(3) == 1)[1]': lambda: (np.arange(3) == 1)[1],
    'numpy.any([False, True])': lambda: np.any([False, True]),
    '1': lambda: 1,
    'numpy.int64(1)': lambda: np.int64(1),
    'numpy.uint8(1)': lambda: np.uint8(1),
    '1.0': lambda: 1.0,
    'numpy.float64(1.0)': lambda: np.float64(1.0),
    'numpy.array(True)': lambda: np.array(True),
    'numpy.array(1)': lambda: np.array(1),
}
SWITCH_NO = {
    'numpy.False_': lambda: np.False_,
    'numpy.all([True, False])': lambda: np.all([True, False]),
    '0': lambda: 0,
    'numpy.int64(0)': lambda: np.int64(0),
    '0.0': lambda: 0.0,
    'numpy.float64(0.0)': lambda: np.float64(0.0),
    'None': lambda: None,
    'numpy.array(False)': lambda: np.array(False),
    'numpy.array(0)': lambda: np.array(0),
}


def _switch_kind(name):
    if name == 'None':
        return 'none'
    if 'array(' in name:
        return '0d_array'
    if name in ('1', '0') or 'int' in name:
        return 'integer'
    if name in ('1.0', '0.0') or 'float' in name:
        return 'float'
    return 'numpy_bool'


class C19(Check):
    ID = 'C19'
    RULE = ('airtovac/vactoair: wavelengths log-uniform over 100 A .. 30 um mixed with 17 edge values around 2000 A '
            '(2000 exactly, +-1 ulp, the vacuum image of 2000) given as Python float, numpy float64 scalar, 0-d array, '
            '1-d/2-d arrays (contiguous, strided, read-only, big-endian) and scalar/array Quantity in A, nm, um, m; '
            'every call is checked for: < 2000 A unchanged, vacuum > air above, both round trips <= 1e-6 A, agreement '
            'of every flavour with the plain float64 array answer (1e-9 relative, in A), caller\'s unit and shape, '
            'argument bytes unchanged.  sdssflux2ab: 1-50 rows x 5 bands incl. negative/zero fluxes, all three forms '
            'on the same array object; the magnitude / ivar switches (and toair of filter_thru) also spelled the way flags '
            'come out of data (numpy.bool_ from indexing / comparison / any / all, Python and numpy 0/1, whole floats, '
            '0-d arrays, None), as keywords and positionally, alone and combined: bit for bit the answer for the literal '
            'True / False.  filter_thru: 1-6 traces x 50-600 px, SDSS-like / narrow / partly or fully '
            'out-of-band / decreasing / noisy wavelength solutions as image and as trace set, plus pixel-by-pixel images '
            'that are no polynomial in pixel number (2-3 spliced arms with dispersion ratio 2-30, a dispersion step '
            'inside a band, overlapping arms = locally reversed wavelengths, repeated pixels, 1-3 pixels inside a band) '
            'with a single bright pixel / top hat / line / step moved across the band from trace to trace; toair on and '
            'off, random masks with NaN/inf/1e300 under them.  Every routine is called again on the same objects '
            '(answers bit-identical, arguments byte-identical afterwards).  Non-trivial: an airtovac case with >= 1 wavelength >= 2000 A, any '
            'flux2ab case, a filter_thru case with >= 1 (trace, band) the wavelengths overlap; distinct by input hash.')
    ASSUMPTIONS = [
        'float64 wavelengths (a float32 wavelength cannot hold 1e-6 A); Quantity values below 2000 A in units other '
        'than Angstrom are required unchanged to 1e-12 relative (they pass through two unit conversions inside pydl: '
        'observed 2 ulp), in Angstrom / without unit bitwise',
        'elements within 1e-9 relative of 2000 A are undecided for inputs given in nm/um/m (unit conversion rounds)',
        'filter_thru: every trace keeps >= 1 unmasked pixel (a fully masked trace has no flux to average); '
        'polynomial/noisy solutions strictly monotonic (increasing or decreasing), spliced images positive but '
        'otherwise arbitrary (the docstring only asks for a full wavelength image); bands whose largest response over the '
        'trace lies in (0, 1e-6) are undecided; nothing is asserted about the value returned for a band without overlap',
        'filter_thru weighted-mean model compared only for polynomial (degree <= 4) log-wavelength solutions, where '
        'the cubic fit of the pixel size inside filter_thru is exact; response = second column (respt) of the tables',
        'a pixel is masked iff mask != 0 on the mask as given (djs_maskinterp1: good = mask == 0): mask dtype and values '
        'are drawn together - bool, i1..i8/u1..u8 flags incl. negative and high-bit-only 64-bit words (2**32, 2**40, '
        '2**62, 2**63), f2/f4/f8 with fractions (0.25, 0.9, -0.5, 1e-3, 1e-300, 5e-324), inf and NaN (NaN != 0 is True)',
        'sdssflux2ab offsets c_b are read off the magnitude form of each case, not taken from the docstring',
        'whole-Angstrom wavelengths are also given as integer-dtype arrays (i2/u2/i4/u4/i8, big-endian, 1-d/2-d/0-d), '
        'Python and numpy integer scalars and Quantities built from integer arrays, each against the float64 answer; '
        'plain lists/tuples (not "float, array and Quantity") and integer-dtype sdssflux2ab input may be refused with a '
        'TypeError (what the current tree does, counted as *_refused), but an answer must equal the float64 answer',
        'boolean switches: "set" means truthy, as the tree tests it (if magnitude / if ivar / if toair); a spelling other '
        'than the Python bool may be refused loudly (TypeError / ValueError, counted as *_refused), but an answer must be '
        'the answer for the literal of the same truth; with both magnitude and ivar set the reference is whatever the tree '
        'answers for magnitude=True, ivar=True',
        'integer flux images (raw counts, i2/i4/i8) are generated for filter_thru since F-A2 was repaired (the pinned tree '
        'answered 0 in every band for them)',
    ]
    REQUIRED_COUNTERS = ('atv_below_unchanged', 'atv_above_strict', 'atv_roundtrip_av', 'atv_roundtrip_va',
                         'atv_exact_2000', 'atv_python_float', 'atv_numpy_scalar', 'atv_0d_array',
                         'atv_quantity_scalar', 'atv_quantity_array', 'atv_flavour_agreement', 'atv_input_unchanged',
                         'ab_rows', 'ab_negative_flux', 'ft_overlap_bands', 'ft_no_overlap_bands', 'ft_masked_pixels',
                         'ft_wset_vs_waveimg', 'ft_toair_calls', 'ft_model_compared', 'ft_linear', 'ft_const',
                         'ft_decreasing_wavelength', 'ft_spliced_cases', 'ft_dispersion_ratio_ge_10',
                         'ft_locally_reversed_or_duplicated', 'ft_dispersion_step_inside_band',
                         'ft_single_bright_pixel_traces', 'ft_bands_with_1_to_3_pixels', 'ft_inputs_unchanged',
                         'atv_repeat_calls', 'ab_repeat_calls', 'atv_integer_array_calls', 'atv_integer_2d_array_calls',
                         'atv_python_int', 'atv_numpy_int_scalar', 'atv_integer_0d_array', 'atv_integer_quantity',
                         'atv_sequence_calls', 'ab_integer_calls', 'ft_integer_flux_cases',
                         'ft_mask_fractional_float_pixels', 'ft_mask_high_bits_only_pixels', 'ft_mask_nan_inf_pixels',
                         'ft_mask_negative_pixels', 'ft_mask_int8_int16_pixels',
                         'ab_switch_spelled_answers', 'ab_switch_truthy_nonliteral_answers',
                         'ab_switch_numpy_bool_answers', 'ab_switch_integer_answers',
                         'ft_toair_spelled_answers', 'ft_toair_truthy_spelled_answers')
    MIN_NONTRIVIAL = 20

    # ------------------------------------------------------------------ setup
    def setup(self):
        import astropy.units as u
        import pydl.goddard.astro as A
        import pydl.photoop.sdssio as IO
        import pydl.pydlspec2d.spec2d as S2
        from pydl.pydlutils.trace import TraceSet
        self.u, self.A, self.IO, self.S2, self.TraceSet = u, A, IO, S2, TraceSet
        self.uobj = {'AA': u.AA, 'nm': u.nm, 'um': u.um, 'm': u.m}
        for f in (A.airtovac, A.vactoair, IO.sdssflux2ab, S2.filter_thru):
            self.reach.add(f)
        self.brd.per_case = 4
        self.brd.attach(self.rec, A, 'airtovac', every=3, own=True)          # buffer-reuse differential (vlib/brd.py)
        self.brd.attach(self.rec, A, 'vactoair', every=3, own=True)
        self.brd.attach(self.rec, IO, 'sdssflux2ab', every=5, own=True)
        self.rec.wrap(A, 'airtovac')
        self.rec.wrap(A, 'vactoair')
        self.rec.wrap(IO, 'sdssflux2ab')
        self.rec.wrap(S2, 'filter_thru')
        self.worst = {}
        self.filters = R.load_filters(repo_path())
        self.edges = R.support_edges(self.filters)

    def teardown(self):
        self.rec.unwrap_all()

    # largest deviation seen per toleranced clause (evidence of the margin; never part of the verdict)
    TOLERANCES = {'roundtrip_A': RT_TOL, 'flavour_rel': 1e-9, 'below2000_other_units_rel': 1e-12, 'ab_f8_rel': 1e-12,
                  'ft_linear_f8': 1e-10, 'ft_const_f8_rel': 1e-12, 'ft_model_f8': 1e-7, 'ft_wset_waveimg_f8': 1e-9,
                  'ft_bounds_excess_f8': 1e-12}

    def _worst(self, key, v):
        v = float(v)
        if v == v and v > self.worst.get(key, -1.0):
            self.worst[key] = v

    def shard_extra(self):
        return {'x_worst': self.worst}

    def extra_evidence(self, merged):
        w = {}
        for d in merged.get('x_worst', []):
            for k, v in d.items():
                w[k] = max(w.get(k, 0.0), v)
        return {'worst_observed_deviation': {k: {'observed': w[k], 'tolerance': self.TOLERANCES.get(k)} for k in sorted(w)}}

    def budget(self, tier):
        q = tier == 'quick'
        return {
            'atv_edges': 8 if q else 64,
            'atv_scalars': 120 if q else 4000,
            'atv_arrays': 160 if q else 6000,
            'atv_integers': 60 if q else 2000,
            'flux2ab': 120 if q else 4000,
            'ft_sdss': 40 if q else 700,
            'ft_narrow': 32 if q else 600,
            'ft_outband': 24 if q else 400,
            'ft_noisy': 24 if q else 400,
            'ft_spliced': 48 if q else 1000,
        }

    # ------------------------------------------------------------------ gen
    def gen(self, cls, rng, i):
        if cls.startswith('atv'):
            return self._gen_atv(cls, rng, i)
        # the spellings of the boolean switches are drawn last, so the data of a case do not depend on them
        if cls == 'flux2ab':
            case = self._gen_ab(rng, i)
            case['yes'] = rng.sample(list(SWITCH_YES), len(SWITCH_YES))
            case['no'] = rng.sample(list(SWITCH_NO), len(SWITCH_NO))
            return case
        case = self._gen_ft(cls, rng, i)
        if case is not None:
            case['toair_as'] = rng.choice(list(SWITCH_YES)) if case['toair'] else rng.choice(['False'] + list(SWITCH_NO))
        return case

    @staticmethod
    def _lam(rng):
        m = rng.random()
        if m < 0.70:
            return float(np.exp(rng.uniform(np.log(100.0), np.log(3.0e5))))
        if m < 0.80:
            return float(2000.0 + rng.choice([-1, 1]) * 10.0 ** rng.uniform(-9, 1.5))
        if m < 0.85:
            return float(2000.6514 + rng.choice([-1, 1]) * 10.0 ** rng.uniform(-9, 0))
        if m < 0.93:
            return rng.choice(HOT)
        return float(rng.uniform(100.0, 2000.0))

    def _gen_atv(self, cls, rng, i):
        units = ['AA', 'nm', 'um', 'm']
        if cls == 'atv_edges':
            extra = [float(2000.0 + rng.choice([-1, 1]) * 10.0 ** rng.uniform(-12, 0)) for _ in range(6)]
            extra += [float(2000.6474934 + rng.choice([-1, 1]) * 10.0 ** rng.uniform(-9, -2)) for _ in range(4)]
            return {'kind': 'atv', 'lam': list(HOT) + extra, 'scalars': len(HOT) + len(extra), 'shape': None,
                    'layout': rng.choice(['c', 'strided', 'readonly', 'bigendian']), 'units': units, 'arrays': True}
        if cls == 'atv_integers':
            # whole-Angstrom wavelengths, to be handed over in integer dtypes / Python ints / sequences / integer Quantities
            m = rng.random()
            if m < 0.15:
                lo = rng.randrange(2100, 4000, 100)
                lam = list(range(lo, lo + rng.randint(2, 14) * 500, 500))          # np.arange(3000, 9000, 500)-like grids
            else:
                top = rng.choice([30000, 30000, 65000, 300000])
                n = rng.randint(1, 40)
                lam = [rng.choice([1999, 2000, 2001, 100, 1500, 2500, top]) if rng.random() < 0.15
                       else int(round(np.exp(rng.uniform(np.log(100.0), np.log(float(top)))))) for _ in range(n)]
            n = len(lam)
            shape = None
            if rng.random() < 0.35 and n >= 2:
                r = rng.choice([d for d in range(1, n + 1) if n % d == 0])
                shape = [r, n // r]
            qints = {'AA': lam,
                     'nm': [rng.choice([150, 199, 200, 201, 500]) if rng.random() < 0.2 else rng.randint(10, 30000) for _ in range(n)],
                     'um': [rng.randint(1, 30) for _ in range(n)]}
            return {'kind': 'atv', 'ints': True, 'lam': [float(v) for v in lam], 'qints': qints, 'scalars': min(n, 3),
                    'shape': shape, 'layout': rng.choice(['c', 'c', 'readonly', 'strided']), 'units': [], 'arrays': False}
        if cls == 'atv_scalars':
            n = rng.randint(1, 6)
            return {'kind': 'atv', 'lam': [self._lam(rng) for _ in range(n)], 'scalars': n, 'shape': None,
                    'layout': 'c', 'units': rng.sample(units, 2), 'arrays': False}
        # arrays
        m = rng.random()
        if m < 0.1:
            n = rng.randint(1, 3)
        elif m < 0.8:
            n = rng.randint(2, 60)
        else:
            n = rng.randint(60, 400)
        shape = None
        if rng.random() < 0.3:
            r = rng.randint(1, 5)
            c = max(1, n // r)
            n = r * c
            shape = [r, c]
        mode = rng.random()
        if mode < 0.10:
            lam = [float(rng.uniform(100.0, 1999.999)) for _ in range(n)]          # all below
        elif mode < 0.25:
            lam = [float(np.exp(rng.uniform(np.log(2000.0001), np.log(3.0e5)))) for _ in range(n)]   # all above
        else:
            lam = [self._lam(rng) for _ in range(n)]
        return {'kind': 'atv', 'lam': lam, 'scalars': 0, 'shape': shape,
                'layout': rng.choice(['c', 'c', 'strided', 'readonly', 'bigendian', 'fortran']),
                'units': rng.sample(units, rng.randint(1, 2)), 'arrays': True}

    def _gen_ab(self, rng, i):
        g = np_rng(rng)
        rows = rng.choice([1, 1, 2, 3, 5, 10, rng.randint(1, 50)])
        scale = rng.choice([1.0, 1.0, 100.0, 1.0e-3, 1.0e4])
        flux = g.normal(0.5, 2.0, (rows, 5)) * scale
        if rng.random() < 0.3:
            flux = np.abs(flux) + 1e-3 * scale
        if rng.random() < 0.3:
            flux[g.uniform(size=flux.shape) < 0.2] = 0.0
        ivar = g.uniform(0.0, 4.0, (rows, 5)) / scale ** 2
        ivar[g.uniform(size=ivar.shape) < 0.1] = 0.0
        mag = np.where(flux > 0, 22.5 - 2.5 * np.log10(np.where(flux > 0, flux, 1.0)), g.uniform(10, 30, flux.shape))
        if rng.random() < 0.2:
            mag[g.uniform(size=mag.shape) < 0.2] = -9999.0
        return {'kind': 'ab', 'flux': flux.tolist(), 'ivar': ivar.tolist(), 'mag': mag.tolist(),
                'layout': rng.choice(['c', 'c', 'fortran', 'strided', 'readonly']),
                'dtype': rng.choice(['f8', 'f8', 'f8', 'f4'])}

    # "masked" is what the tree tests: djs_maskinterp1 uses good = (mask == 0), bad = (mask != 0), on the mask exactly as
    # the caller gave it.  So every non-zero value of every dtype marks a masked pixel: fractions, denormals, NaN, inf,
    # negative flags, flag words with only high bits set.  dtype AND value range are drawn together.
    MASK_POOLS = [
        ('bool', [True]),
        ('u1', [1, 64, 128, 255]), ('i1', [1, -1, -128, 127]), ('i2', [1, 256, -32768, -1]), ('u2', [1, 32768, 65535]),
        ('i4', [1, 2 ** 20, -1, -2 ** 31, 2 ** 30]), ('u4', [1, 2 ** 31, 2 ** 32 - 1]),
        ('i8', [1, 64, -1, 2 ** 20]), ('u8', [1, 64, 2 ** 20]),
        ('i8', [2 ** 32, 2 ** 40, 2 ** 62, -2 ** 32, 3 * 2 ** 32, -2 ** 63]),
        ('u8', [2 ** 32, 2 ** 40, 2 ** 62, 2 ** 63, 2 ** 64 - 2 ** 32]),
        ('i8', [2 ** 32, 1, 2 ** 40, -5]),
        ('f8', [0.25, 0.9, -0.5, 1e-3, 1e-300, 5e-324, -1e-12]),
        ('f4', [0.25, 0.9, -0.5, 1e-3, 1e-30]),
        ('f2', [0.25, 0.5, -0.125]),
        ('f8', [1.0, -1.0, 64.0, 0.5, 1e300, float('inf'), float('-inf')]),
        ('f8', [float('nan'), 0.25, 1.0]),
        ('f4', [float('nan'), 1.0]),
    ]

    def _gen_maskvals(self, rng):
        m = rng.random()
        if m < 0.22:
            dt, pool = self.MASK_POOLS[rng.choice([12, 12, 13, 14])]       # fractional floats
        elif m < 0.44:
            dt, pool = self.MASK_POOLS[rng.choice([9, 10, 11])]            # 64-bit words, low 32 bits clear
        else:
            dt, pool = rng.choice(self.MASK_POOLS)
        k = rng.randint(1, len(pool))
        return dt, rng.sample(pool, k)

    @staticmethod
    def _gen_mask(rng, g, nT, nx):
        # mask: every trace keeps >= 1 good pixel
        mk = rng.choice(['sparse', 'sparse', 'runs', 'edges', 'heavy', 'onegood'])
        mask = np.zeros((nT, nx), dtype=int)
        for t in range(nT):
            if mk == 'sparse':
                mask[t] = g.uniform(size=nx) < rng.uniform(0.01, 0.3)
            elif mk == 'runs':
                for _ in range(rng.randint(1, 5)):
                    s = rng.randint(0, nx - 1)
                    mask[t, s:s + rng.randint(1, max(2, nx // 6))] = 1
            elif mk == 'edges':
                mask[t, :rng.randint(1, nx // 3)] = 1
                mask[t, nx - rng.randint(1, nx // 3):] = 1
            elif mk == 'heavy':
                mask[t] = g.uniform(size=nx) < 0.9
            else:
                mask[t] = 1
                mask[t, rng.randint(0, nx - 1)] = 0
            if t > 0 and rng.random() < 0.2:
                mask[t] = 0                       # an unmasked trace among masked ones
            if mask[t].all():
                mask[t, rng.randint(0, nx - 1)] = 0
        if not mask.any():
            mask[0, rng.randint(0, nx - 1)] = 1
            if mask[0].all():
                mask[0, 0] = 0
        return mask

    def _gen_ft(self, cls, rng, i):
        if cls == 'ft_spliced':
            return self._gen_spliced(rng, i)
        g = np_rng(rng)
        nT = rng.randint(1, 6)
        nx = rng.randint(50, 600) if cls != 'ft_sdss' else rng.randint(200, 600)
        func = rng.choice(['legendre', 'legendre', 'chebyshev', 'poly'])
        ncoeff = rng.randint(2, 5)
        if cls == 'ft_sdss':
            mid, half = 3.77 + rng.uniform(-0.02, 0.02), 0.19 + rng.uniform(-0.03, 0.03)
        elif cls == 'ft_narrow':
            mid, half = rng.uniform(3.45, 4.06), 10 ** rng.uniform(-2.6, -1.2)
        elif cls == 'ft_outband':
            m = rng.random()
            if m < 0.3:
                mid, half = rng.uniform(3.05, 3.35), rng.uniform(0.02, 0.1)      # blue of u (crosses 2000 A)
            elif m < 0.6:
                mid, half = rng.uniform(4.15, 4.4), rng.uniform(0.02, 0.08)      # red of z
            elif m < 0.8:
                mid, half = rng.uniform(3.3, 3.5), rng.uniform(0.05, 0.15)       # reaches into u only
            else:
                mid, half = rng.uniform(3.95, 4.1), rng.uniform(0.05, 0.15)      # reaches into z only
        else:
            mid, half = rng.uniform(3.5, 4.0), rng.uniform(0.02, 0.25)
        sign = -1.0 if rng.random() < 0.3 else 1.0
        coeff = []
        for t in range(nT):
            if t == 0 or rng.random() < 0.3:
                c0 = mid + rng.uniform(-0.01, 0.01)
                c1 = sign * half * rng.uniform(0.9, 1.1)
            else:
                c0 = coeff[0][0] + rng.uniform(-0.002, 0.002)
                c1 = coeff[0][1]
            c = [c0, c1]
            for k in range(2, ncoeff):
                c.append(c1 * rng.uniform(-1, 1) * 0.1 / k ** 2)
            coeff.append(c)
        noise = None
        if cls == 'ft_noisy':
            step = 2.0 * half / (nx - 1)
            noise = (g.uniform(-0.2, 0.2, (nT, nx)) * step).tolist()
        scale = rng.choice([1.0, 1.0, 1.0e-17, 1.0e4, 30.0])

        def mkflux():
            kind = rng.choice(['noise', 'noise', 'positive', 'ramp', 'spiky', 'step'])
            x = np.linspace(-1, 1, nx)
            if kind == 'noise':
                f = g.normal(0, 3, (nT, nx))
            elif kind == 'positive':
                f = np.exp(g.normal(0, 1, (nT, nx)))
            elif kind == 'ramp':
                f = g.normal(0, 5, (nT, 1)) * x + g.normal(0, 0.1, (nT, nx))
            elif kind == 'spiky':
                f = g.normal(0, 0.1, (nT, nx))
                f[g.uniform(size=f.shape) < 0.02] += 100.0
            else:
                f = np.where(x > g.uniform(-0.8, 0.8, (nT, 1)), 5.0, -2.0) + g.normal(0, 0.05, (nT, nx))
            if rng.random() < 0.4:
                f = f + 40.0 * np.arange(nT)[:, None] * rng.choice([-1, 1])     # traces at distinct levels
            return f * scale
        f1, f2 = mkflux(), mkflux()
        mask = self._gen_mask(rng, g, nT, nx)
        mdt, mvals = self._gen_maskvals(rng)
        garbage = rng.choice(['nan', 'inf', 'huge', 'random', 'neg'])
        return {'kind': 'ft', 'cls': cls, 'nT': nT, 'nx': nx, 'func': func, 'coeff': coeff, 'noise': noise,
                'primary': 'waveimg' if noise is not None else rng.choice(['waveimg', 'wset']),
                'toair': rng.random() < 0.4, 'f1': f1.tolist(), 'f2': f2.tolist(),
                'a': rng.uniform(-3, 3), 'b': rng.uniform(-3, 3),
                'const': rng.choice([1.0, -2.5, 0.0, 1.0e-17, 12345.678, rng.uniform(-10, 10)]) ,
                'mask': mask.tolist(), 'maskdtype': mdt, 'mvals': mvals,
                'garbage': garbage, 'lin_masked': rng.random() < 0.4, 'const_masked': rng.random() < 0.4,
                'fdtype': rng.choice(['f8', 'f8', 'f8', '>f8', 'f4', 'i4', 'i2', 'i8'])}

    # wavelength solutions that are legitimate but far from a polynomial in pixel number: arms of different
    # dispersion spliced together, a step of dispersion inside a band, arms that overlap (wavelengths locally
    # run backwards), repeated pixels, only 1-3 pixels inside a band; flux concentrated on few pixels.
    def _gen_spliced(self, rng, i):
        g = np_rng(rng)
        nx = rng.randint(60, 500)
        nT = rng.randint(2, 8)
        wkind = rng.choice(['two_arm', 'two_arm', 'three_arm', 'step_in_band', 'step_in_band', 'overlap', 'dup',
                            'few_in_band'])
        spacing = rng.choice(['lin', 'log'])
        band = rng.randrange(5)
        lamb, resb = self.filters[band]
        sup = lamb[resb > 0]
        blo, bhi = float(sup.min()), float(sup.max())

        def row():
            ratio = 10 ** rng.uniform(np.log10(2.0), np.log10(30.0))
            if wkind == 'few_in_band':
                dcoarse = (bhi - blo) / rng.uniform(1.2, 3.5)
                disp = [dcoarse / ratio, dcoarse]
                lams = blo - rng.uniform(0.0, 0.5) * dcoarse
            else:
                dfine = 10 ** rng.uniform(-0.3, 1.0)
                disp = [dfine, dfine * ratio]
                if rng.random() < 0.35:
                    disp.reverse()
                if wkind == 'three_arm':
                    disp.append(dfine * 10 ** rng.uniform(0.0, np.log10(30.0)))
                if wkind == 'step_in_band':
                    lams = rng.uniform(blo + 0.2 * (bhi - blo), bhi - 0.2 * (bhi - blo))
                else:
                    lams = rng.uniform(3300.0, 10500.0)
            m = len(disp)
            # the finest arm gets most of the pixels
            fine = disp.index(min(disp))
            share = [rng.uniform(0.5, 1.0) for _ in range(m)]
            share[fine] = rng.uniform(1.5, 6.0)
            tot = sum(share)
            n = [max(4, int(round((nx - 1) * sh / tot))) for sh in share]
            n[fine] += (nx - 1) - sum(n)
            if n[fine] < 4:
                return None
            steps = np.concatenate([np.full(nk, dk) for nk, dk in zip(n, disp)])
            if wkind == 'overlap':
                steps[n[0]] = -rng.uniform(1.0, max(1.5, 0.3 * n[0])) * disp[0]
            if wkind == 'dup':
                for _ in range(rng.randint(1, 5)):
                    steps[rng.randint(0, nx - 2)] = 0.0
            if spacing == 'log' and np.abs(steps).sum() / lams <= 2.5:
                ls = steps / lams
                start = lams * np.exp(-n[0] * disp[0] / lams)
                w = start * np.exp(np.concatenate([[0.0], np.cumsum(ls)]))
            else:
                start = max(1200.0, lams - n[0] * disp[0])
                w = start + np.concatenate([[0.0], np.cumsum(steps)])
            if not (w > 500.0).all():
                return None
            if rng.random() < 0.25:
                w = w[::-1]
            return w
        shared = rng.random() < 0.7
        rows = []
        for t in range(1 if shared else nT):
            w = None
            for _ in range(20):
                w = row()
                if w is not None:
                    break
            if w is None:
                return None
            rows.append(w)
        wave = np.array([rows[0] if shared else rows[t] for t in range(nT)])
        scale = rng.choice([1.0, 1.0, 1.0e-17, 1.0e4])

        def mkflux():
            fkind = rng.choice(['delta', 'delta', 'delta', 'tophat', 'gauss', 'step', 'spikes'])
            amp = rng.choice([1.0, 10.0, -5.0]) * scale
            if rng.random() < 0.5:
                f = np.zeros((nT, nx))
            else:
                f = g.uniform(0.0, 0.01, (nT, nx)) * abs(amp)
            b = band if rng.random() < 0.6 else rng.randrange(5)
            Rb = R.response(self.filters, wave)[b]
            x = np.arange(nx)
            for t in range(nT):
                idx = np.nonzero(Rb[t] > 0)[0]
                if idx.size == 0:
                    idx = x
                # the bright feature moves across the band from trace to trace
                q = min(idx.size - 1, int(idx.size * (t + rng.random()) / nT))
                p = int(idx[q])
                if fkind == 'delta':
                    f[t, p] += amp
                elif fkind == 'tophat':
                    f[t, p:p + rng.randint(2, max(3, idx.size // 3))] += amp
                elif fkind == 'gauss':
                    f[t] += amp * np.exp(-0.5 * ((x - p) / rng.uniform(1.0, 10.0)) ** 2)
                elif fkind == 'step':
                    f[t] += amp * ((x >= p) if rng.random() < 0.5 else (x < p))
                else:
                    for pp in rng.sample(list(idx), min(3, idx.size)):
                        f[t, int(pp)] += amp * rng.uniform(0.3, 1.0)
            return f, fkind
        (f1, k1), (f2, k2) = mkflux(), mkflux()
        mask = self._gen_mask(rng, g, nT, nx)
        mdt, mvals = self._gen_maskvals(rng)
        return {'kind': 'ft', 'cls': 'ft_spliced', 'nT': nT, 'nx': nx, 'func': None, 'coeff': None, 'noise': None,
                'wave': wave.tolist() if not shared else [wave[0].tolist()], 'wkind': wkind, 'f1kind': k1, 'f2kind': k2,
                'primary': 'waveimg', 'toair': rng.random() < 0.3, 'f1': f1.tolist(), 'f2': f2.tolist(),
                'a': rng.uniform(-3, 3), 'b': rng.uniform(-3, 3),
                'const': rng.choice([1.0, -2.5, 3.5, 1.0e-17, 12345.678, rng.uniform(-10, 10)]),
                'mask': mask.tolist(), 'maskdtype': mdt, 'mvals': mvals,
                'garbage': rng.choice(['nan', 'inf', 'huge', 'random', 'neg']), 'lin_masked': rng.random() < 0.4,
                'const_masked': rng.random() < 0.4, 'fdtype': rng.choice(['f8', 'f8', 'f8', '>f8', 'f4', 'i4', 'i2', 'i8'])}

    # ------------------------------------------------------------------ run
    def run(self, case, out):
        k = case['kind']
        if k == 'atv':
            self._run_atv(case, out)
        elif k == 'ab':
            self._run_ab(case, out)
        else:
            self._run_ft(case, out)

    # ---- airtovac / vactoair --------------------------------------------
    def _layout(self, arr, layout):
        """return (object to hand to pydl, owner array whose bytes are snapshotted)."""
        if layout == 'strided':
            big = np.zeros(arr.shape[:-1] + (arr.shape[-1] * 2,))
            big[..., ::2] = arr
            big[..., 1::2] = -7.0
            return big[..., ::2], big
        if layout == 'readonly':
            a = arr.copy()
            a.flags.writeable = False
            return a, a
        if layout == 'bigendian':
            a = arr.astype('>f8')
            return a, a
        if layout == 'fortran':
            a = np.asfortranarray(arr)
            return a, a
        a = arr.copy()
        return a, a

    def _one(self, out, fname, x, lamA, unit, base, flavour, may_refuse=False):
        """One observed call y = fname(x) followed by the inverse call on y.

        lamA: the wavelengths in Angstrom (float64 ndarray, same shape as x), base: answer of the plain
        float64 array call for the same wavelengths (Angstrom) or None when this *is* that call."""
        A = self.A
        fn = getattr(A, fname)
        inv = getattr(A, INV[fname])
        isq = unit is not None
        exact = unit in (None, 'AA')
        fac = UNITS[unit] if isq else 1.0
        owner = x[1]
        x = x[0]
        def snap():
            return (_bytes(owner.value if hasattr(owner, 'unit') else owner), _bytes(x.value if isq else x))
        before = snap()
        xval = np.array(x.value if isq else x, dtype=float)          # private copy of the values in caller's unit
        try:
            y = fn(x)
        except TypeError:
            if may_refuse:
                # plain Python sequences are not among "float, array and Quantity": a loud TypeError is tolerated,
                # an answer must be the right one
                out.count('atv_sequence_refused')
                return
            raise
        after = snap()
        out.expect(before == after, 'input-modified', '%s changed its argument (%s)' % (fname, flavour))
        out.count('atv_input_unchanged')
        # type / unit / shape
        if isq:
            ok = hasattr(y, 'unit') and y.unit == self.uobj[unit]
            if not out.expect(ok, 'caller-unit', '%s(%s in %s) answered in %r' % (fname, flavour, unit, getattr(y, 'unit', None))):
                return
            out.expect(x.unit == self.uobj[unit], 'input-modified', 'unit of the argument changed')
            yval = np.asarray(y.value, dtype=float)
        else:
            if not out.expect(not hasattr(y, 'unit'), 'caller-unit', '%s(%s) returned a Quantity for plain input' % (fname, flavour)):
                return
            yval = np.asarray(y, dtype=float)
        if not out.expect(yval.shape == xval.shape, 'shape', '%s(%s): shape %s -> %s' % (fname, flavour, xval.shape, yval.shape)):
            return
        if flavour == 'pyfloat':
            out.expect(isinstance(y, float), 'shape', '%s(float) returned %s' % (fname, type(y).__name__))
        yA = yval * fac
        lam = lamA
        rel = np.abs(lam - EDGE) / EDGE
        decided = np.ones(lam.shape, bool) if exact else rel > BAND
        out.undecide(int((~decided).sum()))
        below = (lam < EDGE) & decided
        above = (lam > EDGE) & decided
        # 1. below 2000 A unchanged
        if below.any():
            if exact:
                bad = below & ~(yval == xval)
            else:
                bad = below & ~(np.abs(yval - xval) <= 1e-12 * np.abs(xval))
                self._worst('below2000_other_units_rel', np.max((np.abs(yval - xval) / np.abs(xval))[below]))
            out.expect(not bad.any(), 'below-2000-unchanged', '%s(%s%s) changed a wavelength below 2000 A' % (
                fname, flavour, '' if unit is None else ' ' + unit), lam=lam[bad][:5], got=yA[bad][:5])
            out.count('atv_below_unchanged', int(below.sum()))
        # 2. vacuum > air above
        if above.any():
            bad = above & ~((yval > xval) if fname == 'airtovac' else (yval < xval))
            out.expect(not bad.any(), 'vacuum>air', '%s(%s): vacuum not > air above 2000 A' % (fname, flavour),
                       lam=lam[bad][:5], got=yA[bad][:5])
            out.count('atv_above_strict', int(above.sum()))
        # 3. flavour agreement with the plain array call
        if base is not None:
            # (elements in the ambiguity band of a unit-converted input may legitimately fall on either side of 2000 A)
            bad = decided & ~(np.abs(yA - base) <= 1e-9 * np.abs(base))
            out.expect(not bad.any(), 'flavour-agreement', '%s: %s%s input gives a different physical result than the '
                       'float64 array' % (fname, flavour, '' if unit is None else ' [' + unit + ']'),
                       lam=lam[bad][:5], got=yA[bad][:5], array_answer=base[bad][:5])
            out.count('atv_flavour_agreement', int(decided.sum()))
            if decided.any():
                with np.errstate(all='ignore'):
                    self._worst('flavour_rel', np.nanmax((np.abs(yA - base) / np.abs(base))[decided]))
        # 4. round trip through the inverse, feeding the answer as it came back
        ybefore = _bytes(y.value if isq else y)
        z = inv(y)
        # ... and the same call once more on the same object: nothing may have gone stale in between
        y2 = fn(x)
        same = (hasattr(y2, 'unit') == isq) and (not isq or y2.unit == self.uobj[unit]) and \
            _bytes(y2.value if isq else y2) == ybefore and snap() == before
        out.expect(same, 'repeat-call', 'second %s call on the same %s%s differs from the first, or the argument changed' % (
            fname, flavour, '' if unit is None else ' [' + unit + ']'))
        out.count('atv_repeat_calls')
        out.expect(_bytes(y.value if isq else y) == ybefore, 'input-modified', '%s changed its argument (%s)' % (INV[fname], flavour))
        if isq:
            if not out.expect(hasattr(z, 'unit') and z.unit == self.uobj[unit], 'caller-unit',
                              '%s(%s(x)) answered in %r' % (INV[fname], fname, getattr(z, 'unit', None))):
                return
            zA = np.asarray(z.value, dtype=float) * fac
        else:
            zA = np.asarray(z, dtype=float)
        if not out.expect(zA.shape == lam.shape, 'shape', 'round trip changed the shape'):
            return
        if fname == 'airtovac':
            dom = (lam >= EDGE) & decided
            name = 'atv_roundtrip_av'
        else:
            # wherever vactoair(v) >= 2000 (the observed value that was fed to airtovac)
            dom = (yA >= EDGE) & (lam >= EDGE)
            if not exact:
                amb = np.abs(yA - EDGE) / EDGE <= BAND
                out.undecide(int((amb & dom).sum()))
                dom &= ~amb & decided
            name = 'atv_roundtrip_va'
        if dom.any():
            err = np.abs(zA - lam)
            bad = dom & ~(err <= RT_TOL)
            out.expect(not bad.any(), 'round-trip', '%s(%s(x)) != x by more than 1e-6 A (%s%s), worst %.3g A' % (
                INV[fname], fname, flavour, '' if unit is None else ' ' + unit, float(np.nanmax(np.where(dom, err, 0)))),
                lam=lam[bad][:5], back=zA[bad][:5])
            out.count(name, int(dom.sum()))
            if exact and (lam[dom] == EDGE).any():
                out.count('atv_exact_2000')
            w = float(np.max(err[dom]))
            self._worst('roundtrip_A', w)
            out.info['worst_roundtrip_A'] = max(out.info.get('worst_roundtrip_A', 0.0), w)

    def _run_atv(self, case, out):
        u = self.u
        lam1 = np.array(case['lam'], dtype=float)
        out.nontrivial = bool((lam1 >= EDGE).any())
        for fname in ('airtovac', 'vactoair'):
            # the plain float64 1-d array call: the reference flavour
            x = lam1.copy()
            y = getattr(self.A, fname)(x)
            base1 = np.asarray(y, dtype=float).copy() if not hasattr(y, 'unit') else None
            if not out.expect(base1 is not None and base1.shape == lam1.shape, 'shape',
                              '%s(float64 array) returned %r' % (fname, type(y).__name__)):
                continue
            self._one(out, fname, (x, x), lam1, None, None, 'array1d')
            first_answer = _bytes(base1)
            # scalar flavours
            for j in range(case['scalars']):
                l = float(lam1[j])
                b = base1[j:j + 1].reshape(())
                la = np.array(l)
                self._one(out, fname, (l, np.array(l)), la, None, b, 'pyfloat')
                out.count('atv_python_float')
                s = np.float64(l)
                self._one(out, fname, (s, s), la, None, b, 'npfloat64')
                out.count('atv_numpy_scalar')
                z = np.array(l)
                self._one(out, fname, (z, z), la, None, b, 'array0d')
                out.count('atv_0d_array')
                for un in case['units']:
                    q = u.Quantity(l / UNITS[un], self.uobj[un])
                    self._one(out, fname, (q, q), np.array(float(q.value) * UNITS[un]), un, b, 'quantity-scalar')
                    out.count('atv_quantity_scalar')
            if case['arrays']:
                shape = tuple(case['shape']) if case['shape'] else lam1.shape
                lam = lam1.reshape(shape)
                base = base1.reshape(shape)
                xa = self._layout(lam, case['layout'])
                self._one(out, fname, xa, lam, None, base, 'array-' + case['layout'])
                for un in case['units']:
                    vals = self._layout(lam / UNITS[un], case['layout'])
                    q = vals[0] << self.uobj[un]          # a view: keeps strides / read-only flag / byte order
                    lamq = np.array(q.value, dtype=float) * UNITS[un]
                    self._one(out, fname, (q, vals[1]), lamq, un, base, 'quantity-array-' + case['layout'])
                    out.count('atv_quantity_array')
            if case.get('ints'):
                self._integer_flavours(case, out, fname, lam1, base1)
            # after all flavours have gone through: the plain array answer is still what it was at the start
            again = np.asarray(getattr(self.A, fname)(lam1.copy()), dtype=float)
            out.expect(_bytes(again) == first_answer, 'repeat-call',
                       '%s(float64 array) answers differently after calls with other input flavours' % fname)

    def _integer_flavours(self, case, out, fname, lam1, base1):
        """the same whole-Angstrom wavelengths as integer-dtype arrays (1-d, 2-d, 0-d), Python / numpy integer
        scalars, lists and tuples, and Quantities built from integer arrays; each against the float64 answer."""
        u = self.u
        fn = getattr(self.A, fname)
        ilam = np.array(case['lam']).astype(np.int64)
        shape = tuple(case['shape']) if case['shape'] else ilam.shape
        lam = lam1.reshape(shape)
        base = base1.reshape(shape)
        top = int(ilam.max())
        dts = ['i8', 'i4', 'u4', '>i4'] + (['i2'] if top <= 32767 else []) + (['u2'] if top <= 65535 else [])
        for dt in dts:
            a = ilam.astype(dt).reshape(shape)
            if case['layout'] == 'strided':
                big = np.zeros(a.shape[:-1] + (a.shape[-1] * 2,), dtype=dt)
                big[..., ::2] = a
                x = (big[..., ::2], big)
            else:
                if case['layout'] == 'readonly':
                    a.flags.writeable = False
                x = (a, a)
            self._one(out, fname, x, lam, None, base, 'int-array-%s%s' % (dt, '-2d' if len(shape) == 2 else ''))
            out.count('atv_integer_array_calls')
            if len(shape) == 2:
                out.count('atv_integer_2d_array_calls')
        # sequences
        for seq, nm in ((ilam.reshape(shape).tolist(), 'list'), (tuple(ilam.tolist()), 'tuple'),
                        (lam1.tolist(), 'list-of-floats')):
            owner = np.array(seq)
            self._one(out, fname, (seq, owner), lam if nm == 'list' else lam1, None, base if nm == 'list' else base1,
                      nm, may_refuse=True)
            out.count('atv_sequence_calls')
        # scalars
        for j in range(case['scalars']):
            l = int(ilam[j])
            la = np.array(float(l))
            b = base1[j:j + 1].reshape(())
            self._one(out, fname, (l, np.array(l)), la, None, b, 'pyint')
            out.count('atv_python_int')
            for dt in dts:
                sc = np.dtype(dt).type(l) if not dt.startswith('>') else None
                if sc is not None:
                    self._one(out, fname, (sc, sc), la, None, b, 'numpy-' + dt)
                    out.count('atv_numpy_int_scalar')
            z = np.array(l)
            self._one(out, fname, (z, z), la, None, b, 'int-array0d')
            out.count('atv_integer_0d_array')
            q = u.Quantity(l, self.uobj['AA'])
            self._one(out, fname, (q, q), la, 'AA', b, 'quantity-scalar-from-int')
            out.count('atv_integer_quantity')
        # Quantities built from integer arrays, integer-valued in the caller's own unit
        for un, vals in case['qints'].items():
            iv = np.array(vals).astype(np.int64).reshape(shape)
            lamq = iv.astype(float) * UNITS[un]
            bq = np.asarray(fn(lamq.copy()), dtype=float)
            for how in ('Quantity(int array)', 'int array * unit', 'Quantity(dtype=int)'):
                if how == 'Quantity(int array)':
                    q = u.Quantity(iv.copy(), self.uobj[un])
                elif how == 'int array * unit':
                    q = iv.astype('i4') * self.uobj[un]
                else:
                    q = u.Quantity(iv.copy(), self.uobj[un], dtype=np.int64)
                self._one(out, fname, (q, q), lamq, un, bq, '%s [%s]' % (how, un))
                out.count('atv_integer_quantity')

    # ---- sdssflux2ab ----------------------------------------------------
    def _run_ab(self, case, out):
        f = self.IO.sdssflux2ab
        dt = case['dtype']
        tol = 1e-12 if dt == 'f8' else 2e-5
        pr = {}
        objs = {}
        for name in ('flux', 'ivar', 'mag'):
            a = np.array(case[name], dtype=dt)
            pr[name] = a.astype(float)                      # pristine values (after the dtype cast)
            lay = case['layout']
            if lay == 'strided':
                big = np.zeros((a.shape[0] * 2, 5), dtype=dt)
                big[::2] = a
                objs[name] = big[::2]
            else:
                objs[name] = self._layout(a, lay)[0] if lay != 'bigendian' else a
        rows = pr['flux'].shape[0]
        # all three forms, twice, on the same array objects: the answer for an array must not depend on
        # earlier calls having seen it
        res = {}
        for rep in range(2):
            res['mag', rep] = np.asarray(f(objs['mag'], magnitude=True), dtype=float)
            res['flux', rep] = np.asarray(f(objs['flux']), dtype=float)
            res['ivar', rep] = np.asarray(f(objs['ivar'], ivar=True), dtype=float)
        for name in ('flux', 'ivar', 'mag'):
            if not out.expect(res[name, 0].shape == pr[name].shape, 'flux2ab-shape', 'shape changed in %s form' % name):
                return
            same = np.array_equal(res[name, 0], res[name, 1], equal_nan=True)
            unchanged = np.array_equal(np.asarray(objs[name], dtype=float), pr[name], equal_nan=True)
            out.expect(same and unchanged, 'flux2ab-consistency',
                       'second call on the same %s array %s' % (name, 'differs from the first' if not same else
                                                               'sees different input: the array was modified in place'))
        # one offset per band, read off the magnitude form
        c = np.asarray(f(np.zeros((1, 5)), magnitude=True), dtype=float)[0]
        d = res['mag', 0] - pr['mag']
        mtol = tol * np.maximum(1.0, np.abs(pr['mag']))
        bad = ~(np.abs(d - c) <= mtol)
        out.expect(not bad.any(), 'flux2ab-one-offset-per-band', 'magnitude offset is not one constant per band',
                   offsets=d[bad][:5], band_const=c)
        out.info['offsets'] = c
        cl = c.astype(np.longdouble)
        ffac = (np.longdouble(10) ** (-cl / np.longdouble(2.5))).astype(float)
        ifac = (np.longdouble(10) ** (2 * cl / np.longdouble(2.5))).astype(float)
        exp = pr['flux'] * ffac
        bad = ~(np.abs(res['flux', 0] - exp) <= tol * np.abs(exp))
        out.expect(not bad.any(), 'flux2ab-flux-vs-mag', 'flux form is not flux*10^(-c_b/2.5) with the c_b of the magnitude form',
                   got=res['flux', 0][bad][:5], expected=exp[bad][:5], c=c)
        if dt == 'f8' and (exp != 0).any():
            self._worst('ab_f8_rel', np.max((np.abs(res['flux', 0] - exp) / np.abs(exp))[exp != 0]))
        exp = pr['ivar'] * ifac
        bad = ~(np.abs(res['ivar', 0] - exp) <= tol * np.abs(exp))
        if dt == 'f8' and (exp != 0).any():
            self._worst('ab_f8_rel', np.max((np.abs(res['ivar', 0] - exp) / np.abs(exp))[exp != 0]))
        out.expect(not bad.any(), 'flux2ab-ivar-vs-mag', 'ivar form is not ivar*10^(+2c_b/2.5) with the c_b of the magnitude form',
                   got=res['ivar', 0][bad][:5], expected=exp[bad][:5], c=c)
        # the same statements on physical quantities: magnitude of the AB flux, and signal-to-noise
        pos = pr['flux'] > 0
        if pos.any():
            m_in = -2.5 * np.log10(pr['flux'][pos])
            m_ab = -2.5 * np.log10(res['flux', 0][pos])
            cc = np.broadcast_to(c, pr['flux'].shape)[pos]
            out.expect(bool((np.abs((m_ab - m_in) - cc) <= max(tol, 1e-11) * np.maximum(1, np.abs(m_in))).all()),
                       'flux2ab-flux-vs-mag', 'magnitude of the AB flux != magnitude + c_b')
        sn_in = pr['flux'] ** 2 * pr['ivar']
        sn_ab = res['flux', 0] ** 2 * res['ivar', 0]
        out.expect(bool((np.abs(sn_ab - sn_in) <= max(tol * 10, 1e-11) * np.abs(sn_in)).all()), 'flux2ab-ivar-vs-flux',
                   'flux^2 * ivar (signal-to-noise squared) changed by the conversion')
        # integer-valued fluxes / magnitudes / ivars in an integer dtype: a loud refusal (the in-place multiply cannot
        # be cast) is tolerated, an answer must be the answer for the same values given as float
        for name, kw in (('flux', {}), ('mag', {'magnitude': True}), ('ivar', {'ivar': True})):
            iv = np.clip(np.round(pr[name] * (1.0 if name == 'mag' else 10.0 / (np.abs(pr[name]).max() or 1.0))),
                         -30000, 30000).astype('i8')
            want = np.asarray(f(iv.astype(float), **kw), dtype=float)
            for idt in ('i8', 'i4', 'i2'):
                out.count('ab_integer_calls')
                arr = iv.astype(idt)
                keep = arr.copy()
                try:
                    got = f(arr, **kw)
                except TypeError:
                    out.count('ab_integer_refused')
                    out.expect(np.array_equal(arr, keep), 'flux2ab-consistency', 'refused integer %s array was modified' % name)
                    continue
                got = np.asarray(got, dtype=float)
                out.expect(got.shape == want.shape and bool((np.abs(got - want) <= 1e-12 * np.maximum(1.0, np.abs(want))).all())
                           and np.array_equal(arr, keep), 'flux2ab-integer-input',
                           '%s form: %s array gives a different answer than the same values as float64' % (name, idt),
                           got=got[:3], want=want[:3])
        self._ab_switches(case, out, f, objs, pr, res)
        out.count('ab_rows', rows)
        out.count('ab_repeat_calls', 3)
        out.count('ab_negative_flux', int((pr['flux'] < 0).sum()))
        out.nontrivial = True

    def _ab_switches(self, case, out, f, objs, pr, res):
        """The three forms are selected by two boolean keywords.  Which form is applied may depend on the truth of the
        switches only, not on how the caller spells that truth: every spelling of "yes" / "no" (SWITCH_YES / SWITCH_NO),
        as keyword and positionally, alone and together with the other switch spelled otherwise, must give bit for bit
        what the literal True / False gave on the same array object (and that answer is tied to the other two forms
        above).  A loud refusal (TypeError / ValueError) of a spelling other than the Python bool is tolerated and counted."""
        yes = case.get('yes') or list(SWITCH_YES)
        no = case.get('no') or list(SWITCH_NO)
        want = {k: res[k, 0] for k in ('flux', 'ivar', 'mag')}
        # both switches set: whatever the tree answers for the two literals is the reference for the other spellings
        want['both'] = np.asarray(f(objs['mag'], magnitude=True, ivar=True), dtype=float)
        other = {'ivar': ('flux', 'mag'), 'mag': ('flux', 'ivar'), 'flux': ('ivar', 'mag'), 'both': ('flux', 'ivar')}
        inp = {'flux': 'flux', 'ivar': 'ivar', 'mag': 'mag', 'both': 'mag'}

        def spelled(form, text, names, *a, **k):
            try:
                got = f(objs[inp[form]], *a, **k)
            except (TypeError, ValueError) as e:
                out.count('ab_switch_refused')
                out.info.setdefault('switch_refused', {})[text] = '%s: %s' % (type(e).__name__, str(e)[:80])
                return
            out.count('ab_switch_spelled_answers')
            for nm in names:
                out.count('ab_switch_%s_answers' % _switch_kind(nm))
            if names and all(nm in SWITCH_YES for nm in names):
                out.count('ab_switch_truthy_nonliteral_answers')
            w = want[form]
            ok = isinstance(got, np.ndarray) and got.shape == w.shape and \
                np.array_equal(np.asarray(got, dtype=float), w, equal_nan=True)
            if ok:
                return
            how = ''
            if isinstance(got, np.ndarray) and got.shape == w.shape:
                g = np.asarray(got, dtype=float)
                lit = {'flux': {}, 'ivar': {'ivar': True}, 'mag': {'magnitude': True}}
                for o in other[form]:
                    if np.array_equal(g, np.asarray(f(objs[inp[form]], **lit[o]), dtype=float), equal_nan=True):
                        how = ': it is the %s form of the same array' % o
                nzm = w != 0
                if nzm.any():
                    with np.errstate(all='ignore'):
                        how += ' (largest relative difference %.4g)' % float(np.nanmax(np.abs(g[nzm] / w[nzm] - 1.0)))
            else:
                how = ': returned %s' % (type(got).__name__ if not isinstance(got, np.ndarray) else 'shape %s' % (got.shape,))
            ref = {'flux': 'sdssflux2ab(x)', 'ivar': 'sdssflux2ab(x, ivar=True)', 'mag': 'sdssflux2ab(x, magnitude=True)',
                   'both': 'sdssflux2ab(x, magnitude=True, ivar=True)'}[form]
            out.fail('flux2ab-switch-spelling', 'sdssflux2ab(x, %s) differs from %s%s' % (text, ref, how),
                     got=got.ravel()[:5] if isinstance(got, np.ndarray) else repr(got)[:200], want=w.ravel()[:5])

        for k, t in enumerate(yes):
            n = no[k % len(no)]
            t2 = yes[(k + 1) % len(yes)]
            Y, N = SWITCH_YES[t], SWITCH_NO[n]
            spelled('ivar', 'ivar=%s' % t, [t], ivar=Y())
            spelled('mag', 'magnitude=%s' % t, [t], magnitude=Y())
            spelled('ivar', 'magnitude=%s, ivar=%s' % (n, t), [n, t], magnitude=N(), ivar=Y())
            spelled('mag', 'magnitude=%s, ivar=%s' % (t, n), [t, n], magnitude=Y(), ivar=N())
            spelled('ivar', '%s, %s' % (n, t), [n, t], N(), Y())
            spelled('mag', '%s' % t, [t], Y())
            spelled('ivar', 'magnitude=False, ivar=%s' % t, [t], magnitude=False, ivar=Y())
            spelled('both', 'magnitude=%s, ivar=%s' % (t, t2), [t, t2], magnitude=Y(), ivar=SWITCH_YES[t2]())
            spelled('both', 'magnitude=True, ivar=%s' % t, [t], magnitude=True, ivar=Y())
        for k, n in enumerate(no):
            n2 = no[(k + 1) % len(no)]
            N = SWITCH_NO[n]
            spelled('flux', 'ivar=%s' % n, [n], ivar=N())
            spelled('flux', 'magnitude=%s' % n, [n], magnitude=N())
            spelled('flux', 'magnitude=%s, ivar=%s' % (n, n2), [n, n2], magnitude=N(), ivar=SWITCH_NO[n2]())
            spelled('flux', '%s, %s' % (n2, n), [n2, n], SWITCH_NO[n2](), N())
            spelled('mag', 'magnitude=True, ivar=%s' % n, [n], magnitude=True, ivar=N())
        for name in ('flux', 'ivar', 'mag'):
            out.expect(np.array_equal(np.asarray(objs[name], dtype=float), pr[name], equal_nan=True), 'flux2ab-consistency',
                       'the %s array was modified in place by a call with a spelled switch' % name)

    # ---- filter_thru ----------------------------------------------------
    def _wset(self, case):
        ts = self.TraceSet.__new__(self.TraceSet)
        ts.func = case['func']
        ts.xmin = np.float64(0)
        ts.xmax = np.float64(case['nx'] - 1)
        ts.coeff = np.array(case['coeff'], dtype=float)
        ts.nTrace, ts.ncoeff = ts.coeff.shape
        ts.xjumplo = ts.xjumphi = ts.xjumpval = None
        ts.outmask = ts.yfit = None
        return ts

    def _run_ft(self, case, out):
        F = self.S2.filter_thru
        nT, nx = case['nT'], case['nx']
        dt = case['fdtype']
        single = dt == 'f4'
        # integer flux images (raw counts): F-A2
        integer = np.dtype(dt).kind in 'iu'
        if integer:
            # counts: integer-valued, well inside the range of the dtype (the linear combination a*f1 + b*f2 must fit too)
            lim = int(np.iinfo(dt).max) // 8

            def counts(lst):
                v = np.array(lst, dtype=float)
                m = float(np.abs(v).max()) or 1.0
                if m > lim or m < 50:
                    v = v * (min(lim, 2000) / m)
                return np.rint(v).tolist()
            cc = float(np.clip(round(case['const']) or 3, -lim, lim))
            case = dict(case, f1=counts(case['f1']), f2=counts(case['f2']), const=cc)
            out.count('ft_integer_flux_cases')
        lin_tol = 1e-10 if not single else 2e-5
        model_tol = 1e-7 if not single else 1e-4
        explicit = case.get('wave') is not None
        if explicit:
            # spliced / irregular solutions are stored pixel by pixel; the docstring of filter_thru asks for a
            # "full wavelength solution with the same shape as flux" and nothing more
            wave = np.array(case['wave'], dtype=float)
            wave = np.ascontiguousarray(np.broadcast_to(wave, (nT, nx))) if wave.shape[0] == 1 else wave
            loglam = np.log10(wave)
            smooth = False
        else:
            loglam = R.traceset_eval(case['func'], case['coeff'], 0.0, nx - 1.0, nx)
            smooth = case['noise'] is None
            if not smooth:
                loglam = loglam + np.array(case['noise'])
            wave = 10.0 ** loglam
        d = np.diff(loglam, axis=1)
        monotonic = (d > 0).all(axis=1) | (d < 0).all(axis=1)
        if not explicit and not monotonic.all():
            out.count('ft_generator_nonmonotonic')
            return
        if (d < 0).all(axis=1).any():
            out.count('ft_decreasing_wavelength')
        if explicit:
            out.count('ft_spliced_cases')
            ad = np.abs(d)
            with np.errstate(all='ignore'):
                ratio = ad.max(axis=1) / np.where(ad > 0, ad, np.inf).min(axis=1)
            out.count('ft_dispersion_ratio_ge_10', int((ratio >= 10).sum()))
            out.count('ft_locally_reversed_or_duplicated', int((~monotonic).sum()))
            if case.get('wkind') == 'step_in_band':
                out.count('ft_dispersion_step_inside_band')
            out.count('ft_single_bright_pixel_traces', nT * ((case.get('f1kind') == 'delta') + (case.get('f2kind') == 'delta')))
        toair = case['toair']
        weff = np.asarray(R.vactoair_ref(wave), dtype=float) if toair else wave

        # the same wavelength image / trace set / mask objects go into every call of the case and must come out
        # byte-identical: nothing may go stale between calls in one process
        wimg = wave.copy()
        wset = self._wset(case) if not explicit else None

        def kw(form):
            k = {'wset': wset} if form == 'wset' else {'waveimg': wimg}
            if toair:
                k['toair'] = True
            return k
        prim = case['primary']
        f1p = np.array(case['f1'], dtype=dt)
        f2p = np.array(case['f2'], dtype=dt)
        f1 = f1p.copy()
        v1 = f1p.astype(float)
        v2 = f2p.astype(float)
        s1 = float(np.abs(v1).max()) or 1.0
        s2 = float(np.abs(v2).max()) or 1.0
        mask01 = np.array(case['mask'], dtype=int)
        good = mask01 == 0
        if case.get('mvals') is not None:
            # masked pixel k of the image carries value mvals[k % len]; dtype and values as generated
            vals = case['mvals']
            mdt = np.dtype(case['maskdtype'])
            mask = np.zeros((nT, nx), dtype=mdt)
            bi = np.nonzero(~good)
            for k in range(len(vals)):
                sel = (bi[0][k::len(vals)], bi[1][k::len(vals)])
                mask[sel] = np.array(vals[k]).astype(mdt) if mdt.kind != 'u' else np.uint64(vals[k]).astype(mdt)
            nz = mask[~good]
            # what the tree under test calls masked (mask != 0) must be what the case calls masked
            if not ((mask != 0) == ~good).all():
                out.fail('harness-error', 'mask values %r in dtype %s do not reproduce the mask pattern' % (vals, mdt))
                return
            if mdt.kind == 'f':
                with np.errstate(all='ignore'):
                    out.count('ft_mask_fractional_float_pixels', int((np.abs(nz) < 1).sum()))
                    out.count('ft_mask_nan_inf_pixels', int((~np.isfinite(nz)).sum()))
                    out.count('ft_mask_negative_pixels', int((nz < 0).sum()))
            elif mdt.kind in 'iu':
                if mdt.itemsize == 8:
                    out.count('ft_mask_high_bits_only_pixels', int(((nz.astype('u8') & np.uint64(0xFFFFFFFF)) == 0).sum()))
                if mdt.itemsize <= 2:
                    out.count('ft_mask_int8_int16_pixels', int(nz.size))
                if mdt.kind == 'i':
                    out.count('ft_mask_negative_pixels', int((nz < 0).sum()))
        elif case['maskdtype'] == 'bool':
            mask = mask01.astype(bool)
        elif case['maskdtype'] == 'uint8':
            mask = mask01.astype('u1')
        elif case['maskdtype'] == 'float':
            mask = mask01 * float(case['mval'])
        else:
            mask = mask01 * int(case['mval'])
        mask_before = _bytes(mask)
        out.count('ft_masked_pixels', int((~good).sum()))
        if toair:
            out.count('ft_toair_calls')

        def garbage(f):
            gf = np.array(f, dtype=dt)
            gm = case['garbage'] if not integer else 'int'
            if gm == 'int':
                gf[~good] = 30000
                return gf
            if gm == 'nan':
                gf[~good] = np.nan
            elif gm == 'inf':
                gf[~good] = np.inf
            elif gm == 'huge':
                gf[~good] = 1e300 if not single else 1e38
            elif gm == 'neg':
                gf[~good] = -gf[~good] - 1000.0 * s1
            else:
                gf[~good] = np.random.default_rng(12345).normal(0, 50 * s1, int((~good).sum()))
            return gf

        def call(flux, form=prim, m=None):
            k = kw(form)
            if m is not None:
                k['mask'] = m
            r = F(flux, **k)
            r = np.asarray(r)
            if r.shape != (nT, 5):
                out.fail('filter-shape', 'result shape %s for %d traces' % (r.shape, nT))
                return None
            return r.astype(float)

        # overlap classification from the tables (per trace and band)
        Rr = R.response(self.filters, weff)                 # (5, nT, nx)
        rmax = Rr.max(axis=2).T                              # (nT, 5)
        overlap = rmax >= 1e-6
        none = rmax == 0
        out.undecide(int((~overlap & ~none).sum()))
        out.count('ft_overlap_bands', int(overlap.sum()))
        if explicit:
            npix = (Rr > 0).sum(axis=2).T
            out.count('ft_bands_with_1_to_3_pixels', int(((npix >= 1) & (npix <= 3) & overlap).sum()))
        out.count('ft_no_overlap_bands', int(none.sum()))
        out.nontrivial = bool(overlap.any())

        # (1) plain call
        r1 = call(f1)
        if r1 is None:
            return
        out.expect(bool(np.isfinite(r1).all()), 'filter-finite', 'non-finite result for finite flux', res=r1)
        # bounds: a weighted mean lies within min/max of the flux over the pixels that carry weight
        for t in range(nT):
            for b in range(5):
                if not overlap[t, b]:
                    continue
                sup = R.dilate(Rr[b, t] > 0)
                lo, hi = v1[t][sup].min(), v1[t][sup].max()
                eps = 1e-12 * s1 if not single else 1e-5 * s1
                if not single:
                    self._worst('ft_bounds_excess_f8', max(lo - r1[t, b], r1[t, b] - hi, 0.0) / s1)
                out.expect(lo - eps <= r1[t, b] <= hi + eps, 'filter-bounds',
                           'trace %d band %s: %.17g outside [%.17g, %.17g] of the flux under the response' % (
                               t, R.BANDS[b], r1[t, b], lo, hi))
                out.expect(v1[t].min() - eps <= r1[t, b] <= v1[t].max() + eps, 'filter-bounds',
                           'trace %d band %s: %.17g outside min/max of the flux of its trace' % (t, R.BANDS[b], r1[t, b]))
        # independent weighted-mean model (smooth solutions only)
        if smooth:
            mod, sw = R.filter_thru_model(self.filters, v1, weff)
            bad = overlap & ~(np.abs(r1 - mod) <= model_tol * s1)
            out.expect(not bad.any(), 'filter-weighted-mean', 'differs from sum(f*R*dloglam)/sum(R*dloglam) by %.3g (scale %.3g)' % (
                float(np.abs(r1 - mod)[overlap].max()) if overlap.any() else 0.0, s1), got=r1, model=mod, toair=toair)
            out.count('ft_model_compared', int(overlap.sum()))
            if overlap.any() and not single:
                self._worst('ft_model_f8', np.abs(r1 - mod)[overlap].max() / s1)
        # (2) constant spectrum
        c = case['const']
        cf = np.full((nT, nx), c, dtype=dt)
        cv = float(cf[0, 0])
        if case['const_masked']:
            rc = call(garbage(cf), m=mask)
        else:
            rc = call(cf)
        if rc is None:
            return
        bad = overlap & ~(np.abs(rc - cv) <= (1e-12 if not single else 1e-5) * abs(cv))
        out.expect(not bad.any(), 'filter-constant', 'constant spectrum %r does not give %r in a band the wavelengths overlap%s' % (
            cv, cv, ' (mask given)' if case['const_masked'] else ''), got=rc, overlap=overlap)
        out.count('ft_const', int(overlap.sum()))
        if overlap.any() and not single and cv != 0:
            self._worst('ft_const_f8_rel', np.abs(rc - cv)[overlap].max() / abs(cv))
        out.count('ft_no_overlap_returned_zero', int((rc[none] == 0).sum()))
        # (3,4) mask: independent of the values under it, exactly
        r1m = call(f1, m=mask)
        g1 = garbage(f1p)
        r1g = call(g1, m=mask)
        if r1m is None or r1g is None:
            return
        out.expect(np.array_equal(r1m, r1g), 'filter-mask-independent', 'result depends on the values of masked pixels (%s under the mask)' % case['garbage'],
                   clean=r1m, garbage=r1g)
        out.expect(bool(np.isfinite(r1g).all()), 'filter-mask-independent', 'non-finite result with %s under the mask' % case['garbage'])
        for t in range(nT):
            lo, hi = v1[t][good[t]].min(), v1[t][good[t]].max()
            eps = 1e-12 * s1 if not single else 1e-5 * s1
            okb = (r1m[t] >= lo - eps) & (r1m[t] <= hi + eps)
            out.expect(bool(okb[overlap[t]].all()), 'filter-bounds', 'trace %d with mask: outside min/max of the unmasked flux of its trace' % t,
                       res=r1m[t], lo=lo, hi=hi)
            if not mask01[t].any():
                out.expect(np.array_equal(r1m[t], r1[t]), 'filter-mask-independent', 'all-zero mask row changes the result of trace %d' % t)
        # (5,6) linearity
        a, b_ = case['a'], case['b']
        if integer:
            a, b_ = float(round(a) or 1), float(round(b_) or 1)
        comb = (a * v1 + b_ * v2).astype(dt)
        if case['lin_masked']:
            ra, rb, rab = r1m, call(f2p.copy(), m=mask), call(comb.copy(), m=mask)
        else:
            ra, rb, rab = r1, call(f2p.copy()), call(comb.copy())
        if rb is None or rab is None:
            return
        # the second image and the combination are weighted means too
        for (rr, vv, nm) in ((rb, v2, 'second image'), (rab, comb.astype(float), 'combined image')):
            svv = float(np.abs(vv).max()) or 1.0
            eps = 1e-12 * svv if not single else 1e-5 * svv
            for t in range(nT):
                sel = good[t] if case['lin_masked'] else np.ones(nx, bool)
                lo, hi = vv[t][sel].min(), vv[t][sel].max()
                okb = (rr[t] >= lo - eps) & (rr[t] <= hi + eps)
                out.expect(bool(okb[overlap[t]].all()), 'filter-bounds', 'trace %d (%s%s): outside min/max of the flux of its trace' % (
                    t, nm, ', mask given' if case['lin_masked'] else ''), res=rr[t], lo=lo, hi=hi)
                if not case['lin_masked']:
                    for b in range(5):
                        if overlap[t, b]:
                            sup = R.dilate(Rr[b, t] > 0)
                            lo, hi = vv[t][sup].min(), vv[t][sup].max()
                            out.expect(lo - eps <= rr[t, b] <= hi + eps, 'filter-bounds',
                                       'trace %d band %s (%s): %.17g outside [%.17g, %.17g] of the flux under the response' % (
                                           t, R.BANDS[b], nm, rr[t, b], lo, hi))
        sc = abs(a) * s1 + abs(b_) * s2
        # the combined image was rounded to the flux dtype; account for exactly that rounding through the bound
        tol = lin_tol * sc
        bad = ~(np.abs(rab - (a * ra + b_ * rb)) <= tol)
        out.expect(not bad.any(), 'filter-linear', 'f(a*x+b*y) != a*f(x)+b*f(y) by %.3g (scale %.3g)%s' % (
            float(np.abs(rab - (a * ra + b_ * rb)).max()), sc, ' (mask given)' if case['lin_masked'] else ''))
        out.count('ft_linear')
        if not single:
            self._worst('ft_linear_f8', np.abs(rab - (a * ra + b_ * rb)).max() / sc)
        # (7) the other form of the wavelength solution
        if smooth:
            ro = call(f1, form='wset' if prim == 'waveimg' else 'waveimg')
            if ro is None:
                return
            out.expect(bool((np.abs(ro - r1) <= (1e-9 if not single else 1e-5) * s1).all()), 'filter-wset-vs-waveimg',
                       'wset and the equivalent waveimg differ by %.3g (scale %.3g)' % (float(np.abs(ro - r1).max()), s1),
                       wset=ro if prim == 'waveimg' else r1, waveimg=r1 if prim == 'waveimg' else ro)
            out.count('ft_wset_vs_waveimg')
            if not single:
                self._worst('ft_wset_waveimg_f8', np.abs(ro - r1).max() / s1)
        # (7b) the toair switch spelled as flags come out of data (numpy.bool_, 0/1, whole float, 0-d array, None): the
        # answer may depend on the truth of the switch only.  Loud refusal of a non-bool spelling tolerated and counted.
        sp = case.get('toair_as')
        if sp is not None and sp != ('True' if toair else ''):
            ksp = {'wset': wset} if prim == 'wset' else {'waveimg': wimg}
            ksp['toair'] = False if sp == 'False' else (SWITCH_YES if toair else SWITCH_NO)[sp]()
            try:
                rs = F(f1, **ksp)
            except (TypeError, ValueError) as e:
                rs = None
                out.count('ft_toair_spelling_refused')
                out.info['toair_refused'] = '%s: %s: %s' % (sp, type(e).__name__, str(e)[:80])
            if rs is not None:
                out.count('ft_toair_spelled_answers')
                if toair:
                    out.count('ft_toair_truthy_spelled_answers')
                rs = np.asarray(rs)
                ok = rs.shape == r1.shape and np.array_equal(rs.astype(float), r1, equal_nan=True)
                other = ''
                if not ok and rs.shape == r1.shape:
                    ko = {'wset': wset} if prim == 'wset' else {'waveimg': wimg}
                    if not toair:
                        ko['toair'] = True
                    if np.array_equal(rs.astype(float), np.asarray(F(f1, **ko), dtype=float), equal_nan=True):
                        other = ': it is the answer for toair=%s' % (not toair)
                out.expect(ok, 'filter-switch-spelling', 'filter_thru(..., toair=%s) differs from %s%s' % (
                    sp, 'toair=True' if toair else 'the call without toair', other), got=rs, want=r1)
        # (8) same flux object again: the answer for an image must not depend on earlier calls having seen it
        r1b = call(f1)
        if r1b is None:
            return
        out.expect(np.array_equal(r1b, r1) and np.array_equal(f1, f1p), 'filter-repeat',
                   'second call on the same flux image differs from the first (flux image modified: %s)' % (not np.array_equal(f1, f1p)))
        same = _bytes(wimg) == _bytes(wave) and _bytes(mask) == mask_before and _bytes(f1) == _bytes(f1p)
        if wset is not None:
            same = same and _bytes(wset.coeff) == _bytes(np.array(case['coeff'], dtype=float)) and \
                float(wset.xmin) == 0.0 and float(wset.xmax) == nx - 1.0
        out.expect(same, 'filter-repeat', 'filter_thru changed one of its arguments (waveimg / wset / mask / flux) in place')
        out.count('ft_inputs_unchanged')
        out.info['overlap_bands'] = int(overlap.sum())
        out.info['res'] = r1

    # ------------------------------------------------------------------ misc
    def summarise(self, case):
        c = dict(case)
        for k in ('f1', 'f2', 'mask', 'noise', 'flux', 'ivar', 'mag', 'wave'):
            if c.get(k) is not None:
                c[k] = '<%d rows; first: %s>' % (len(c[k]), str(c[k][0][:4]))
        if 'lam' in c and len(c['lam']) > 8:
            c['lam'] = c['lam'][:8] + ['... %d values' % len(case['lam'])]
        return c


CHECK = C19()
