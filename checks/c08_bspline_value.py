"""C08 - B-spline evaluation equals the Cox-de Boor spline of its knots and coefficients.

Events: bspline(x, nord, bkpt|placed|bkspace|nbkpts|everyn) -> .breakpoints; sset.value(x); sset.bsplvn(x, sset.intrv(x)).
Oracle: (a) knot-vector structure; (b) own textbook Cox-de Boor recursion AND scipy.interpolate.BSpline on the object's
own knots/coefficients; order metamorphic; (c) partition of unity / non-negativity; (d) validity mask == inside range.
"""
import warnings
import numpy as np
from vlib.harness import Check, np_rng, repo_path
from vlib.refs import bspline_ref as BR
from vlib import xwork

EPS32 = float(np.finfo(np.float32).eps)


class C08(Check):
    ID = 'C08'
    RULE = ('data abscissae (5-400 points; uniform, clustered, with duplicates; float32/float64; sorted or shuffled) x order '
            '1-6 x every breakpoint option (bkspace, nbkpts, everyn, placed, explicit bkpt incl. repeated interior knots and '
            'vectors not covering the data) x coefficient vectors (random, unit vectors, polynomial-like) x evaluation points '
            '(the data, the knots, midpoints, random interior, points 1e-9..1e-1 intervals outside each end) in shuffled '
            'order; class units: the same in other units of the abscissa (factors 1e-30..1e+30: metres, seconds, Hz) and of the '
            'coefficients.  Non-trivial: order >= 2, >= 3 intervals and >= 1 evaluation point per interval; distinct by input hash.')
    ASSUMPTIONS = ['outside the breakpoint range only mask, order-independence and finiteness are asserted (the property defines no value there)',
                   'repeated interior knots have multiplicity <= order-1 (spline stays continuous); for order 1 a point on an '
                   'interior knot may take either neighbouring coefficient',
                   'everyn with nx//everyn < 2 is the open finding everyn_single_breakpoint (see known_findings.json)',
                   'everyn and float32 bkpt arrays hold the breakpoints in single precision: abscissae whose span is below the '
                   'single-precision resolution of their values (Julian dates minutes apart) are used with the other options only',
                   'a bkspace that divides the data range gives exactly that spacing: asserted for float64 abscissae (for float32 '
                   'data the quotient is formed in single precision)']
    REQUIRED_COUNTERS = ('units_whole_knot_vector_shorter_than_1e-9', 'units_every_knot_spacing_over_1e9',
                         'units_tiny_abscissae_opt_bkspace', 'units_tiny_abscissae_opt_nbkpts', 'units_tiny_abscissae_opt_everyn',
                         'units_tiny_abscissae_opt_placed', 'units_tiny_abscissae_opt_bkpt', 'units_coefficients_below_1e-9', 'units_coefficients_over_1e9',
                         'long_everyn_points_times_breakpoints_over_2**31', 'abscissae_with_offset_over_1e6_and_knot_spacing_below_1e-7_of_it', 'bkspace_divides_the_range_exactly', 'nan_evaluations_with_outside_points_above_only', 'caller_breakpoint_array_reused_afterwards_order1', 'value_with_precomputed_action', 'mask_changed_on_evaluated_object', 'knots_through_iterfit_unsorted_data', 'canary_sequences', 'single_point_evaluations', 'presorted_evaluations', 'opt_bkspace', 'opt_nbkpts', 'opt_everyn', 'opt_placed', 'opt_bkpt', 'not_cover_adjusted',
                         'points_compared_inside', 'points_outside_checked', 'unsorted_inputs', 'float32_inputs',
                         'scipy_agreements',
                         'online_value_points_compared', 'online_constructions_judged', 'online_value_calls_masked_breakpoints',
                         'xwork_cases_via_C10', 'xwork_cases_via_C11', 'xwork_suite_runs')
    CASE_CPU_S = 60

    def setup(self):
        import pydl.pydlutils.bspline as B
        from scipy.interpolate import BSpline
        self.B = B
        self.BSpline = BSpline
        self.brd.per_case = 3
        self.brd.attach(self.rec, B.bspline, 'value', every=3, own=True)      # buffer-reuse differential (vlib/brd.py)
        self.rec.wrap(B.bspline, 'value')
        self.rec.wrap(B.bspline, 'intrv')
        self.rec.wrap(B.bspline, 'bsplvn')
        for f in (B.bspline.__init__, B.bspline.value, B.bspline.action, B.bspline.intrv, B.bspline.bsplvn):
            self.reach.add(f)
        import pydl.uniq as U
        import pydl
        self.reach.add(pydl.uniq)
        # online monitors (vlib.xwork): the value / knot clauses evaluated on every construction and evaluation that crosses the
        # boundary of the class while *other* workloads run (iterfit, combine1fiber, the repository's own tests)
        self.online = xwork.Online()
        self.xw = xwork.XWork(self)
        self.online.attach(self.rec, B.bspline, '__init__', self.online_init, pre=self.online_init_pre)
        self.online.attach(self.rec, B.bspline, 'value', self.online_value)

    def teardown(self):
        self.xw.teardown()
        self.rec.unwrap_all()

    # ------------------------------------------------------------------ online monitors
    def online_init_pre(self, a, k):
        names = ('x', 'nord', 'npoly', 'bkpt', 'bkspread', 'placed', 'bkspace', 'nbkpts', 'everyn')
        kw = dict(zip(names, a[1:]))
        kw.update(k)
        for n in ('bkpt', 'placed'):
            if kw.get(n) is not None:
                kw[n] = np.array(kw[n], copy=True)
        return kw

    def online_init(self, on, a, k, r, kw):
        s = a[0]
        x = np.asarray(kw.get('x'))
        on.count('online_constructions')
        if x.ndim != 1 or x.size == 0 or x.dtype.kind not in 'fiu' or not np.all(np.isfinite(x.astype('f8'))):
            return on.count('online_constructions_outside_domain')
        given = kw.get('bkpt') if kw.get('bkpt') is not None else kw.get('placed')
        if given is not None:
            gv = np.asarray(given, dtype='f8').ravel()
            if gv.size == 0 or not np.all(np.isfinite(gv)) or np.any(np.diff(gv) < 0):
                return on.count('online_constructions_outside_domain')     # the caller's breakpoints are not in order
        if kw.get('bkpt') is None and kw.get('placed') is None and kw.get('bkspace') is None and kw.get('nbkpts') is None \
                and kw.get('everyn') is not None and x.size // int(kw['everyn']) < 2:
            return on.count('online_constructions_open_finding_everyn_single_breakpoint')
        if kw.get('everyn') is not None and kw.get('bkpt') is None and kw.get('placed') is None and kw.get('bkspace') is None \
                and kw.get('nbkpts') is None and np.any(np.diff(x.astype('f8')) < 0):
            return on.count('online_constructions_outside_domain')         # every-n-th point of data that are not in order
        kk = int(kw.get('nord', 4))
        t = np.asarray(s.breakpoints, dtype='f8')
        nt = t.size
        xmin, xmax = float(x.min()), float(x.max())
        tol = 4 * EPS32 * max(abs(xmin), abs(xmax), 1e-300)
        on.count('online_constructions_judged')
        if not np.all(np.isfinite(t)):
            return on.fail('knots', 'non-finite knot in a spline set constructed inside another call', option={n: repr(v)[:80] for n, v in kw.items() if n != 'x' and v is not None})
        if np.any(np.diff(t) < 0):
            return on.fail('knots', 'knot vector constructed inside another call is not non-decreasing (%d places)' % int((np.diff(t) < 0).sum()),
                           knots=t[:12], option={n: repr(v)[:80] for n, v in kw.items() if n != 'x' and v is not None})
        if nt < 2 * kk:
            return on.fail('knots', 'fewer than two breakpoints: %d knots for order %d' % (nt, kk))
        n = nt - kk
        if not (t[kk - 1] <= xmin + tol and t[n] >= xmax - tol):
            on.fail('covers', 'breakpoint range [%r, %r] of a set constructed inside another call does not cover its data range [%r, %r]'
                    % (t[kk - 1], t[n], xmin, xmax), option={n_: repr(v)[:80] for n_, v in kw.items() if n_ != 'x' and v is not None})
        if given is None and not (abs(t[kk - 1] - xmin) <= tol and abs(t[n] - xmax) <= tol):
            on.fail('padding', 'computed breakpoints must start/end at the data extremes with order-1 extra knots outside: t[k-1]=%r xmin=%r '
                    't[n]=%r xmax=%r' % (t[kk - 1], xmin, t[n], xmax))

    def online_value(self, on, a, k, r, st):
        s = a[0]
        on.count('online_value_calls')
        # (an action matrix handed in by the library itself - iterfit does that - belongs to these points: judged like any call)
        if len(a) != 2 or k.get('x2') is not None or getattr(s, 'npoly', 1) != 1:
            return on.count('online_value_calls_outside_domain')
        on.count('online_value_calls_with_action_from_the_caller', k.get('action') is not None)
        x = np.asarray(a[1])
        y, mask = r
        if x.ndim != 1 or x.size == 0 or x.dtype.kind != 'f':
            return on.count('online_value_calls_outside_domain')
        kk = int(s.nord)
        bm = np.asarray(s.mask, dtype=bool)
        t = np.asarray(s.breakpoints, dtype='f8')[bm]
        n = t.size - kk
        c = np.asarray(s.coeff, dtype='f8')
        if c.ndim != 1 or c.size != bm.size - kk:
            return on.count('online_value_calls_outside_domain')
        c = c[bm[kk:]]
        if n < kk or c.size != n or not np.all(np.isfinite(t)) or np.any(np.diff(t) < 0) or not np.all(np.isfinite(c)):
            return on.count('online_value_calls_outside_domain')
        masked = not bool(bm.all())
        on.count('online_value_calls_masked_breakpoints', masked)
        xd = x.astype('f8')
        fin = np.isfinite(xd)
        bp = t[kk - 1:n + 1]
        inside = fin & (xd >= bp[0]) & (xd <= bp[-1])
        y = np.asarray(y)
        mask = np.asarray(mask)
        if y.shape != x.shape or mask.shape != x.shape:
            return on.fail('value', 'value() called inside another call returned shapes %s / %s for %s points' % (y.shape, mask.shape, x.shape))
        if not masked and fin.all():
            if not np.array_equal(mask.astype(bool), inside):
                on.fail('mask', 'validity mask differs from "inside the breakpoint range" at %d points (call made inside another entry point)'
                        % int((mask.astype(bool) != inside).sum()), bad_points=xd[mask.astype(bool) != inside][:5], range=(bp[0], bp[-1]))
        # value clause
        if x.dtype == np.float32:
            pos = np.diff(bp)
            pos = pos[pos > 0]
            if pos.size == 0 or pos.min() < 1e-3 * max(abs(bp[0]), abs(bp[-1]), 1e-300):
                return on.count('online_value_calls_float32_resolution')
        uq, mult = np.unique(bp, return_counts=True)
        discont = uq[mult > max(kk - 1, 1)] if kk > 1 else uq[mult > 1]
        chk = inside & ~np.isin(xd, discont)
        if kk == 1:
            chk &= ~np.isin(xd, bp)
        if masked:
            # a masked breakpoint in the padding changes which knots "the" spline has at the ends: judged only for interior masks
            if not (bm[:kk].all() and bm[-kk:].all()):
                return on.count('online_value_calls_end_knots_masked')
        if chk.sum() > 4000:
            idx = np.flatnonzero(chk)
            keep = idx[:: max(1, idx.size // 4000)]
            chk = np.zeros_like(chk)
            chk[keep] = True
        if not chk.any():
            return
        ref = BR.spline_value(t, kk, c, xd[chk])
        cscale = max(float(np.abs(c).max()), 1e-300)
        lim = (1e-10 if x.dtype == np.float64 else 3e-4) * cscale * max(1.0, kk)
        yd = y.astype('f8')[chk]
        on.count('online_value_points_compared', int(chk.sum()))
        if not np.all(np.isfinite(yd)):
            return on.fail('value', 'non-finite value inside the breakpoint range (call made inside another entry point)', order=kk)
        err = np.abs(yd - ref)
        if float(err.max()) > lim:
            w = int(np.argmax(err))
            on.fail('value', 'value differs from the Cox-de Boor spline of the object\'s knots and coefficients by %.3g (limit %.3g) at x=%r: '
                    'got %r ref %r (call made inside another entry point%s)' % (err.max(), lim, xd[chk][w], yd[w], ref[w],
                                                                               ', masked breakpoints' if masked else ''),
                    order=kk, knots=t[:12], nknots=int(t.size), npoints=int(x.size))

    def run_xwork(self, case, out):
        self.online.begin()
        try:
            if case['driver'] == 'suite':
                rc = xwork.run_suite_files(repo_path(), case['files'])
                out.count('xwork_suite_runs')
                out.count('xwork_suite_exit_%d' % rc)
            else:
                self.xw.run(case, out)
        finally:
            fails, counts = self.online.end()
        for n, v in counts.items():
            out.count(n, v)
        for clause, msg, detail in fails:
            out.fail(clause, msg, **detail)
        out.nontrivial = counts.get('online_value_points_compared', 0) > 0
        out.info.update(driver=case['driver'], driver_class=case.get('dcls'), online=counts)

    def budget(self, tier):
        k = 1 if tier == 'quick' else 80
        return {'random': 1400 * k, 'explicit_bkpt': 400 * k, 'everyn': 300 * k, 'tiny': 200 * k, 'everyn_degenerate': 40 * k,
                'units': 500 * k,
                'long_everyn': 4 if tier == 'quick' else 40,
                'xw_iterfit': 160 if tier == 'quick' else 6000, 'xw_combine1fiber': 80 if tier == 'quick' else 3000,
                'xw_suite': 1 if tier == 'quick' else 2}

    # ------------------------------------------------------------------ gen
    def gen(self, cls, rng, i):
        if cls == 'xw_iterfit':
            return self.xw.gen('C10', rng)
        if cls == 'xw_combine1fiber':
            return self.xw.gen('C11', rng)
        if cls == 'xw_suite':
            return {'kind': 'xwork', 'driver': 'suite', 'files': ['pydl/pydlutils/tests/test_bspline.py', 'pydl/pydlspec2d/tests/test_spec2d.py'][: 2 - (i % 2)]}
        g = np_rng(rng)
        if cls == 'long_everyn':
            # long data vectors with a breakpoint every n-th point: the number of points times the number of breakpoints beyond
            # 2**31 (47000 points with everyn=1, 70000 with 2, 120000 with 5 ...); the data are made from the seed at run time and
            # only the knot vector is examined (evaluating tens of thousands of intervals is another check's budget)
            ev = rng.choice([1, 1, 2, 3, 5, 8])
            nx = int(np.sqrt(2.0 ** 31 * ev)) + rng.choice([1, 7, 100, 1000, 5000, 20000])
            return {'kind': cls, 'nx': nx, 'everyn': ev, 'nord': rng.randint(1, 6), 'seed': rng.getrandbits(32)}
        nx = rng.randint(5, 400) if cls != 'tiny' else rng.randint(5, 12)
        k = rng.randint(1, 6)
        lo, hi = rng.choice([(-5.0, 20.0), (0.0, 1.0), (3500.0, 9200.0), (-1e-3, 1e-3), (3.55, 3.97)])
        units = None
        if cls == 'units':
            # the same physical grid in other units: the property speaks of "all data abscissae", not of abscissae of order one.
            # Wavelengths in metres (1e-7), times in seconds that are nanoseconds apart, frequencies in Hz (1e14), cgs / SI constants
            # (1e-27, 1e+30): every quantity the construction and the recursion handle (data, bkspace, placed, bkpt, knot
            # differences) scales with the unit, nothing in the property does.  Independently the coefficients get a unit of their own.
            u = rng.choice([-30, -24, -18, -15, -12, -10, -9, -9, -8, -8, -7, -7, -6, -5, -4, 4, 5, 6, 7, 8, 9, 10, 12, 15, 18, 24, 30])
            units = {'xfac': rng.choice([1.0, 1.0, rng.uniform(1.0, 10.0)]) * 10.0 ** u,
                     'cexp': rng.choice([0, 0, rng.randint(-30, -9), rng.randint(9, 30), -u, u])}
        if cls in ('random', 'explicit_bkpt') and rng.random() < 0.12:
            # abscissae with a large additive offset and a narrow span (Julian dates minutes apart, Unix seconds, a pixel window of
            # a mosaic): the breakpoint spacing is far below single-precision resolution of the values themselves
            off = rng.choice([2451545.0, 2458849.5, 1.7e9, 2.0 ** 20, -3.0e6])
            span = rng.choice([0.4, 0.05, 3.0, 100.0]) * (1e3 if abs(off) > 1e8 else 1.0)
            lo, hi = off, off + span
            self._offset_case = True
        else:
            self._offset_case = False
        m = rng.randint(0, 3)
        if m == 0:
            x = g.uniform(lo, hi, nx)
        elif m == 1:
            x = np.concatenate([g.normal((lo + hi) / 2, (hi - lo) / 20, nx // 2).clip(lo, hi), g.uniform(lo, hi, nx - nx // 2)])
        elif m == 2:
            x = np.linspace(lo, hi, nx)
        else:
            x = g.uniform(lo, hi, nx)
            idx = g.integers(0, nx, nx // 3)
            x[idx] = x[g.integers(0, nx, nx // 3)]          # duplicated values
        dt = 'f4' if rng.random() < 0.2 and abs(lo) < 1e5 else 'f8'
        x = x.astype(dt)
        if float(x.max()) <= float(x.min()):
            x[0] = lo
            x[-1] = hi
        srt = rng.random() < 0.5
        if srt:
            x = np.sort(x)
        rngx = float(x.max()) - float(x.min())
        opt = {'explicit_bkpt': 'bkpt', 'everyn': 'everyn', 'everyn_degenerate': 'everyn'}.get(cls) or \
            rng.choice(['bkspace', 'nbkpts', 'everyn', 'placed', 'bkpt'])
        if self._offset_case and opt == 'everyn':
            # everyn stores its breakpoints in single precision (the property: "to single-precision rounding"): a span below the
            # single-precision resolution of the abscissae collapses them to one value - outside the domain
            opt = rng.choice(['bkspace', 'nbkpts', 'placed', 'bkpt'])
        val = None
        if opt == 'bkspace':
            val = rngx / rng.uniform(1.0, nx / 2 + 1)
            if rng.random() < 0.15:
                val = rngx * rng.choice([1.0, 2.0, 1.0000001, 0.5])
            elif rng.random() < 0.2:
                # a round spacing that divides a round data range (0.4 in 10, 0.3 in 12, 1.2 in 6 ...): the spacing asked for is the
                # spacing obtained
                R, val = rng.choice([(10, 0.1), (10, 0.2), (10, 0.4), (10, 0.5), (10, 2.5), (12, 0.3), (6, 1.2), (30, 0.6), (1, 0.1), (1, 0.05),
                                     (3, 0.3), (7, 0.7), (9, 0.9), (100, 0.8), (20, 0.4), (5, 0.2), (2, 0.4), (60, 1.2), (36, 0.3)])
                a0 = rng.choice([0.0, 0.0, 100.0, -5.0])
                x = (a0 + np.concatenate([[0.0, float(R)], g.uniform(0, R, max(3, nx - 2))])).astype(dt)
                if srt:
                    x = np.sort(x)
        elif opt == 'nbkpts':
            val = rng.randint(1, max(3, nx // 2))
        elif opt == 'everyn':
            x = np.sort(x)
            srt = True
            if cls == 'everyn_degenerate':
                val = rng.randint(nx // 2 + 1, nx + 2)
            else:
                val = rng.randint(1, max(1, nx // 2))
                if rng.random() < 0.4:
                    # (nbkpts-1) divides nx: the F-B1 situation
                    nb = rng.randint(2, max(2, min(nx // 2, 12)))
                    cand = [e for e in range(1, nx // 2 + 1) if nx // e >= 2 and nx % (nx // e - 1 or 1) == 0]
                    if cand:
                        val = rng.choice(cand)
        elif opt == 'placed':
            n = rng.randint(0, 14)
            val = np.sort(g.uniform(float(x.min()) - 0.2 * rngx, float(x.max()) + 0.2 * rngx, n)).tolist()
        else:
            n = rng.randint(0, 10)
            inner = np.sort(g.uniform(float(x.min()), float(x.max()), n))
            if n >= 2 and k >= 3 and rng.random() < 0.3:
                j = rng.randrange(n - 1)
                inner[j + 1] = inner[j]                     # a double interior knot (multiplicity 2 <= k-1)
            cover = rng.choice(['exact', 'wider', 'narrow_lo', 'narrow_hi', 'narrow_both'])
            a, b = float(x.min()), float(x.max())
            if cover == 'wider':
                a, b = a - 0.1 * rngx, b + 0.1 * rngx
            elif cover == 'narrow_lo':
                a = a + 0.05 * rngx
            elif cover == 'narrow_hi':
                b = b - 0.05 * rngx
            elif cover == 'narrow_both':
                a, b = a + 0.05 * rngx, b - 0.05 * rngx
            inner = inner[(inner > a) & (inner < b)]
            val = [a] + inner.tolist() + [b]
        case = {'kind': cls, 'x': x.astype('f8').tolist(), 'xdtype': dt, 'sorted': srt, 'nord': k, 'opt': opt, 'optval': val,
                'coeff_mode': rng.choice(['random', 'random', 'unit', 'poly']), 'seed': rng.getrandbits(32),
                'bkpt_dtype': 'f8' if self._offset_case else rng.choice(['f8', 'f8', 'f4'])}
        if units is not None:
            f, ce = units['xfac'], units['cexp']
            if dt == 'f4' or opt == 'everyn' or (opt == 'bkpt' and case['bkpt_dtype'] == 'f4'):
                # single-precision data / breakpoints: stay well inside the single-precision exponent range (values up to 1e4 and
                # spacings down to 1e-6 in the unscaled grid; coefficients up to 1e3)
                f = min(max(f, 1e-24), 1e24)
                ce = min(max(ce, -24), 24)
            xs = (x.astype('f8') * f).astype(dt)
            if float(xs.max()) <= float(xs.min()):
                xs[0], xs[-1] = lo * f, hi * f
                if srt:
                    xs = np.sort(xs)
            case['x'] = xs.astype('f8').tolist()
            if opt == 'bkspace':
                case['optval'] = float(val) * f
            elif opt in ('placed', 'bkpt'):
                case['optval'] = (np.asarray(val, dtype='f8') * f).tolist()
            case['xfac'] = f
            case['cexp'] = ce
        return case

    # ------------------------------------------------------------------ run
    def canary(self):
        """Fixed, ordinary calls one after another (see vlib.harness.canary_setup): construction by every breakpoint option,
        evaluation inside / outside / on knots, of one point and of many."""
        B = self.B
        x = np.linspace(1.0, 9.0, 50)
        res = []
        for kw in ({'nbkpts': 7}, {'bkspace': 1.7}, {'everyn': 6}, {'bkpt': np.array([1.0, 2.0, 4.0, 4.0, 9.0])}):
            try:
                with warnings.catch_warnings():
                    warnings.simplefilter('ignore')
                    s = B.bspline(x, nord=3, **kw)
                    s.coeff = np.arange(s.coeff.size, dtype='f8') - 2.0
                    xe = np.array([0.5, 1.0, 2.0, 3.3, 4.0, 8.9999, 9.0, 9.5])
                    y, m = s.value(xe)
                    y1, m1 = s.value(xe[3:4])
                res.append(('ok', np.asarray(s.breakpoints, dtype='f8').tobytes(), np.nan_to_num(np.asarray(y, dtype='f8')).round(10).tobytes(),
                            m.tobytes(), float(np.asarray(y1)[0]).__round__(10), bool(m1[0])))
            except Exception as e:
                res.append(('raised', type(e).__name__, str(e)[:80]))
        return res

    def run_long_everyn(self, case, out):
        B = self.B
        k, nx, ev = case['nord'], case['nx'], case['everyn']
        g = np.random.default_rng(case['seed'])
        x = np.sort(g.uniform(0.0, 1000.0, nx))
        with warnings.catch_warnings():
            warnings.simplefilter('ignore')
            s = B.bspline(x, nord=k, everyn=ev)
        t = np.asarray(s.breakpoints, dtype='f8')
        nt = len(t)
        out.count('long_everyn_cases')
        out.count('long_everyn_points_times_breakpoints_over_2**31', nx * (nx // ev - 1) >= 2 ** 31)
        out.expect(bool(np.all(np.isfinite(t))), 'knots', 'non-finite knot')
        out.expect(bool(np.all(np.diff(t) >= 0)), 'knots', 'knot vector of %d points, everyn=%d decreases at %d places'
                   % (nx, ev, int((np.diff(t) < 0).sum())), knots=t[:6])
        if not out.expect(nt >= 2 * k, 'knots', 'fewer than two breakpoints'):
            return
        n = nt - k
        tol = 4 * EPS32 * 1000.0
        out.expect(t[k - 1] <= x[0] + tol and t[n] >= x[-1] - tol, 'covers', 'breakpoint range [%r, %r] does not cover the data range [%r, %r]'
                   % (t[k - 1], t[n], x[0], x[-1]))
        # a breakpoint every `everyn` points: the number of breakpoints is about nx / everyn, and between two successive interior
        # breakpoints lie about `everyn` points
        nb = nt - 2 * (k - 1)
        out.expect(abs(nb - nx // ev) <= 2, 'padding', '%d breakpoints for %d points with everyn=%d' % (nb, nx, ev))
        if nb > 4:
            cnt = np.diff(np.searchsorted(x, t[k - 1:n + 1]))
            # (the breakpoints are stored in single precision: one may move across a few neighbouring abscissae)
            out.expect(int(cnt[1:-1].max()) <= 2 * ev + 4, 'knots',
                       'between successive breakpoints lie %d .. %d points, everyn=%d' % (int(cnt[1:-1].min()), int(cnt[1:-1].max()), ev))
        out.nontrivial = True
        out.info.update(order=k, npts=nx, everyn=ev)

    def run(self, case, out):
        if case['kind'] == 'xwork':
            return self.run_xwork(case, out)
        if case['kind'] == 'long_everyn':
            return self.run_long_everyn(case, out)
        B = self.B
        x = np.array(case['x'], dtype=case['xdtype'])
        k = case['nord']
        opt = case['opt']
        kw = {}
        if opt in ('placed', 'bkpt'):
            kw[opt] = np.array(case['optval'], dtype=case['bkpt_dtype'] if opt == 'bkpt' else 'f8')
        else:
            kw[opt] = case['optval']
        with warnings.catch_warnings(record=True) as w:
            warnings.simplefilter('always')
            s = B.bspline(x, nord=k, **kw)
        out.count('opt_' + opt)
        adjusted = any('does not cover' in str(m.message) for m in w)
        out.count('not_cover_adjusted', adjusted)
        out.count('unsorted_inputs', not case['sorted'])
        out.count('float32_inputs', case['xdtype'] == 'f4')
        out.count('abscissae_with_offset_over_1e6_and_knot_spacing_below_1e-7_of_it', abs(float(x.min())) > 1e6 and case['kind'] != 'units')
        t = np.asarray(s.breakpoints, dtype='f8')
        xmin, xmax = float(x.min()), float(x.max())
        tol = 4 * EPS32 * max(abs(xmin), abs(xmax), 1e-300)
        nt = len(t)
        n = nt - k
        # ---- (a) knot vector
        out.expect(bool(np.all(np.isfinite(t))), 'knots', 'non-finite knot')
        out.expect(bool(np.all(np.diff(t) >= 0)), 'knots', 'knot vector is not non-decreasing', knots=t)
        if not out.expect(nt >= 2 * k, 'knots', 'fewer than two breakpoints: %d knots for order %d' % (nt, k), knots=t):
            return
        out.expect(t[k - 1] <= xmin + tol and t[n] >= xmax - tol, 'covers',
                   'breakpoint range [%r, %r] does not cover the data range [%r, %r]' % (t[k - 1], t[n], xmin, xmax), knots=t)
        if opt == 'bkpt':
            exp = np.array(case['optval'], dtype=case['bkpt_dtype']).astype('f8')
            exp = exp.copy()
            if xmin < exp.min():
                exp[exp.argmin()] = np.array(xmin, dtype=case['bkpt_dtype'])
            if xmax > exp.max():
                exp[exp.argmax()] = np.array(xmax, dtype=case['bkpt_dtype'])
            out.expect(nt == len(exp) + 2 * (k - 1), 'padding', 'explicit bkpt of %d values gave %d knots for order %d' % (len(exp), nt, k))
            if nt == len(exp) + 2 * (k - 1):
                out.expect(bool(np.allclose(t[k - 1:nt - k + 1], exp, rtol=2 * EPS32, atol=0)), 'padding',
                           'interior of the knot vector is not the (end-adjusted) bkpt', got=t[k - 1:nt - k + 1], exp=exp)
        else:
            # computed options: first/last breakpoint are the data extremes => exactly k-1 extra knots on each side
            out.expect(abs(t[k - 1] - xmin) <= tol and abs(t[n] - xmax) <= tol, 'padding',
                       'computed breakpoints must start/end at the data extremes with k-1 extra knots outside: '
                       't[k-1]=%r xmin=%r t[n]=%r xmax=%r' % (t[k - 1], xmin, t[n], xmax), knots=t)
        if opt == 'bkspace' and xmax > xmin and case['xdtype'] == 'f8':     # (single-precision data: the quotient is formed in single precision)
            q = (xmax - xmin) / float(case['optval'])
            if q >= 1 and 0 < round(q) - q <= 1e-12 * q:
                # the double-precision quotient itself lies a rounding error BELOW the whole number (a round spacing and a round
                # range converted to another unit: 5.000000000000001e-11 in 9.999999999999999e-10): the spacing does not divide the
                # range, one breakpoint fewer is what "as many whole spacings as fit" means - ambiguity band, nothing asserted
                out.count('bkspace_divides_the_range_only_to_rounding')
                out.undecide(1)
            elif q >= 1 and 0 <= q - round(q) <= 1e-12 * q:
                # the spacing divides the data range: exactly round(q)+1 breakpoints, that spacing apart
                nb = nt - 2 * (k - 1)
                out.expect(nb == int(round(q)) + 1, 'knots', 'bkspace=%r divides the data range %r exactly %d times, yet %d breakpoints were placed '
                           '(spacing %r)' % (case['optval'], xmax - xmin, int(round(q)), nb, float(t[k] - t[k - 1])), knots=t[:8])
                out.count('bkspace_divides_the_range_exactly')
        if out.fails:
            return
        # ---- the same breakpoint option through the other public entry point: iterfit builds its spline set from the good points in
        #      increasing order, whatever order the caller's data are in
        if opt in ('everyn', 'nbkpts', 'bkspace'):
            with warnings.catch_warnings():
                warnings.simplefilter('ignore')
                ref_t = np.asarray(B.bspline(np.sort(x), nord=k, **kw).breakpoints, dtype='f8')
                xs = x[np.random.default_rng(case['seed']).permutation(x.size)] if case['seed'] % 3 else x[::-1].copy()
                s2, m2 = B.iterfit(xs, np.ones(x.size, dtype=x.dtype), nord=k, maxiter=0, **kw)
            t2 = np.asarray(s2.breakpoints, dtype='f8')
            out.expect(bool(np.all(np.diff(t2) >= 0)), 'knots', 'iterfit(%s=...): knot vector is not non-decreasing' % opt, knots=t2)
            out.expect(t2.shape == ref_t.shape and bool(np.array_equal(t2, ref_t)), 'knots',
                       'iterfit(%s=...) on data in the caller\'s order does not build the knots of the sorted data' % opt,
                       got=t2[:12], expected=ref_t[:12])
            out.count('knots_through_iterfit')
            out.count('knots_through_iterfit_unsorted_data', bool(np.any(np.diff(xs.astype('f8')) < 0)))
        # ---- coefficients
        g = np.random.default_rng(case['seed'])
        if case['coeff_mode'] == 'unit':
            c = np.zeros(n)
            c[g.integers(0, n)] = 1.0
        elif case['coeff_mode'] == 'poly':
            c = np.polyval(g.normal(size=3), np.linspace(-1, 1, n))
        else:
            c = g.normal(size=n) * 10 ** g.uniform(-3, 3)
        if case.get('cexp'):
            c = c * 10.0 ** case['cexp']                    # the coefficients (the fitted quantity) in a unit of their own
        if case['kind'] == 'units':
            dpos = np.diff(t)[np.diff(t) > 0]
            tiny_u = bool(t[-1] - t[0] < 1e-9)              # every denominator of the recursion is below 1e-9 in absolute terms
            out.count('units_cases')
            out.count('units_whole_knot_vector_shorter_than_1e-9', tiny_u)
            out.count('units_whole_knot_vector_shorter_than_1e-9_float32', tiny_u and case['xdtype'] == 'f4')
            out.count('units_every_knot_spacing_over_1e9', bool(dpos.size and dpos.min() > 1e9))
            out.count('units_tiny_abscissae_opt_' + opt, tiny_u)
            out.count('units_coefficients_below_1e-9', bool(np.abs(c).max() < 1e-9))
            out.count('units_coefficients_over_1e9', bool(np.abs(c).max() > 1e9))
        s.coeff = c.copy()
        cscale = max(float(np.abs(c).max()), 1e-300)
        # ---- evaluation points
        bp = t[k - 1:n + 1]
        width = np.diff(bp)
        pos = width[width > 0]
        h = float(pos.min()) if pos.size else (xmax - xmin)
        mids = (bp[:-1] + bp[1:]) / 2
        inner = g.uniform(bp[0], bp[-1], 40)
        outside = np.concatenate([bp[0] - h * 10.0 ** g.uniform(-9, -1, 4), bp[-1] + h * 10.0 ** g.uniform(-9, -1, 4)])
        xe = np.concatenate([x.astype('f8'), bp, mids, inner, outside])
        xe = xe.astype(case['xdtype'])
        xe = xe[g.permutation(xe.size)]
        y, mask = s.value(xe)
        xd = xe.astype('f8')
        inside = (xd >= bp[0]) & (xd <= bp[-1])
        # ---- (d) mask
        out.expect(mask.dtype == bool and bool(np.array_equal(mask, inside)), 'mask',
                   'validity mask differs from "inside the breakpoint range" at %d points' % int((mask != inside).sum()),
                   bad_points=xd[mask != inside][:5], range=(bp[0], bp[-1]))
        out.count('points_outside_checked', int((~inside).sum()))
        out.expect(y.shape == xe.shape, 'value', 'shape changed')
        # ---- (b) value vs textbook recursion and scipy
        ref = BR.spline_value(t, k, c, xd)
        rtol = 1e-10 if case['xdtype'] == 'f8' else 3e-4
        lim = rtol * cscale * max(1.0, k)
        yd = y.astype('f8')
        on_knot = np.isin(xd, bp[1:-1])
        # a breakpoint repeated more than order-1 times makes the spline discontinuous there: its value *at* that
        # point is a matter of convention, not of the property -> such points are not compared
        uq, mult = np.unique(bp, return_counts=True)
        discont = uq[mult > max(k - 1, 1)] if k > 1 else uq[mult > 1]
        at_discont = np.isin(xd, discont)
        out.count('points_on_discontinuity_skipped', int((at_discont & inside).sum()))
        out.expect(bool(np.all(np.isfinite(y[inside & ~at_discont]))), 'value', 'non-finite value returned inside the breakpoint range')
        if k == 1:
            # either neighbour is acceptable exactly on an interior knot
            chk = inside & ~on_knot & ~at_discont
            left = BR.spline_value(t, k, c, np.nextafter(xd, -np.inf))
            ok_knot = (np.abs(yd - ref) <= lim) | (np.abs(yd - left) <= lim)
            out.expect(bool(np.all(ok_knot[inside & on_knot & ~at_discont])), 'value', 'order-1 value on a knot equals neither neighbour')
        else:
            chk = inside & ~at_discont
        err = np.abs(yd - ref)[chk]
        out.count('points_compared_inside', int(chk.sum()))
        if chk.any():
            worst = int(np.argmax(np.abs(yd - ref) * chk))
            out.expect(float(err.max()) <= lim, 'value',
                       'value differs from the Cox-de Boor spline by %.3g (limit %.3g) at x=%r: got %r ref %r' %
                       (err.max(), lim, xd[worst], yd[worst], ref[worst]), order=k, knots=t[:12], opt=opt)
        # scipy on strictly interior points of non-degenerate knot vectors
        if k >= 1 and np.all(np.diff(bp) > 0):
            try:
                sp = self.BSpline(t, c, k - 1, extrapolate=False)
                strict = (xd > bp[0]) & (xd < bp[-1]) & ~on_knot
                ys = sp(xd[strict])
                if strict.any() and np.all(np.isfinite(ys)):
                    e2 = float(np.abs(yd[strict] - ys).max())
                    out.expect(e2 <= lim, 'value-scipy', 'value differs from scipy BSpline by %.3g (limit %.3g)' % (e2, lim))
                    out.count('scipy_agreements')
            except Exception as e:      # scipy refusing a knot vector is not pydl's problem
                out.count('scipy_refused')
        # ---- order metamorphic (all points, incl. outside)
        p = g.permutation(xe.size)
        y2, m2 = s.value(xe[p])
        out.expect(bool(np.array_equal(y2, y[p], equal_nan=True)) and bool(np.array_equal(m2, mask[p])), 'order',
                   'value(x[p]) != value(x)[p]: results depend on the order of the evaluation points')
        # ---- the same object evaluated again on a different set of points: nothing may be remembered from the first call
        half = xe[: max(1, xe.size // 2)][::-1].copy()
        y3, m3 = s.value(half)
        yref3 = y[: max(1, xe.size // 2)][::-1]
        fin = np.isfinite(yref3) & np.isfinite(y3)
        # (not bitwise: the per-interval matrix products have other block shapes, BLAS may sum in another order)
        close = bool(np.all(np.abs(y3[fin].astype('f8') - yref3[fin].astype('f8')) <= (1e-12 if case['xdtype'] == 'f8' else 1e-5) * cscale * k))
        out.expect(close and bool(np.array_equal(np.isfinite(y3), np.isfinite(yref3))) and
                   bool(np.array_equal(m3, mask[: max(1, xe.size // 2)][::-1])), 'order',
                   'a second value() call on the same object with a subset of the points gave different values')
        out.count('repeat_value_calls_same_object')
        # ---- evaluation sets of special shape: a single point, the same point several times, points already in increasing /
        #      decreasing order (what a caller's order "is" must not matter, also when there is nothing to sort)
        tol1 = (1e-12 if case['xdtype'] == 'f8' else 1e-5) * cscale * k

        def same(ysub, msub, idx, what):
            yr, mr = y[idx], mask[idx]
            fin = np.isfinite(yr) & np.isfinite(ysub)
            ok = ysub.shape == yr.shape and bool(np.array_equal(np.isfinite(ysub), np.isfinite(yr))) and \
                bool(np.all(np.abs(ysub[fin].astype('f8') - yr[fin].astype('f8')) <= tol1)) and bool(np.array_equal(msub, mr))
            out.expect(ok, 'order', 'value() on %s differs from the same points evaluated within the full set' % what)
        picks = [int(np.argmax(inside)), int(np.argmax(~inside)) if (~inside).any() else 0, int(g.integers(0, xe.size))]
        for j in picks:
            y1, m1 = s.value(xe[j:j + 1].copy())
            same(y1, m1, np.array([j]), 'a single point')
            y5, m5 = s.value(np.full(4, xe[j], dtype=xe.dtype))
            same(y5, m5, np.array([j] * 4), 'one point repeated four times')
        out.count('single_point_evaluations', len(picks))
        so = np.argsort(xd, kind='stable')
        for idx, what in ((so, 'points in increasing order'), (so[::-1], 'points in decreasing order')):
            ys_, ms_ = s.value(xe[idx].copy())
            same(ys_, ms_, idx, what)
        out.count('presorted_evaluations', 2)
        # ---- missing evaluation points: a NaN among the points is neither inside nor outside; it must not change what is said about
        #      the other points (outside points on one side only, on both sides, none)
        for side in ('above', 'below', 'both', 'none'):
            sel = {'above': xd >= bp[0], 'below': xd <= bp[-1], 'both': np.ones(xd.size, dtype=bool), 'none': inside}[side]
            idx = np.flatnonzero(sel)[: 60]
            if idx.size == 0:
                continue
            xn = np.concatenate([xe[idx], np.array([np.nan], dtype=xe.dtype)])
            pn = g.permutation(xn.size)
            with warnings.catch_warnings():
                warnings.simplefilter('ignore')
                with np.errstate(all='ignore'):
                    yn, mn = s.value(xn[pn].copy())
            back = np.argsort(pn)[: idx.size]
            same(np.asarray(yn)[back], np.asarray(mn)[back], idx, 'the same points with one NaN among them (outside points: %s)' % side)
            out.count('evaluations_with_a_nan_among_the_points')
            out.count('nan_evaluations_with_outside_points_above_only', side == 'above' and bool((~inside[idx]).any()))
        # ---- the documented keyword form: an action matrix precomputed for the points in increasing order (as action() requires)
        #      handed to value() together with the points in the caller's order
        with warnings.catch_warnings():
            warnings.simplefilter('ignore')
            act = s.action(np.sort(xe))
        if isinstance(act, tuple) and len(act) == 3 and isinstance(act[0], np.ndarray):
            yk, mk = s.value(xe, action=act[0], lower=act[1], upper=act[2])
            same(np.asarray(yk), np.asarray(mk), np.arange(xe.size), 'the caller\'s points with action=/lower=/upper= precomputed')
            out.count('value_with_precomputed_action')
        # ---- a breakpoint masked on an object that has already been evaluated: the object must answer like a fresh one on which
        #      the same breakpoint was masked before its first evaluation (nothing derived from the old mask may be remembered)
        if nt - 2 * (k - 1) >= 2 * k + 2:
            j = int(g.integers(k, nt - k))
            with warnings.catch_warnings():
                warnings.simplefilter('ignore')
                fresh = B.bspline(x, nord=k, **kw)
                fresh.coeff = c.copy()
                fresh.mask[j] = False
                s.mask[j] = False

                def ev(obj):
                    try:
                        yy, mm = obj.value(xe)
                        return ('ok', np.asarray(yy, dtype='f8'), np.asarray(mm))
                    except Exception as e:
                        return ('raised', type(e).__name__)
                ra, rb = ev(s), ev(fresh)
                s.mask[j] = True
            if ra[0] == 'ok' and rb[0] == 'ok':
                fin = np.isfinite(ra[1]) & np.isfinite(rb[1])
                okv = bool(np.array_equal(np.isfinite(ra[1]), np.isfinite(rb[1]))) and \
                    bool(np.all(np.abs(ra[1][fin] - rb[1][fin]) <= tol1 * 10)) and bool(np.array_equal(ra[2], rb[2]))
                out.expect(okv, 'order', 'after masking breakpoint %d an already evaluated object answers differently from a fresh '
                           'object with the same breakpoint masked' % j)
            else:
                out.expect(ra[0] == rb[0] and ra[1:] == rb[1:], 'order', 'after masking breakpoint %d an already evaluated object %s, '
                           'a fresh object with the same mask %s' % (j, ra[:2], rb[:2]))
            out.count('mask_changed_on_evaluated_object')
        # ---- (c) basis: non-negative, sums to one on the range
        xs = np.sort(xe[inside & ~at_discont])
        if xs.size:
            bf = s.bsplvn(xs, s.intrv(xs))
            tolb = 1e-10 if case['xdtype'] == 'f8' else 3e-5
            out.expect(float(bf.min()) >= -tolb, 'basis', 'negative basis function value %r' % float(bf.min()))
            dev = float(np.abs(bf.sum(axis=1) - 1).max())
            out.expect(dev <= tolb * 10, 'basis', 'basis functions do not sum to one (dev %.3g)' % dev)
        # ---- the spline set owns its knots: what the caller does afterwards with the array it passed as bkpt= / placed= (refilling
        #      the buffer, using it for a second, wider data set - bspline() moves the end breakpoints of an array that does not
        #      cover the data) must not reach the set already constructed
        if opt in ('bkpt', 'placed') and kw[opt].size:
            t0 = np.array(s.breakpoints, copy=True)
            y0, m0 = s.value(xe)
            with warnings.catch_warnings():
                warnings.simplefilter('ignore')
                try:
                    B.bspline(np.concatenate([x, [x.min() - (xmax - xmin + 1), x.max() + (xmax - xmin + 1)]]).astype(x.dtype), nord=k, **kw)
                except Exception:
                    pass
            kw[opt][:] = kw[opt][::-1] * 3 + 1
            y9, m9 = s.value(xe)
            out.expect(bool(np.array_equal(np.asarray(s.breakpoints), t0)) and bool(np.array_equal(m9, m0)) and
                       bool(np.array_equal(y9, y0, equal_nan=True)), 'knots',
                       'the knots / values of a constructed set changed when the caller reused the array it had passed as %s=' % opt,
                       knots_before=t0[:8], knots_after=np.asarray(s.breakpoints)[:8], order=k)
            out.count('caller_breakpoint_array_reused_afterwards')
            out.count('caller_breakpoint_array_reused_afterwards_order1', k == 1)
        nint = int((np.diff(bp) > 0).sum())
        per = np.histogram(xd[inside], bins=bp)[0] if nint >= 1 and np.all(np.diff(bp) > 0) else np.array([0])
        out.nontrivial = k >= 2 and nint >= 3 and bool(np.all(per >= 1))
        out.info.update(order=k, opt=opt, nknots=nt, intervals=nint)

    def classify(self, case, out):
        if case.get('opt') == 'everyn' and len(case['x']) // int(case['optval']) < 2 \
                and all(f['clause'] in ('covers', 'padding', 'knots') for f in out.fails):
            return 'everyn_single_breakpoint'
        return None

    def summarise(self, case):
        c = dict(case)
        if c.get('kind') == 'xwork':
            return {'kind': 'xwork', 'driver': c['driver'], 'driver_class': c.get('dcls'), 'files': c.get('files')}
        if 'x' in c:
            c['x'] = case['x'][:8] + ['... %d values' % len(case['x'])]
        return c


CHECK = C08()
