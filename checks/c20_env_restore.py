"""C20 - a failing pipeline call leaves the process environment as it found it.

Events: full os.environ snapshot immediately before and after every call of window_score(rescore) and
template_input(par, dump); the os.putenv / os.unsetenv audit events during the call; the exception that came out.
Fault model: a clean run records the LINE events in the entry point's own code objects and the PY_START events of every
function called directly from them; then an exception is raised from the sys.monitoring callback at the k-th line event
("the statement about to execute fails") or at the k-th direct callee ("the k-th call to any collaborator fails"), for
all k along the recorded execution; natural failures (unset variable, unreadable/truncated file, malformed .par, missing
spPlate, absent fibre ...) are driven as well.  Oracle: after == before for every key; audit log mentions only the touched
variables.
"""
import os
import shutil
import warnings
import numpy as np
from vlib.harness import Check, VERIF
from vlib.monitors import AuditLog, Failpoints, InjectedFault, audit_jsonable

EXC = {'OSError': OSError, 'KeyError': KeyError, 'ValueError': ValueError, 'RuntimeError': RuntimeError,
       'InjectedFault': InjectedFault, 'KeyboardInterrupt': KeyboardInterrupt, 'SystemExit': SystemExit}
# a stage that is interrupted (Ctrl-C) or calls sys.exit() also makes the entry point fail: not Exception subclasses
EXC_NAMES = ['OSError', 'KeyError', 'ValueError', 'RuntimeError', 'KeyboardInterrupt', 'SystemExit']
NEXC = len(EXC_NAMES)
INIT4 = [(a, b) for a in (True, False) for b in (True, False)]       # RUN2D set?, RUN1D set?
# ... or set to the empty string, or to the very value the parameter file is going to set
INIT9 = [(a, b) for a in (True, False, 'empty', 'same') for b in (True, False, 'empty', 'same')]
# what a variable holds on entry is the caller's business: any string must come back exactly (paths with a trailing or doubled
# separator, './', '/./', blanks, '=', non-ASCII, text that looks like a version or a number, long values)
ENTRY_RUN = ['orig2d', 'test/v5_7_0', 'v5_7_0/', './trunk', 'with blank', ' v5 ', 'r\u00e9duction', 'a=b', '26', 'x' * 300, '/abs/redux//v1', '..']
ENTRY_CALIB = ['/calib/dir', '/calib/dir/', '/calib//dir', './calib', '/data/./calib', 'calib dir', '/calib/\u00e9t\u00e9', '/calib/dir/.', '~/calib',
               '/' + 'c' * 300, '/calib/dir//', 'calib']
NINIT = len(INIT9)
FILE_RUN = 'v5_7_0'
WS_NATURAL = ['calib_unset', 'resolve_unset', 'flist_missing', 'flist_truncated', 'rescore_exists', 'score_raises', 'score_exits',
              'score_real', 'via_window_read+calib_unset', 'via_window_read+flist_missing', 'via_window_read+score_raises',
              'via_window_read+calib_unset+flist_missing', 'via_window_read+calib_unset+score_raises',
              'via_window_read+calib_empty+score_raises', 'rescore_is_directory',
              'calib_empty', 'calib_empty+resolve_unset', 'calib_empty+flist_missing', 'calib_empty+score_raises']
TI_NATURAL = ['par_missing', 'kw_missing_object', 'kw_missing_run1d', 'kw_missing_minuse', 'kw_nonnumeric_niter',
              'kw_nonnumeric_wavemin', 'hmf_kw_missing_epsilon', 'hmf_kw_bad_nonnegative', 'spplate_missing', 'fibre_absent',
              'unknown_method', 'dump_unwritable', 'no_eigenobj_table', 'redux_unset', 'run2d_integer', 'no_matplotlib',
              'backend_unloadable', 'backend_unloadable+unknown_method', 'backend_unloadable+dump_unwritable']
# --- realistically sized problems read from an existing dump file (class ti_scale) ------------------------------------------------
# (spectra, pixels, iterations).  An SDSS spectrum between 3600 and 9000 A at 1e-4 dex has ~3980 pixels; HMF's default is 20
# iterations, the shipped parameter files ask for 20-100.  Anything that depends on the size of the problem (another algorithm, a
# pool, a cache, a tuning knob of the numerical libraries switched on above some amount of work) only runs on the upper rungs.
RUNGS = {'tiny': (8, 300, 5), 'small': (40, 600, 10), 'wide': (12, 4000, 12), 'real': (24, 4000, 32), 'many': (200, 2000, 20),
         'long': (48, 4600, 64)}
RUNGS_QUICK = ['tiny', 'small', 'wide', 'real']
RUNGS_ALL = ['tiny', 'small', 'wide', 'real', 'many', 'long']
SOLVERS = [('pca', 0), ('hmf', 0), ('hmf', 1)]          # method, nonnegative
# what happens to a run that got its spectra from the dump file: it completes, a stage after the solver fails (the ratio plots need
# four components; the name of the output file is taken by a directory), the dump file itself is unusable
LATE = ['none', 'nkeep_too_small', 'outfile_is_directory']
DUMP_FAULTS = ['dump_truncated', 'dump_missing_key', 'dump_not_a_pickle', 'dump_shape_mismatch']


def realistic(rung):
    n, m, it = RUNGS[rung]
    return m >= 3500 and it >= 20


# --- variables the entry points do not own (bystanders) ---------------------------------------------------------------------------
# Settings that the libraries underneath consult (thread pools of BLAS / OpenMP, the matplotlib backend).  The shard processes of this
# harness are started with three of them set; an ordinary shell has none.  Whatever state they are in on entry - absent, set, some of
# each - is the state they must be in on return.  'as_found' leaves them as the process has them (cases stored before this clause).
BYSTANDERS = ('OMP_NUM_THREADS', 'OPENBLAS_NUM_THREADS', 'MKL_NUM_THREADS', 'NUMEXPR_NUM_THREADS', 'VECLIB_MAXIMUM_THREADS',
              'BLIS_NUM_THREADS', 'OMP_THREAD_LIMIT', 'MPLBACKEND')
BYSTANDER_STATES = ['absent', 'set', 'mixed', 'mixed2']


def bystander_env(state):
    """{name: value or None (= absent)} for a bystander state"""
    if state in (None, 'as_found'):
        return {}
    val = lambda k: 'Agg' if k == 'MPLBACKEND' else '2'
    if state == 'absent':
        return {k: None for k in BYSTANDERS}
    if state == 'set':
        return {k: val(k) for k in BYSTANDERS}
    odd = 1 if state == 'mixed' else 0
    return {k: (val(k) if n % 2 == odd else None) for n, k in enumerate(BYSTANDERS)}


def scale_plan(tier):
    """the cases of class ti_scale, most expensive first (cases are dealt to the shards round-robin)"""
    plan = []

    def add(rung, solver, outcome, byst, flux=False, obj='gal'):
        plan.append({'rung': rung, 'method': solver[0], 'nonnegative': solver[1], 'outcome': outcome, 'bystanders': byst,
                     'flux': bool(flux), 'object': obj})
    if tier == 'quick':
        for ri, rung in enumerate(RUNGS_QUICK):
            for si, solver in enumerate(SOLVERS):
                add(rung, solver, 'none', 'absent', flux=(ri + si) % 2)
        for ri, rung in enumerate(['tiny', 'small']):
            for si, solver in enumerate(SOLVERS):
                for oi, outcome in enumerate(LATE[1:]):
                    add(rung, solver, outcome, ['set', 'mixed', 'mixed2'][(ri + si + oi) % 3], flux=(si + oi) % 2)
        add('real', SOLVERS[1], 'nkeep_too_small', 'mixed')
        for di, f in enumerate(DUMP_FAULTS):
            add('tiny', SOLVERS[di % 3], f, BYSTANDER_STATES[di % 4])
        for si, solver in enumerate(SOLVERS[:2]):
            add(['tiny', 'small'][si], solver, 'as_is', ['absent', 'mixed'][si], obj='qso')
    else:
        for rung in RUNGS_ALL:
            for solver in SOLVERS:
                for oi, outcome in enumerate(LATE):
                    for bi, byst in enumerate(BYSTANDER_STATES):
                        add(rung, solver, outcome, byst, flux=(oi + bi) % 2)
        for di, f in enumerate(DUMP_FAULTS):
            for si, solver in enumerate(SOLVERS):
                for bi, byst in enumerate(BYSTANDER_STATES):
                    add(['tiny', 'small'][(si + bi) % 2], solver, f, byst)
        for rung in ['tiny', 'small', 'wide']:
            for solver in SOLVERS:
                for byst in ['absent', 'mixed']:
                    add(rung, solver, 'as_is', byst, obj='qso')

    def cost(c):
        n, m, it = RUNGS[c['rung']]
        if c['outcome'] in DUMP_FAULTS:
            return 0
        w = it * (n + m) * (40 if (c['method'], c['nonnegative']) == ('hmf', 0) else 1) + n * m
        return w * (4 if c['object'] == 'qso' else 1)
    plan.sort(key=cost, reverse=True)
    return plan


NL_WS, NC_WS = 40, 24            # upper bounds on line events / direct calls of window_score (checked against the recording)
NL_TI, NC_TI = 560, 320          # ... of template_input + _template_input + template_metadata


class WatchedCalls(Failpoints):
    """Failpoints without the process-wide PY_START subscription: LINE events of the entry points' own code objects as before, PY_START
    only of a few named collaborators (local events on their code objects).  For runs in which no fault is injected and the solver
    makes millions of Python calls, each of which would otherwise go through the callback."""

    def __init__(self, entry_codes, watched):
        Failpoints.__init__(self, entry_codes)
        self.watched = tuple(watched)

    def arm(self, mode=None, target=None, exc_type=None):
        import sys
        mon = sys.monitoring
        Failpoints.arm(self, None, None, exc_type)
        mon.set_events(self.TOOL, 0)
        for c in self.watched:
            mon.set_local_events(self.TOOL, c, mon.events.PY_START)

    def disarm(self):
        import sys
        mon = sys.monitoring
        for c in self.watched:
            mon.set_local_events(self.TOOL, c, 0)
        Failpoints.disarm(self)


class C20(Check):
    ID = 'C20'
    LEVEL = 'fault_enumeration'
    RULE = ('for window_score (rescore False/True, PHOTO_CALIB set) and template_input (method pca/hmf; RUN2D and RUN1D each '
            'initially set or unset) a clean run records the sequence of LINE events in the entry point\'s own code objects '
            '(window_score; template_input, its body and template_metadata) and of PY_START events of every function called '
            'directly from them; then the run is repeated with an exception (OSError/KeyError/ValueError/RuntimeError in '
            'rotation) raised at the k-th line event and at the k-th direct collaborator call - every k in the thorough tier, '
            'every 10th line and every 4th collaborator call of template_input (all of window_score) in the quick tier - plus natural failures (variable unset, unreadable '
            '/ truncated FLIST, existing rescore file, malformed .par in 8 ways, missing spPlate, absent fibre, unknown '
            'method, unwritable dump file).  Class ti_scale: template_input on an existing dump file of pre-processed spectra on a '
            'ladder of problem sizes up to a realistic one (>= 3500 pixels, >= 20 iterations), each solver (pca / hmf / hmf '
            'nonnegative), completing, failing after the solver or on an unusable dump file.  In every class the variables the '
            'entry points do not own (thread-count family, MPLBACKEND) are on entry all absent / all set / alternately absent '
            'and set.  Non-trivial: a fault that fires while a touched variable differs from its entry '
            'value; distinct by (entry, configuration, fault point).')
    ASSUMPTIONS = ['BaseException subclasses (KeyboardInterrupt, SystemExit) are out of scope; faults are ordinary exceptions',
                   'window_score runs with a stub sdss_score collaborator (as the repository\'s own tests do); its failure is injected',
                   'template_input runs on a synthetic two-plate survey tree (vlib/gen/survey_tree.py, content=spectra) in a temporary cwd',
                   'only Python-level collaborators raise PY_START events; C-level calls are covered by the line-level faults',
                   'runs at scale (ti_scale) read synthetic low-rank spectra from the dump file, are not fault-injected, and are observed '
                   'with LINE events of the entry points plus PY_START of the solver stages only',
                   'removing / setting the thread-count variables in a running process does not change the thread pools of libraries '
                   'already loaded (scipy.linalg and scipy.cluster.vq are imported in setup)']
    REQUIRED_COUNTERS = ('entry_values_with_a_path_separator', 'ti_runs_with_unloadable_configured_backend', 'clean_runs_restored', 'line_faults_fired', 'call_faults_fired', 'natural_failures_seen',
                         'faults_while_env_modified', 'putenv_events_observed', 'ws_runs', 'ti_runs',
                         'ti_runs_from_an_existing_dump', 'realistic_scale_runs:pca', 'realistic_scale_runs:hmf',
                         'realistic_scale_runs:hmf_nonnegative', 'ti_runs_that_failed_after_the_solver',
                         'runs_with_bystander_variables_absent_on_entry', 'runs_with_bystander_variables_set_on_entry')
    CASE_CPU_S = 300
    QUICK_SHARDS = 8
    EXHAUSTIVE = True
    SHARD_WALL_S = {'quick': 900, 'thorough': 7200}

    # ------------------------------------------------------------------ setup
    def setup(self):
        import matplotlib
        matplotlib.use('Agg')
        from astropy import log as alog
        alog.setLevel('ERROR')
        import pydl.pydlutils.sdss as S
        import pydl.photoop.window as W
        import pydl.pydlspec2d.spec1d as S1
        from vlib.gen import survey_tree as ST
        self.S, self.W, self.S1, self.ST = S, W, S1, ST
        self._saved_maskbits = S.maskbits
        S.maskbits = S.set_maskbits(maskbits_file=os.path.join(VERIF, 'fixtures', 'maskbits.par'))
        self._saved_score = W.sdss_score

        def stub_sdss_score(flist, **kw):
            if getattr(stub_sdss_score, 'fail', False) == 'exit':
                raise SystemExit('stub sdss_score: a stage called sys.exit()')
            if getattr(stub_sdss_score, 'fail', False):
                raise IOError('stub sdss_score: calibration files not found')
            return np.ones((flist[1].header.get('NAXIS2'),), dtype='f4')
        self._stub = stub_sdss_score
        W.sdss_score = stub_sdss_score
        self.audit = AuditLog.get()
        self.ws_codes = [W.window_score.__code__]
        self.ti_codes = [S1.template_input.__code__, S1.template_metadata.__code__]
        if hasattr(S1, '_template_input'):
            self.ti_codes.append(S1._template_input.__code__)
        for f in (W.window_score, S1.template_input, S1.template_metadata):
            self.reach.add(f)
        if hasattr(S1, '_template_input'):
            self.reach.add(S1._template_input)
        self._clean = {}
        self._tree = None
        # the stages that do the numerical work of template_input (watched individually in the runs at scale)
        self.solver_codes = [f.__code__ for f in (getattr(S1, 'pca_solve', None), getattr(getattr(S1, 'HMF', None), 'solve', None),
                                                  getattr(S1, 'template_qso', None), getattr(S1, 'template_star', None))
                             if hasattr(f, '__code__')]
        # lines of the entry points' own restore blocks (after their last 'finally:'): a fault that makes the restoring
        # statement itself fail cannot be recovered from and is not a "stage it calls"
        import inspect
        self.restore_lines = set()
        # 'try:' / 'else:' / 'finally:' lines compile to a NOP: no operation there can fail, and an exception raised from
        # the monitoring callback at such a NOP is not covered by the enclosing handler table (CPython artefact) -> not a fault point
        self.keyword_lines = set()
        for fn in [W.window_score, S1.template_input, S1.template_metadata] + ([S1._template_input] if hasattr(S1, '_template_input') else []):
            try:
                src, first = inspect.getsourcelines(fn)
            except OSError:
                continue
            for n, l in enumerate(src):
                if l.strip() in ('try:', 'else:', 'finally:'):
                    self.keyword_lines.add((fn.__code__.co_name, first + n))
        for fn in (W.window_score, S1.template_input):
            try:
                src, first = inspect.getsourcelines(fn)
            except OSError:
                continue
            fin = [n for n, l in enumerate(src) if l.strip() == 'finally:']
            if fin:
                for n in range(fin[-1], len(src)):
                    self.restore_lines.add((fn.__code__.co_name, first + n))
        self._cwd0 = os.getcwd()
        self._n = 0
        # libraries that the solvers import on first use are loaded now, while the thread-count variables are as the harness set
        # them: a case that removes those variables must not decide how many threads a library loaded during it starts
        import scipy.linalg
        import scipy.cluster.vq

    def teardown(self):
        self.W.sdss_score = self._saved_score
        self.S.maskbits = self._saved_maskbits
        os.chdir(self._cwd0)

    # ------------------------------------------------------------------ budget / gen
    def budget(self, tier):
        q = tier == 'quick'
        return {
            'ws_clean': 8,
            'ws_line': (NL_WS // 2) * 2 if q else NL_WS * 2,
            'ws_call': NC_WS * 2,
            'ws_natural': len(WS_NATURAL) * 2,
            'ti_clean': 2 * NINIT,
            'ti_line': (NL_TI // 10) * 2 if q else NL_TI * 8,
            'ti_call': (NC_TI // 4) * 2 if q else NC_TI * 8,
            'ti_natural': len(TI_NATURAL) * (2 if q else 4),
            'ti_scale': len(scale_plan(tier)),
        }

    def gen(self, cls, rng, i):
        case = self._gen(cls, rng, i)
        # the state on entry of the variables the entry points do not own rotates through every class
        case.setdefault('bystanders', BYSTANDER_STATES[(i + i // 4 + i // 16) % len(BYSTANDER_STATES)])
        return case

    def _gen(self, cls, rng, i):
        q = self.tier == 'quick'
        if cls == 'ti_scale':
            c = scale_plan(self.tier)[i]
            n, m, it = RUNGS[c['rung']]
            cfg = {'method': c['method'], 'init': list(INIT9[(i * 5 + 1) % NINIT]), 'entry': i,
                   'scale': {'rung': c['rung'], 'nobj': n, 'npix': m, 'niter': it, 'nkeep': 3 if c['outcome'] == 'nkeep_too_small' else 4,
                             'nonnegative': c['nonnegative'], 'object': c['object'], 'flux': c['flux'],
                             'verbose': c['rung'] in ('tiny', 'small') and i % 3 == 0, 'seed': 100 + i}}
            fault = {'mode': 'none'} if c['outcome'] == 'none' else {'mode': 'natural', 'natural': c['outcome']}
            return {'entry': 'ti', 'cfg': cfg, 'bystanders': c['bystanders'], 'fault': fault}
        if cls.startswith('ws'):
            if cls == 'ws_clean':
                # the list of fields of the survey has ~10^5-10^6 rows, the fixture of the other classes three
                return {'entry': 'ws', 'rescore': bool(i % 2), 'calib': ENTRY_CALIB[(i * 5 + 1) % len(ENTRY_CALIB)], 'fault': {'mode': 'none'},
                        'nfields': [3, 3, 1, 1, 20000, 20000, 100000, 100000][i % 8]}
            if cls == 'ws_line':
                k = (i // 2) * (2 if q else 1)
                return {'entry': 'ws', 'rescore': bool(i % 2), 'calib': ENTRY_CALIB[(i // 2) % len(ENTRY_CALIB)], 'fault': {'mode': 'line', 'index': k, 'exc': EXC_NAMES[k % NEXC]}}
            if cls == 'ws_call':
                k = i // 2
                return {'entry': 'ws', 'rescore': bool(i % 2), 'calib': ENTRY_CALIB[(i // 2 + 5) % len(ENTRY_CALIB)], 'fault': {'mode': 'call', 'index': k, 'exc': EXC_NAMES[(k + 1) % NEXC]}}
            nat = WS_NATURAL[(i // 2) % len(WS_NATURAL)]
            # (the scoring stage as shipped looks for the files of every field before it gives up: it keeps the short list)
            return {'entry': 'ws', 'rescore': bool(i % 2), 'calib': ENTRY_CALIB[(i // 2 + 3) % len(ENTRY_CALIB)],
                    'fault': {'mode': 'natural', 'natural': nat}, 'nfields': 3 if 'score_real' in nat else [3, 20000][(i // 2) % 2]}
        ncfg = 2 if q else 8

        def cfg(j):
            j = j % 8
            return {'method': ['pca', 'hmf'][j % 2], 'init': list(INIT4[(j // 2) % 4] if not q else INIT4[(j * 3) % 4])}
        if cls == 'ti_clean':
            c = cfg(i)
            c['init'] = list(INIT9[(i // 2) % NINIT])
            c['entry'] = i
            return {'entry': 'ti', 'cfg': c, 'fault': {'mode': 'none'}}
        if cls == 'ti_line':
            k = (i // ncfg) * (10 if q else 1) + ((i % ncfg) * 5 if q else 0)
            return {'entry': 'ti', 'cfg': dict(cfg(i % ncfg), entry=i), 'fault': {'mode': 'line', 'index': k, 'exc': EXC_NAMES[k % NEXC]}}
        if cls == 'ti_call':
            k = (i // ncfg) * (4 if q else 1) + ((i % ncfg) * 2 if q else 0)
            return {'entry': 'ti', 'cfg': dict(cfg(i % ncfg), entry=i), 'fault': {'mode': 'call', 'index': k, 'exc': EXC_NAMES[(k + 2) % NEXC]}}
        nn = len(TI_NATURAL)
        c = cfg(i // nn)
        c['init'] = list(INIT9[(i // nn + i) % NINIT])
        c['entry'] = i
        return {'entry': 'ti', 'cfg': c, 'fault': {'mode': 'natural', 'natural': TI_NATURAL[i % nn]}}

    # ------------------------------------------------------------------ fixtures
    def _ws_dir(self, nfields=3):
        from astropy.io import fits
        d = os.path.join(self.workdir, 'resolve')
        if os.path.isdir(d):
            shutil.rmtree(d)
        os.makedirs(d)
        # the columns the real sdss_score reads (natural failure 'score_real': no per-field files exist)
        a = np.zeros(nfields, dtype=[('RUN', 'i4'), ('CAMCOL', 'i4'), ('FIELD', 'i4'), ('SCORE', 'f4'), ('RERUN', 'S3'),
                               ('PHOTO_STATUS', 'i4'), ('PSP_STATUS', 'i4', (5,)), ('PSF_FWHM', 'f4', (5,)),
                               ('SKYFLUX', 'f4', (5,)), ('XBIN', 'i4'), ('YBIN', 'i4'), ('IMAGE_STATUS', 'i4', (5,)),
                               ('SUN_ANGLE', 'f4'), ('CALIB_STATUS', 'i4', (5,))])
        k = np.arange(nfields)
        a['RUN'] = np.where(k % 3 < 2, 94, 125) + 10 * (k // 900)
        a['CAMCOL'] = k % 3 + 1 + 3 * ((k // 450) % 2)
        a['FIELD'] = 12 + k % 3 + 3 * ((k // 3) % 150)
        a['RERUN'] = '301'
        a['XBIN'] = a['YBIN'] = 1
        fits.HDUList([fits.PrimaryHDU(), fits.BinTableHDU(a)]).writeto(os.path.join(d, 'window_flist.fits'))
        return d

    def _ti_tree(self):
        if self._tree is None:
            root = os.path.join(self.workdir, 'survey')
            self._tree = self.ST.write_tree(root, [(3587, 55182, 8, 400, 3.56, 1e-4), (3588, 55184, 8, 400, 3.56, 1e-4)],
                                            run2d='v5_7_0', content='spectra', seed=1)
        return self._tree

    def _par(self, path, method, variant=None, scale=None):
        g = np.random.default_rng(3)
        kw = [('object', 'gal'), ('method', method), ('wavemin', '3700'), ('wavemax', '3950'), ('snmax', '100'), ('niter', '3'),
              ('nkeep', '4'), ('minuse', '3'), ('aesthetics', 'mean'), ('run2d', 'v5_7_0'), ('run1d', 'v5_7_0'),
              ('epsilon', '-1.0'), ('nonnegative', '0')]
        d = dict(kw)
        rows = [(pl, mj, f) for pl, mj in ((3587, 55182), (3588, 55184)) for f in range(1, 9)]
        if scale:
            # the spectra come from the dump file: the table only has to name as many objects, the window is the survey's
            d.update(object=scale['object'], wavemin='3600', wavemax='9000', niter=str(scale['niter']), nkeep=str(scale['nkeep']),
                     minuse='1', nonnegative=str(scale['nonnegative']))
            rows = [(3587 + k // 640, 55182 + 2 * (k // 640), k % 640 + 1) for k in range(scale['nobj'])]
        if variant and variant.startswith('kw_missing_'):
            d.pop(variant[len('kw_missing_'):])
        elif variant == 'kw_nonnumeric_niter':
            d['niter'] = 'three'
        elif variant == 'kw_nonnumeric_wavemin':
            d['wavemin'] = 'blue'
        elif variant == 'hmf_kw_missing_epsilon':
            d['method'] = 'hmf'
            d.pop('epsilon')
        elif variant == 'hmf_kw_bad_nonnegative':
            d['method'] = 'hmf'
            d['nonnegative'] = 'yes'
        elif variant == 'unknown_method':
            d['method'] = 'svd'
        elif variant == 'run2d_integer':
            # an SDSS-I/II reduction: files are looked for under $SPECTRO_REDUX (unset here), not $BOSS_SPECTRO_REDUX
            d['run2d'] = '26'
            d['run1d'] = '26'
        elif variant == 'spplate_missing':
            rows[3] = (9999, 55555, 1)
        elif variant == 'fibre_absent':
            rows[5] = (3587, 55182, 300)
        text = ''.join('%s %s\n' % (k, d[k]) for k, _ in kw if k in d)
        # further keywords a parameter file may carry (ignored by the current tree): whatever the entry point does with them,
        # the environment has to come back
        text += ''.join('%s %s\n' % kv for kv in (('topdir', os.path.join(self.workdir, 'elsewhere', 'redux')),
                                                  ('spectro_redux', '/nonexistent/redux'), ('run', 'v9_9_9'),
                                                  ('photo_calib', '/nonexistent/calib'), ('outdir', self.workdir)))
        if variant != 'no_eigenobj_table':
            text += 'typedef struct {\n int plate;\n int mjd;\n int fiberid;\n double zfit;\n} EIGENOBJ;\n'
            text += ''.join('EIGENOBJ %d %d %d %g\n' % (pl, mj, f, z) for (pl, mj, f), z in zip(rows, g.uniform(0, 0.01, len(rows))))
        with open(path, 'w') as f:
            f.write(text)

    # ------------------------------------------------------------------ one monitored call
    def _monitored(self, codes, func, fault, watched=None):
        fp = Failpoints(codes) if watched is None else WatchedCalls(codes, watched)
        mode = fault['mode'] if fault['mode'] in ('line', 'call') else None
        exc = None
        before = dict(os.environ)
        self.audit.begin()
        fp.arm(mode, (fault.get('index', 0) + 1) if mode else None, EXC.get(fault.get('exc', ''), InjectedFault))
        try:
            try:
                with warnings.catch_warnings():
                    warnings.simplefilter('ignore')
                    with np.errstate(all='ignore'):
                        func()
            except Exception as e:
                exc = e
            except (KeyboardInterrupt, SystemExit) as e:
                if 'injected at' not in str(e) and 'stub' not in str(e):
                    raise                # a real interrupt of the harness, not an injected one
                exc = e
        finally:
            fp.disarm()
            events = self.audit.end()
        after = dict(os.environ)
        return before, after, events, exc, fp

    ENV_PRIMITIVES = ('_Environ.__setitem__', '_Environ.__delitem__', 'MutableMapping.pop', '_createenviron.<locals>.encode',
                      '_createenviron.<locals>.check_str', '_Environ.__getitem__')

    def _in_restore(self, fp):
        """did the injected fault hit the restoring statement / primitive itself?"""
        if fp.fired is None:
            return False
        if fp.fired[0] == 'line':
            return (fp.fired[1], fp.fired[2]) in self.restore_lines
        # a call fault: restoring primitive called from a restore line
        return fp.fired[1] in self.ENV_PRIMITIVES and bool(fp.line_seq) and tuple(fp.line_seq[-1]) in self.restore_lines

    def _verdict(self, out, before, after, events, touched, what, fp=None):
        diff = {k: (before.get(k), after.get(k)) for k in set(before) | set(after) if before.get(k) != after.get(k)}
        if fp is not None and fp.fired is not None and fp.fired[0] == 'line' and (fp.fired[1], fp.fired[2]) in self.keyword_lines:
            out.count('fault_point_is_a_keyword_line_skipped')
        elif diff and fp is not None and self._in_restore(fp):
            out.count('fault_hit_the_restore_statement_itself')
        else:
            out.expect(not diff, 'env-restored', '%s: environment differs after the call: %r' % (what, diff))
        env_events = [e for e in events if e[0] in ('os.putenv', 'os.unsetenv')]
        names = set()
        for e in env_events:
            k = e[1]
            names.add(k.decode() if isinstance(k, bytes) else str(k))
        out.expect(names <= set(touched), 'env-untouched', '%s: variables other than %s were written: %s' % (what, touched, sorted(names - set(touched))))
        out.count('putenv_events_observed', len(env_events))
        return env_events

    @staticmethod
    def _modified_at_fault(env_events, before, touched):
        """was a touched variable different from its entry value when the fault fired? (replay of the audit log)"""
        cur = {k: before.get(k) for k in touched}
        for e in env_events:
            k = e[1].decode() if isinstance(e[1], bytes) else str(e[1])
            if e[0] == 'os.putenv':
                v = e[2].decode() if isinstance(e[2], bytes) else str(e[2])
                cur[k] = v
            else:
                cur[k] = None
            if any(cur[t] != before.get(t) for t in touched):
                return True
        return False

    # ------------------------------------------------------------------ run
    def run(self, case, out):
        if case['entry'] == 'ws':
            self.run_ws(case, out)
        else:
            self.run_ti(case, out)

    def _clean_record(self, out, key, codes, func_factory, touched):
        """sequence lengths of the clean execution for this configuration (cached per process)"""
        if key not in self._clean:
            # recorded twice: the first (cold) run also contains import-machinery calls that later runs do not make
            for attempt in range(2):
                b, a, ev, exc, fp = self._monitored(codes, func_factory(), {'mode': 'none'})
                # the recording run is an observed execution too: whatever happened, the environment must be as before
                self._verdict(out, b, a, ev, touched, 'recording run %r (raised %r)' % (key, exc))
                if exc is not None:
                    break
            self._clean[key] = {'nline': len(fp.line_seq), 'ncall': len(fp.call_seq), 'calls': list(fp.call_seq), 'exc': repr(exc)}
        rec = self._clean[key]
        if rec['exc'] != 'None':
            # the pipeline does not run to completion on this tree: the fault points cannot be enumerated (not a C20 verdict)
            out.fail('harness-error', 'clean run of %r did not complete: %s' % (key, rec['exc']))
        return rec

    def _bystanders(self, case, out):
        env = bystander_env(case.get('bystanders'))
        out.count('runs_with_bystander_variables_absent_on_entry', any(v is None for v in env.values()))
        out.count('runs_with_bystander_variables_set_on_entry', any(v is not None for v in env.values()))
        return env

    def _scale_inputs(self, w, par, cfg, variant):
        """parameter file and an existing dump file of pre-processed spectra for a problem of the size in cfg['scale']"""
        sc = cfg['scale']
        n, m = sc['nobj'], sc['npix']
        self._par(par, cfg['method'], None, scale=sc)
        g = np.random.default_rng(sc['seed'])
        x = np.linspace(0.0, 1.0, m)
        basis = np.vstack([1.0 + 0 * x, 0.2 + x, np.sin(7 * x) ** 2, np.exp(-((x - 0.4) / 0.05) ** 2), np.cos(3 * x) ** 2])
        flux = g.uniform(0.5, 2.0, size=(n, 5)).dot(basis) + 0.01 * g.normal(size=(n, m))
        ivar = np.full((n, m), 100.0)
        # a few pixels without weight (never a whole column)
        ivar[g.integers(0, n, size=max(1, n // 4)), g.integers(0, m, size=max(1, n // 4))] = 0.0
        loglam = np.log10(3600.0) + 1.0e-4 * np.arange(m)
        d = {'newflux': flux, 'newivar': ivar, 'newloglam': loglam}
        if variant == 'dump_missing_key':
            del d['newivar']
        elif variant == 'dump_shape_mismatch':
            d['newivar'] = ivar[:, :-1]
        dump = os.path.join(w, 'dump.pkl')
        import pickle
        with open(dump, 'wb') as f:
            if variant == 'dump_not_a_pickle':
                f.write(b'SIMPLE  =                    T / not a pickle\n' * 40)
            else:
                pickle.dump(d, f)
        if variant == 'dump_truncated':
            with open(dump, 'r+b') as f:
                f.truncate(os.path.getsize(dump) // 2)
        if variant == 'outfile_is_directory':
            # the output file is named after the object type and today's MJD (the day before / after too: the run may straddle
            # midnight UTC); something that cannot be removed as a file has that name
            import time
            mjd = int(40587 + time.time() / 86400.0)
            for k in (mjd - 1, mjd, mjd + 1):
                os.makedirs(os.path.join(w, 'spEigen%s-%d.fits' % (sc['object'].title(), k)), exist_ok=True)
        return dump

    def run_ws(self, case, out):
        W = self.W
        fault = case['fault']
        nat = fault.get('natural')
        out.count('ws_runs')

        def factory():
            d = self._ws_dir(case.get('nfields', 3))
            os.environ['PHOTO_RESOLVE'] = d
            os.environ['PHOTO_CALIB'] = case['calib']
            self._stub.fail = False
            return lambda: W.window_score(rescore=case['rescore'])
        with self.ST.environment(self._bystanders(case, out), clear=('PHOTO_CALIB', 'PHOTO_RESOLVE')):
            rec = self._clean_record(out, ('ws', case['rescore']), self.ws_codes, factory, ['PHOTO_CALIB'])
            if out.fails:
                return
            out.expect(rec['nline'] <= NL_WS and rec['ncall'] <= NC_WS, 'harness-error',
                       'recorded path longer than the enumeration bounds (%d lines, %d calls)' % (rec['nline'], rec['ncall']))
            func = factory()
            if nat and nat.startswith('via_window_read+'):
                # the scoring entry point reached through its caller in the same module (flist requested, rescored file absent)
                func = lambda: W.window_read(flist=True, rescore=True)
                nat = nat[len('via_window_read+'):]
                out.count('window_score_reached_through_window_read')
            d = os.environ['PHOTO_RESOLVE']
            # a natural condition may combine several of these, joined by '+'
            for part in (nat.split('+') if nat else []):
                if part == 'calib_empty':
                    # set but empty on entry: a value like any other, to be found again on return
                    os.environ['PHOTO_CALIB'] = ''
                elif part == 'calib_unset':
                    del os.environ['PHOTO_CALIB']
                elif part == 'resolve_unset':
                    del os.environ['PHOTO_RESOLVE']
                elif part == 'flist_missing':
                    os.remove(os.path.join(d, 'window_flist.fits'))
                elif part == 'flist_truncated':
                    with open(os.path.join(d, 'window_flist.fits'), 'r+b') as f:
                        f.truncate(1000)
                elif part == 'rescore_exists':
                    shutil.copy(os.path.join(d, 'window_flist.fits'), os.path.join(d, 'window_flist_rescore.fits'))
                elif part == 'rescore_is_directory':
                    # the name of the output file is taken by something that can be neither written nor removed as a file
                    os.makedirs(os.path.join(d, 'window_flist_rescore.fits'))
                elif part == 'score_raises':
                    self._stub.fail = True
                elif part == 'score_exits':
                    self._stub.fail = 'exit'
                elif part == 'score_real':
                    # the real scoring stage: it builds per-field file names from the SDSS tree variables (none of which is
                    # set) and fails on the first file it cannot open
                    W.sdss_score = self._saved_score
                else:
                    raise KeyError(part)
            if fault['mode'] in ('line', 'call') and fault['index'] >= rec['n' + fault['mode']]:
                out.count('index_beyond_recorded_path')
                return
            try:
                before, after, events, exc, fp = self._monitored(self.ws_codes, func, fault)
            finally:
                W.sdss_score = self._stub
            self._stub.fail = False
            if nat == 'score_real':
                out.expect(exc is not None, 'harness-error', 'the real sdss_score ran to completion without any survey file')
                out.count('real_scoring_stage_failures', exc is not None)
            ev = self._verdict(out, before, after, events, ['PHOTO_CALIB'], 'window_score(rescore=%s) fault=%s' % (case['rescore'], fault), fp)
            self._account(out, case, fault, exc, fp, ev, before, ['PHOTO_CALIB'], rec)

    def run_ti(self, case, out):
        S1 = self.S1
        fault = case['fault']
        cfg = case['cfg']
        nat = fault.get('natural')
        # the session's configured matplotlib backend is part of the state of the process: 'backend_unloadable' (alone or combined
        # with another condition) names one that cannot be loaded on this machine (WebAgg without tornado, a module:// backend
        # that is not installed) while figures are drawn with the backend already loaded
        backend_unloadable = bool(nat) and 'backend_unloadable' in nat.split('+')
        if backend_unloadable:
            nat = '+'.join(p for p in nat.split('+') if p != 'backend_unloadable') or None
        out.count('ti_runs')
        tree = self._ti_tree()
        self._n += 1
        wd = os.path.join(self.workdir, 'ti%d' % self._n)
        os.makedirs(wd)
        env = {'BOSS_SPECTRO_REDUX': tree['topdir'], 'SPECTRO_MATCH': tree['match'], 'PHOTO_RESOLVE': tree['resolve'],
               'RUN2D': {True: ENTRY_RUN[cfg.get('entry', 0) % len(ENTRY_RUN)], False: None, 'empty': '', 'same': FILE_RUN}[cfg['init'][0]],
               'RUN1D': {True: ENTRY_RUN[(cfg.get('entry', 0) * 7 + 3) % len(ENTRY_RUN)], False: None, 'empty': '', 'same': FILE_RUN}[cfg['init'][1]]}
        out.count('entry_values_with_a_path_separator', sum(1 for k in ('RUN2D', 'RUN1D') if env[k] and '/' in env[k]))
        env.update(self._bystanders(case, out))
        scale = cfg.get('scale')

        def factory(variant=None, subdir='clean', scale=None):
            w = os.path.join(wd, subdir)
            os.makedirs(w, exist_ok=True)
            os.chdir(w)
            par = os.path.join(w, 'in.par')
            if scale:
                dump = self._scale_inputs(w, par, cfg, variant)
                return lambda: S1.template_input(par, dump, flux=scale['flux'], verbose=scale.get('verbose', False))
            if variant != 'par_missing':
                self._par(par, cfg['method'], variant)
            dump = os.path.join(w, 'dump.pkl') if variant != 'dump_unwritable' else os.path.join(w, 'no', 'such', 'dir', 'dump.pkl')
            return lambda: S1.template_input(par, dump)
        try:
            with self.ST.environment(env):
                if scale:
                    # no fault point is taken from a recording: the run completes or fails by itself
                    rec = {'nline': 0, 'ncall': 0}
                else:
                    rec = self._clean_record(out, ('ti', cfg['method'], tuple(cfg['init'])), self.ti_codes, factory, ['RUN2D', 'RUN1D'])
                if out.fails:
                    return
                out.expect(rec['nline'] <= NL_TI and rec['ncall'] <= NC_TI, 'harness-error',
                           'recorded path longer than the enumeration bounds (%d lines, %d calls)' % (rec['nline'], rec['ncall']))
                if fault['mode'] in ('line', 'call') and fault['index'] >= rec['n' + fault['mode']]:
                    out.count('index_beyond_recorded_path')
                    return
                func = factory(nat, 'run', scale)
                if nat == 'redux_unset':
                    os.environ.pop('BOSS_SPECTRO_REDUX', None)      # only for the faulted run, never for the recording run
                saved_plt = None
                if nat == 'no_matplotlib' and hasattr(S1, 'plt'):
                    # an installation without matplotlib: the module's import guard then leaves no global `plt` behind
                    saved_plt = S1.plt
                    del S1.plt
                saved_backend = None
                if backend_unloadable:
                    import matplotlib
                    saved_backend = matplotlib.rcParams['backend']
                    matplotlib.rcParams['backend'] = 'module://pydl_verif_backend_that_is_not_installed'
                    out.count('ti_runs_with_unloadable_configured_backend')
                from astropy import log as alog
                saved_level = alog.level
                try:
                    before, after, events, exc, fp = self._monitored(self.ti_codes, func, fault, self.solver_codes if scale else None)
                finally:
                    alog.setLevel(saved_level)          # verbose=True leaves the logger at DEBUG
                    if saved_plt is not None:
                        S1.plt = saved_plt
                    if saved_backend is not None:
                        matplotlib.rcParams['backend'] = saved_backend
                        import matplotlib.pyplot as _plt
                        _plt.switch_backend(saved_backend)
                what = 'template_input(method=%s, init=%s) fault=%s' % (cfg['method'], cfg['init'], fault)
                if scale:
                    what += ' dump file with %d spectra x %d pixels, niter %d, nonnegative %d, object %s, bystanders %s' % (
                        scale['nobj'], scale['npix'], scale['niter'], scale['nonnegative'], scale['object'], case.get('bystanders'))
                    out.count('ti_runs_from_an_existing_dump')
                    solved = [c for c in fp.call_seq if c in ('pca_solve', 'HMF.solve', 'template_qso')]
                    out.count('ti_runs_from_a_dump_that_reached_the_solver', bool(solved))
                    if solved and scale['npix'] >= 3500 and scale['niter'] >= 20:
                        out.count('realistic_scale_runs:' + cfg['method'] + ('_nonnegative' if scale['nonnegative'] else ''))
                    if solved and exc is not None and nat in LATE:
                        out.count('ti_runs_that_failed_after_the_solver')
                    out.info['scale'] = scale
                ev = self._verdict(out, before, after, events, ['RUN2D', 'RUN1D'], what, fp)
                self._account(out, case, fault, exc, fp, ev, before, ['RUN2D', 'RUN1D'], rec)
        finally:
            os.chdir(self._cwd0)
            shutil.rmtree(wd, ignore_errors=True)

    def _account(self, out, case, fault, exc, fp, env_events, before, touched, rec):
        mode = fault['mode']
        out.info.update(exception=repr(exc)[:200], fired=fp.fired, path=(rec['nline'], rec['ncall']))
        if mode == 'none':
            out.expect(exc is None, 'clean-run', 'unfaulted run raised %r' % (exc,))
            out.count('clean_runs_restored', exc is None)
            out.nontrivial = len(env_events) > 0
            return
        if mode in ('line', 'call'):
            if fp.fired is None:
                out.count('fault_not_reached')       # control flow changed (should not happen for index < recorded length)
                return
            out.count('line_faults_fired' if mode == 'line' else 'call_faults_fired')
            out.expect(exc is not None or True, 'fault', '')
            if mode == 'call':
                out.info['callee'] = fp.fired[1]
        else:
            out.count('natural_failures_seen', exc is not None)
            out.count('natural_condition_tolerated', exc is None)
        modified = self._modified_at_fault(env_events, before, touched)
        out.count('faults_while_env_modified', modified)
        out.nontrivial = modified

    def shard_extra(self):
        return {'x_paths': {str(k): {'nline': v['nline'], 'ncall': v['ncall'], 'direct_callees': sorted(set(v['calls']))}
                            for k, v in self._clean.items()}}

    def extra_evidence(self, merged):
        paths = {}
        for d in merged.get('x_paths', []):
            paths.update(d)
        return {'recorded_paths': paths,
                'fault_model': 'exception raised from sys.monitoring LINE / PY_START callbacks at every recorded point; natural failures'}

    def summarise(self, case):
        return case


CHECK = C20()
