"""C14 - IDL built-in replacements (smooth, median, uniq, rebin) follow IDL semantics.

Events: calls of pydl.smooth / pydl.median / pydl.uniq / pydl.rebin (boundary recorder on the package
attributes), return values and raised exception types.
Oracle: vlib/refs/idl_builtins.py - direct transcriptions of the IDL definitions (window means with
math.fsum, sorted-window medians, run scanning, exact integer pixel positions + long double / integer
interval arithmetic for REBIN).
"""
import numpy as np
from vlib.harness import Check, np_rng
from vlib.refs import idl_builtins as R

# relative tolerances (relative to the magnitude of the data entering the element, see report):
# float64: <= 64-term sums, 3 axes: worst case ~1e-14  -> 1e-12 ; float32: worst case ~4e-6 -> 1e-4
TOL = {'f8': 1e-12, 'f4': 1e-4}
INT_DTYPES = ['i1', 'u1', 'i2', 'u2', 'i4', 'i8']
MODES = 'EKS'      # expand / keep / shrink


def _prod(v):
    p = 1
    for a in v:
        p *= int(a)
    return p


def _floats(rng, n, dtype, style=None):
    g = np_rng(rng)
    style = style or rng.choice(['normal', 'normal', 'normal', 'ties', 'const', 'ramp', 'spiky'])
    if style == 'normal':
        a = g.normal(size=n) * rng.choice([1.0, 1.0, 1e-3, 50.0, 1e6])
    elif style == 'ties':
        a = g.integers(-3, 4, size=n).astype(float)
    elif style == 'const':
        a = np.full(n, rng.choice([0.0, 1.5, -7.25, 1e5]))
    elif style == 'ramp':
        a = np.arange(n) * rng.uniform(0.1, 3.0) * rng.choice([-1, 1]) + rng.uniform(-5, 5)
    else:
        a = g.normal(size=n)
        k = g.uniform(size=n) < 0.1
        a[k] *= 1e3
    return np.asarray(a, dtype=dtype).astype(float).tolist()


def _ints(rng, n, dtype, style=None):
    g = np_rng(rng)
    ii = np.iinfo(dtype)
    lo, hi = int(ii.min), int(ii.max)
    if dtype == 'i8':
        lo, hi = -2**40, 2**40
    style = style or rng.choice(['small', 'full', 'full', 'extremes', 'ties'])
    if style == 'small':
        a = np.rint(g.normal(size=n) * 50 + (60 if lo == 0 else 0))
    elif style == 'full':
        a = g.integers(lo, hi, size=n, endpoint=True)
    elif style == 'extremes':
        a = g.choice([lo, hi, 0, hi - 1, lo + 1], size=n)
    else:
        a = g.integers(0, 4, size=n)
    return [min(max(int(v), lo), hi) for v in a]


def _first_bad(mask):
    idx = np.argwhere(mask)
    return [int(v) for v in idx[0]] if len(idx) else None


class C14(Check):
    ID = 'C14'
    RULE = ('smooth: float64/float32 arrays of length 1-64 (thorough: 1-160; normal at several scales, ties, '
            'constants, ramps, spikes), every width 1..N even and odd, with and without edge truncation; median: '
            'whole-array 1-D/2-D with and without `even`, running 1-D (N 1-64, thorough 1-160) and 2-D (1-10 x 1-10, '
            'thorough 1-16 x 1-16, non-square) with every odd width that fits; uniq: ascending (some descending) int/float arrays built from runs incl. '
            'constant and length-1 arrays, and unsorted arrays with every kind of sorting index (random '
            'tie order, int32/int64, reversed/random permutations of constant arrays); rebin: 1-3-D, all 39 '
            'expand/keep/shrink combinations cycled by index, factors /2../8 and x2..x64, float64/float32/'
            'six integer dtypes (full-range values), sample on/off, all (d0<40, factor<70) pairs whose '
            'floating-point pixel position is fragile, a 1-D (d0, factor) grid, and non-integral factors / rank '
            'changes that must raise ValueError.  Non-trivial: smooth with made-odd width >= 3 that changes a '
            'point, median/uniq on >= 2 elements (running: at least one interior point), rebin with at least '
            'one axis resized or a refusal; distinct by hash of the materialised input.')
    ASSUMPTIONS = ['float results: |got-ref| <= tol * magnitude, tol 1e-12 (float64) / 1e-4 (float32); magnitude = '
                   'mean |x| over the window (smooth), max |x| of the input (rebin), max of the two middle values '
                   '(median /EVEN); untouched edges, medians, uniq subscripts and rebin /SAMPLE picks are compared exactly',
                   'integer dtypes without /SAMPLE: each axis may return any integer within 1 (inclusive) of the exact '
                   'rational value (DESIGN C14), propagated as intervals across axes; copies (unchanged axis, '
                   'clamped tail beyond the last sample, output pixel 0) are exact',
                   'domain: finite values, widths <= N (the made-odd width may be N+1), odd median widths <= smallest '
                   'dimension, requested dimensions >= 1, |int64 data| <= 2^40',
                   'uniq with an index on a constant array is read literally: the subscript of the last element in '
                   'index order (index[n-1]), not n-1']
    REQUIRED_COUNTERS = ('smooth_interior_points', 'smooth_edge_untouched_points', 'smooth_edge_truncated_points',
                         'smooth_width_made_odd', 'median_even_upper', 'median_even_mean', 'median_odd',
                         'run1d_interior_points', 'run2d_interior_points', 'run_edge_points',
                         'uniq_runs_longer_than_1', 'uniq_constant_arrays', 'uniq_constant_with_nonidentity_index',
                         'uniq_index_calls', 'rebin_lerp_fractional_positions', 'rebin_positions_exactly_on_a_sample',
                         'rebin_block_means', 'rebin_sample_calls', 'rebin_sample_fragile_pairs',
                         'rebin_mixed_expand_and_shrink', 'rebin_integer_dtype_cases',
                         'rebin_valueerror_nonintegral', 'rebin_valueerror_rank')
    REQUIRED_REACH = {'smooth.smooth': 0.95, 'uniq.uniq': 0.95, 'rebin.rebin': 0.95, 'median.median': 0.85}
    QUICK_SHARDS = 4

    # ------------------------------------------------------------------ wiring
    def setup(self):
        import pydl
        self.P = pydl
        for n in ('smooth', 'median', 'uniq', 'rebin'):
            self.reach.add(getattr(pydl, n))
            self.rec.wrap(pydl, n, label='pydl.' + n)
        self._fragile = None
        self._maxerr = {}

    def teardown(self):
        self.rec.unwrap_all()

    def shard_extra(self):
        return {'x_max_rel_err': dict(self._maxerr)}

    def extra_evidence(self, merged):
        tot = {}
        for d in merged.get('x_max_rel_err', []):
            for k, v in d.items():
                tot[k] = max(tot.get(k, 0.0), v)
        return {'max_observed_error_relative_to_magnitude': tot, 'tolerances': TOL}

    def _err(self, key, v):
        if v > self._maxerr.get(key, 0.0):
            self._maxerr[key] = float(v)

    def fragile(self):
        if self._fragile is None:
            self._fragile = R.float_fragile_pairs(40, 70)
        return self._fragile

    def budget(self, tier):
        q = tier == 'quick'
        nf = len(self.fragile())
        return {
            'smooth_plain': 3500 if q else 60000,
            'smooth_trunc': 3500 if q else 60000,
            'median_whole': 3000 if q else 50000,
            'median_run1d': 2500 if q else 40000,
            'median_run2d': 2000 if q else 30000,
            'uniq_sorted': 3000 if q else 50000,
            'uniq_index': 3500 if q else 60000,
            'rebin_float': 3000 if q else 45000,
            'rebin_int': 2400 if q else 36000,
            'rebin_fragile': 4 * nf if q else 24 * nf,
            'rebin_grid1d': 1000 if q else 39 * 69 * 2,
            'rebin_reject': 1200 if q else 12000,
        }

    # ------------------------------------------------------------------ generators
    def gen(self, cls, rng, i):
        N = 64 if self.tier == 'quick' else 160          # thorough: longer arrays, larger 2-D images
        N2 = 10 if self.tier == 'quick' else 16
        if cls in ('smooth_plain', 'smooth_trunc'):
            n = rng.randint(1, 8) if rng.random() < 0.35 else rng.randint(1, N)
            m = rng.random()
            if m < 0.15:
                w = n
            elif m < 0.25:
                w = max(1, n - 1)
            elif m < 0.35:
                w = min(n, rng.choice([1, 2, 3, 4, 5]))
            else:
                w = rng.randint(1, n)
            dt = rng.choice(['f8', 'f8', 'f4'])
            return {'fn': 'smooth', 'dtype': dt, 'x': _floats(rng, n, dt), 'w': w, 'trunc': cls == 'smooth_trunc',
                    'kwform': rng.random() < 0.5}
        if cls == 'median_whole':
            dt = rng.choice(['f8', 'f8', 'f4'])
            if rng.random() < 0.7:
                shape = [rng.randint(1, 8) if rng.random() < 0.4 else rng.randint(1, N)]
            else:
                shape = [rng.randint(1, 8), rng.randint(1, 8)]
            return {'fn': 'median', 'dtype': dt, 'shape': shape, 'x': _floats(rng, _prod(shape), dt),
                    'even': rng.random() < 0.5}
        if cls == 'median_run1d':
            dt = rng.choice(['f8', 'f8', 'f4'])
            n = rng.randint(1, 9) if rng.random() < 0.35 else rng.randint(1, N)
            ws = list(range(1, n + 1, 2))
            w = ws[-1] if rng.random() < 0.15 else rng.choice(ws)
            return {'fn': 'run1d', 'dtype': dt, 'x': _floats(rng, n, dt), 'w': w}
        if cls == 'median_run2d':
            dt = rng.choice(['f8', 'f8', 'f4'])
            nr, nc = rng.randint(1, N2), rng.randint(1, N2)
            if rng.random() < 0.3:
                nr, nc = max(nr, 3), max(nc, 3)
            ws = list(range(1, min(nr, nc) + 1, 2))
            w = ws[-1] if rng.random() < 0.2 else rng.choice(ws)
            return {'fn': 'run2d', 'dtype': dt, 'shape': [nr, nc], 'x': _floats(rng, nr * nc, dt), 'w': w}
        if cls in ('uniq_sorted', 'uniq_index'):
            return self._gen_uniq(cls, rng, i)
        if cls == 'rebin_float':
            dt = rng.choice(['f8', 'f8', 'f4'])
            shape, d, modes = self._geometry(rng, i)
            return {'fn': 'rebin', 'dtype': dt, 'shape': shape, 'd': d, 'modes': modes, 'sample': rng.random() < 0.35,
                    'x': _floats(rng, _prod(shape), dt, rng.choice(['normal', 'normal', 'ramp', 'spiky', 'ties']))}
        if cls == 'rebin_int':
            dt = INT_DTYPES[i % len(INT_DTYPES)]
            shape, d, modes = self._geometry(rng, i // len(INT_DTYPES), single=rng.random() < 0.5)
            return {'fn': 'rebin', 'dtype': dt, 'shape': shape, 'd': d, 'modes': modes, 'sample': rng.random() < 0.25,
                    'x': _ints(rng, _prod(shape), dt)}
        if cls == 'rebin_fragile':
            L = self.fragile()
            d0, fac = L[i % len(L)]
            rnd = i // len(L)
            dt = ['f8', 'i4', 'f4', 'u1', 'f8', 'i2'][rnd % 6]
            x = sorted(set(_ints(rng, d0, dt, 'full'))) if dt[0] in 'iu' else sorted(_floats(rng, d0, dt, 'normal'))
            while len(x) < d0:
                x.append(x[-1])
            if rng.random() < 0.5:
                x.reverse()
            return {'fn': 'rebin', 'dtype': dt, 'shape': [d0], 'd': [d0 * fac], 'modes': 'E', 'sample': rnd % 2 == 0,
                    'x': x, 'fragile': True}
        if cls == 'rebin_grid1d':
            ncell = 39 * 69
            j = (i * 6911) % ncell if self.tier == 'quick' else i % ncell
            d0, fac = 1 + j % 39, 2 + j // 39
            sample = True if self.tier == 'quick' else (i // ncell) % 2 == 0
            dt = rng.choice(['f8', 'i4', 'f4'])
            x = _ints(rng, d0, dt, 'full') if dt[0] == 'i' else _floats(rng, d0, dt, 'normal')
            return {'fn': 'rebin', 'dtype': dt, 'shape': [d0], 'd': [d0 * fac], 'modes': 'E', 'sample': sample, 'x': x}
        if cls == 'rebin_reject':
            return self._gen_reject(rng, i)
        raise KeyError(cls)

    def _gen_uniq(self, cls, rng, i):
        dt = rng.choice(['i8', 'i4', 'f8', 'f4', 'i2'])
        m = rng.random()
        if m < 0.12:
            nruns = 1
        elif m < 0.2:
            nruns = 2
        else:
            nruns = rng.randint(1, 20)
        maxlen = rng.choice([1, 2, 3, 6])
        lens = [rng.randint(1, maxlen) for _ in range(nruns)]
        if nruns == 1 and rng.random() < 0.7:
            lens = [rng.randint(1, 12)]
        # strictly increasing distinct values
        if dt[0] == 'i':
            v = rng.randint(-50, 50)
            vals = []
            for _ in range(nruns):
                vals.append(v)
                v += rng.choice([1, 1, 2, 7, 100])
        else:
            pool = sorted(set(_floats(rng, 3 * nruns + 3, dt, 'normal')))
            nruns = min(nruns, len(pool))
            lens = lens[:nruns]
            start = rng.randint(0, len(pool) - nruns)
            vals = pool[start:start + nruns]
            if rng.random() < 0.3 and nruns >= 2:     # neighbours one ulp apart still differ
                k = rng.randrange(nruns - 1)
                vals[k + 1] = float(np.nextafter(np.dtype(dt).type(vals[k]), np.dtype(dt).type(np.inf)))
                vals = sorted(set(vals))
                lens = lens[:len(vals)]
        xs = []
        for v, l in zip(vals, lens):
            xs += [v] * l
        n = len(xs)
        if cls == 'uniq_sorted':
            if rng.random() < 0.15:
                xs.reverse()
            return {'fn': 'uniq', 'dtype': dt, 'x': xs, 'index': None}
        # an unsorted array and an index that sorts it (ties in random order)
        perm = list(range(n))
        rng.shuffle(perm)
        x = [None] * n
        for pos, src in zip(perm, range(n)):
            x[pos] = xs[src]
        tie = rng.choice(['random', 'random', 'stable', 'reverse-stable'])
        keys = {'random': lambda j: (x[j], rng.random()), 'stable': lambda j: (x[j], j),
                'reverse-stable': lambda j: (x[j], -j)}[tie]
        index = sorted(range(n), key=keys)
        if len(vals) == 1:
            how = rng.choice(['reversed', 'random', 'identity', 'rotated'])
            index = list(range(n))
            if how == 'reversed':
                index.reverse()
            elif how == 'random':
                rng.shuffle(index)
            elif how == 'rotated' and n > 1:
                r = rng.randrange(1, n)
                index = index[r:] + index[:r]
        return {'fn': 'uniq', 'dtype': dt, 'x': x, 'index': index, 'idtype': rng.choice(['i8', 'i8', 'i4'])}

    def _factor(self, rng):
        m = rng.random()
        if m < 0.55:
            return rng.randint(2, 8)
        if m < 0.85:
            return rng.randint(9, 64)
        return rng.choice([7, 14, 23, 28, 46, 49, 56, 64, 63, 3, 5])

    def _geometry(self, rng, i, single=False):
        """all 3 + 9 + 27 expand/keep/shrink combinations are cycled through by the case index"""
        combos = [a for a in MODES] + [a + b for a in MODES for b in MODES] + \
                 [a + b + c for a in MODES for b in MODES for c in MODES]
        modes = combos[i % len(combos)]
        if single:
            k = rng.randrange(len(modes))
            modes = ''.join(m if j == k else 'K' for j, m in enumerate(modes))
            if modes[k] == 'K':
                modes = modes[:k] + rng.choice('ES') + modes[k + 1:]
        cap_out = {1: 4000, 2: 12000, 3: 16000}[len(modes)]
        for attempt in range(200):
            shape, d = [], []
            for m in modes:
                base = rng.randint(1, 6 if len(modes) > 1 else 24)
                if m == 'E':
                    f = self._factor(rng) if attempt < 100 else rng.randint(2, 4)
                    shape.append(base)
                    d.append(base * f)
                elif m == 'K':
                    shape.append(base)
                    d.append(base)
                else:
                    f = rng.randint(2, 8)
                    shape.append(base * f)
                    d.append(base)
            sizes = [_prod(d[:k + 1] + shape[k + 1:]) for k in range(len(modes))]
            if _prod(shape) <= 6000 and max(sizes) <= cap_out:
                break
        return shape, d, modes

    def _gen_reject(self, rng, i):
        nd = rng.randint(1, 3)
        why = ['expand', 'shrink', 'rank+', 'rank-', 'expand', 'shrink'][i % 6]
        shape, d = [], []
        for _ in range(nd):
            base = rng.randint(1, 6)
            m = rng.choice(MODES)
            if m == 'E':
                shape.append(base)
                d.append(base * rng.randint(2, 9))
            elif m == 'K':
                shape.append(base)
                d.append(base)
            else:
                shape.append(base * rng.randint(2, 6))
                d.append(base)
        k = rng.randrange(nd)
        if why == 'expand':
            d0 = rng.randint(2, 12)
            shape[k] = d0
            d[k] = d0 * rng.randint(1, 8) + rng.randint(1, d0 - 1)
        elif why == 'shrink':
            d0 = rng.randint(3, 48)
            cands = [c for c in range(2, d0) if d0 % c != 0]
            shape[k] = d0
            d[k] = rng.choice(cands)
        elif why == 'rank+':
            extra = rng.choice([1, 1, 2, rng.randint(1, 5)])
            pos = rng.choice([0, len(d)])
            d = d[:pos] + [extra] + d[pos:]
            if rng.random() < 0.3:
                d = [_prod(shape)] + [1] * len(shape)      # same number of elements, still a rank change
        else:
            if nd == 1:
                nd = 2
                shape = shape + [rng.randint(1, 4)]
                d = d + [shape[1]]
            drop = rng.randrange(len(d))
            if rng.random() < 0.4:
                d = [_prod(shape)]                          # flattening request
            else:
                d = d[:drop] + d[drop + 1:]
        return {'fn': 'rebin_reject', 'why': why, 'shape': shape, 'd': d, 'dtype': rng.choice(['f8', 'i4', 'f4', 'u1']),
                'sample': rng.random() < 0.3}

    # ------------------------------------------------------------------ run
    def run(self, case, out):
        getattr(self, '_run_' + case['fn'])(case, out)

    def _run_smooth(self, case, out):
        dt = case['dtype']
        x = np.array(case['x'], dtype=dt)
        x0 = x.copy()
        w = case['w']
        if case['trunc']:
            r = self.P.smooth(x, w, edge_truncate=True) if case['kwform'] else self.P.smooth(x, w, True)
        else:
            r = self.P.smooth(x, w, edge_truncate=False) if case['kwform'] else self.P.smooth(x, w)
        if not out.expect(isinstance(r, np.ndarray) and r.shape == x0.shape, 'smooth-shape',
                          'result is not an array of the input shape', got=getattr(r, 'shape', None)):
            return
        val, kind, scale = R.smooth_ref([float(v) for v in x0], w, case['trunc'])
        tol = TOL[dt]
        if w % 2 == 0:
            out.count('smooth_width_made_odd')
        nk = {'same': 0, 'interior': 0, 'edge': 0}
        for i, (v, k, s) in enumerate(zip(val, kind, scale)):
            g = float(r[i])
            nk[k] += 1
            if k == 'same':
                out.expect(g == v, 'smooth-edge-untouched',
                           'point %d of %d (width %d) must be left untouched: got %r, input %r' % (i, len(val), w, g, v),
                           i=i)
            else:
                err = abs(g - v)
                ok = err <= tol * s
                if s > 0:
                    self._err('smooth_' + dt, err / s)
                out.expect(ok, 'smooth-interior' if k == 'interior' else 'smooth-edge-truncate',
                           'point %d of %d (width %d -> %d, %s): got %r, window mean %r' % (
                               i, len(val), w, R.odd_width(w), k, g, v), i=i, err=err, scale=s)
        W = R.odd_width(w)
        if W >= 3:
            out.count('smooth_interior_points', nk['interior'])
            out.count('smooth_edge_untouched_points', nk['same'])
            out.count('smooth_edge_truncated_points', nk['edge'])
            if W > len(val):
                out.count('smooth_made_odd_width_exceeds_n')
        out.nontrivial = W >= 3 and (nk['interior'] + nk['edge']) > 0
        out.info['n'], out.info['width'] = len(val), W

    def _run_median(self, case, out):
        dt = case['dtype']
        x = np.array(case['x'], dtype=dt).reshape(case['shape'])
        r = self.P.median(x, even=True) if case['even'] else self.P.median(x)
        exp, how, (lo, hi) = R.median_ref([float(v) for v in x.ravel()], case['even'])
        if not out.expect(np.ndim(r) == 0, 'median-scalar', 'whole-array median is not a scalar', got=repr(r)[:200]):
            return
        g = float(r)
        if how == 'even-mean':
            mag = max(abs(lo), abs(hi))
            err = abs(g - exp)
            if mag > 0:
                self._err('median_even_' + dt, err / mag)
            out.expect(err <= TOL[dt] * mag, 'median-even-mean',
                       'even count with even=True: got %r, mean of middle values (%r, %r) = %r' % (g, lo, hi, exp))
            out.count('median_even_mean')
            if lo != hi:
                out.count('median_even_mean_distinct_middle')
        elif how == 'even-upper':
            out.expect(g == exp, 'median-even-upper',
                       'even count: got %r, IDL median is the upper middle element %r (lower %r)' % (g, hi, lo))
            out.count('median_even_upper')
            if lo != hi:
                out.count('median_even_upper_distinct_middle')
        else:
            out.expect(g == exp, 'median-odd', 'odd count: got %r, middle element %r' % (g, exp))
            out.count('median_odd')
        out.nontrivial = x.size >= 2
        out.info['n'], out.info['how'] = int(x.size), how

    def _cmp_running(self, out, r, x0, exp, inner, tag, w):
        if not out.expect(isinstance(r, np.ndarray) and r.shape == x0.shape, tag + '-shape',
                          'result is not an array of the input shape', got=getattr(r, 'shape', None)):
            return 0
        e = np.array(exp, dtype=float).reshape(x0.shape)
        m = np.array(inner, dtype=bool).reshape(x0.shape)
        g = np.asarray(r, dtype=float)
        bad_in = (g != e) & m
        bad_edge = (g != e) & ~m
        out.expect(not bad_in.any(), tag + '-interior',
                   'running median (width %d) differs from the window median at %s' % (w, _first_bad(bad_in)),
                   got=g, expected=e)
        out.expect(not bad_edge.any(), tag + '-edge-untouched',
                   'edge point %s (width %d) is not the input value' % (_first_bad(bad_edge), w), got=g, input=x0)
        out.count('run_edge_points', int((~m).sum()))
        return int(m.sum())

    def _run_run1d(self, case, out):
        x = np.array(case['x'], dtype=case['dtype'])
        x0 = x.copy()
        r = self.P.median(x, case['w'])
        exp, inner = R.running_median_1d([float(v) for v in x0], case['w'])
        n = self._cmp_running(out, r, x0, exp, inner, 'run1d', case['w'])
        out.count('run1d_interior_points', n)
        if case['w'] >= 3 and n:
            out.count('run1d_width_ge3_cases')
        out.nontrivial = n > 0 and x0.size >= 2
        out.info['n'], out.info['w'] = int(x0.size), case['w']

    def _run_run2d(self, case, out):
        x = np.array(case['x'], dtype=case['dtype']).reshape(case['shape'])
        x0 = x.copy()
        r = self.P.median(x, width=case['w'])
        exp, inner = R.running_median_2d([[float(v) for v in row] for row in x0], case['w'])
        n = self._cmp_running(out, r, x0, exp, inner, 'run2d', case['w'])
        out.count('run2d_interior_points', n)
        if case['shape'][0] != case['shape'][1] and case['w'] >= 3:
            out.count('run2d_nonsquare_width_ge3')
        out.nontrivial = n > 0 and x0.size >= 2
        out.info['shape'], out.info['w'] = case['shape'], case['w']

    def _run_uniq(self, case, out):
        x = np.array(case['x'], dtype=case['dtype'])
        idx = case['index']
        if idx is None:
            r = self.P.uniq(x)
        else:
            r = self.P.uniq(x, np.array(idx, dtype=case['idtype']))
            out.count('uniq_index_calls')
        exp = R.uniq_ref(case['x'], idx)
        ok = isinstance(r, np.ndarray) and r.ndim == 1 and r.dtype.kind in 'iu'
        if not out.expect(ok, 'uniq-type', 'result is not a 1-D integer array', got=repr(r)[:200]):
            return
        got = [int(v) for v in r]
        n = len(case['x'])
        const = len(exp) == 1
        clause = 'uniq-sorted' if idx is None else ('uniq-index-constant' if const else 'uniq-index')
        out.expect(got == exp, clause,
                   'subscripts of the last element of each run: got %r expected %r' % (got[:20], exp[:20]),
                   x=case['x'], index=idx)
        if const:
            out.count('uniq_constant_arrays')
            if idx is not None and idx[-1] != n - 1:
                out.count('uniq_constant_with_nonidentity_index')
        if len(exp) < n:
            out.count('uniq_runs_longer_than_1')
        out.count('uniq_runs', len(exp))
        out.nontrivial = n >= 2
        out.info['n'], out.info['runs'] = n, len(exp)

    def _run_rebin(self, case, out):
        dt = case['dtype']
        x = np.array(case['x'], dtype=dt).reshape(case['shape'])
        x0 = x.copy()
        d = tuple(int(v) for v in case['d'])
        sample = case['sample']
        r = self.P.rebin(x, d, sample=True) if sample else self.P.rebin(x, d)
        ok = out.expect(isinstance(r, np.ndarray) and tuple(r.shape) == d, 'rebin-shape',
                        'result shape %r is not the requested %r' % (getattr(r, 'shape', None), d))
        if not ok:
            return
        out.expect(r.dtype == x0.dtype, 'rebin-dtype', 'result dtype %s, input dtype %s' % (r.dtype, x0.dtype))
        plans = [R.axis_plan(x0.shape[k], d[k], sample) for k in range(x0.ndim)]
        if sample:
            exp = R.rebin_pick_ref(x0, d)
            bad = np.asarray(r) != exp
            b = _first_bad(bad)
            out.expect(b is None, 'rebin-sample',
                       'sample=True must pick input pixel floor(i*d0/d) on every axis: first wrong element %s got %r expected %r'
                       % (b, r[tuple(b)].item() if b else None, exp[tuple(b)].item() if b else None), shape=case['shape'], d=list(d))
            out.count('rebin_sample_calls')
            if case.get('fragile'):
                out.count('rebin_sample_fragile_pairs')
            for k, p in enumerate(plans):
                if d[k] > x0.shape[k]:
                    out.count('rebin_sample_expand_axes')
                elif d[k] < x0.shape[k]:
                    out.count('rebin_sample_shrink_axes')
        elif dt[0] == 'f':
            ref = R.rebin_float_ref(x0, d, False)
            mag = float(np.max(np.abs(x0))) if x0.size else 0.0
            err = np.abs(np.asarray(r, dtype=np.longdouble) - ref)
            if mag > 0:
                self._err('rebin_' + dt, float(err.max()) / mag)
            bad = ~(err <= TOL[dt] * mag)
            b = _first_bad(bad)
            out.expect(b is None, 'rebin-float',
                       'first element off by more than %g*max|x|: %s got %r expected %r' % (
                           TOL[dt], b, r[tuple(b)].item() if b else None, float(ref[tuple(b)]) if b else None),
                       shape=case['shape'], d=list(d), max_err=float(err.max()), magnitude=mag)
        else:
            lo, hi = R.rebin_int_bounds(x0, d)
            ro = np.asarray(r).astype(object)
            bad = np.array(ro < lo, dtype=bool) | np.array(ro > hi, dtype=bool)
            b = _first_bad(bad)
            out.expect(b is None, 'rebin-integer',
                       'first element farther than 1 from the exact value: %s got %r allowed [%r, %r]' % (
                           b, r[tuple(b)].item() if b else None, lo[tuple(b)] if b else None, hi[tuple(b)] if b else None),
                       shape=case['shape'], d=list(d), dtype=dt)
            out.count('rebin_integer_elements_with_point_interval', int(np.array(lo == hi, dtype=bool).sum()))
        if dt[0] in 'iu':
            out.count('rebin_integer_dtype_cases')
        if not sample:
            for k, p in enumerate(plans):
                frac, onpix, means = R.plan_stats(p, x0.shape[k])
                out.count('rebin_lerp_fractional_positions', frac)
                out.count('rebin_positions_exactly_on_a_sample', onpix)
                out.count('rebin_block_means', means)
        modes = ''.join('E' if d[k] > x0.shape[k] else ('K' if d[k] == x0.shape[k] else 'S') for k in range(x0.ndim))
        out.count('rebin_combo_' + modes)
        if 'E' in modes and 'S' in modes:
            out.count('rebin_mixed_expand_and_shrink')
        out.nontrivial = modes.strip('K') != ''
        out.info['modes'], out.info['shape'], out.info['d'] = modes, case['shape'], list(d)

    def _run_rebin_reject(self, case, out):
        dt = case['dtype']
        shape = case['shape']
        x = (np.arange(_prod(shape)) % 200).astype(dt).reshape(shape)
        d = tuple(int(v) for v in case['d'])
        rank = case['why'] in ('rank+', 'rank-')
        clause = 'rebin-valueerror-rank' if rank else 'rebin-valueerror-nonintegral'
        try:
            r = self.P.rebin(x, d, sample=case['sample'])
        except ValueError:
            out.checks += 1
            out.count('rebin_valueerror_rank' if rank else 'rebin_valueerror_nonintegral')
            out.count('rebin_reject_' + case['why'])
        except Exception as e:
            out.fail(clause, 'rebin%r -> %r raised %s instead of ValueError: %s' % (tuple(shape), d, type(e).__name__, e))
        else:
            out.fail(clause, 'rebin%r -> %r returned an array of shape %r instead of raising ValueError' % (
                tuple(shape), d, getattr(r, 'shape', None)))
        out.nontrivial = True
        out.info['shape'], out.info['d'], out.info['why'] = shape, list(d), case['why']

    def classify(self, case, out):
        # open finding F-I3 (IDL-faithful): uniq(x, index) on a constant array returns n-1, not index[n-1]
        if out.fails and all(f['clause'] == 'uniq-index-constant' for f in out.fails):
            return 'uniq_constant_with_index'
        return None

    def summarise(self, case):
        c = dict(case)
        if isinstance(c.get('x'), list) and len(c['x']) > 24:
            c['x'] = c['x'][:24] + ['... %d values in all' % len(case['x'])]
        if isinstance(c.get('index'), list) and len(c['index']) > 24:
            c['index'] = c['index'][:24] + ['...']
        return c


CHECK = C14()
