"""C14 - IDL built-in replacements (smooth, median, uniq, rebin) follow IDL semantics.

Events: calls of pydl.smooth / pydl.median / pydl.uniq / pydl.rebin (boundary recorder on the package
attributes), return values and raised exception types.
Oracle: vlib/refs/idl_builtins.py - direct transcriptions of the IDL definitions (window means with
math.fsum, sorted-window medians, run scanning, exact integer pixel positions + long double / integer
interval arithmetic for REBIN).
"""
import copy
import numpy as np
from vlib.harness import Check, np_rng
from vlib.refs import idl_builtins as R

# relative tolerances (relative to the magnitude of the data entering the element, see report):
# float64: <= 64-term sums, 3 axes: worst case ~1e-14  -> 1e-12 ; float32: worst case ~4e-6 -> 1e-4
TOL = {'f8': 1e-12, 'f4': 1e-4}
INT_DTYPES = ['i1', 'u1', 'i2', 'u2', 'i4', 'i8']
MODES = 'EKS'      # expand / keep / shrink


def _prod(v):
    p = 1
    for a in v:
        p *= int(a)
    return p


def _floats(rng, n, dtype, style=None):
    g = np_rng(rng)
    style = style or rng.choice(['normal', 'normal', 'normal', 'ties', 'const', 'ramp', 'spiky'])
    if style == 'normal':
        a = g.normal(size=n) * rng.choice([1.0, 1.0, 1e-3, 50.0, 1e6])
    elif style == 'ties':
        a = g.integers(-3, 4, size=n).astype(float)
    elif style == 'const':
        a = np.full(n, rng.choice([0.0, 1.5, -7.25, 1e5]))
    elif style == 'ramp':
        a = np.arange(n) * rng.uniform(0.1, 3.0) * rng.choice([-1, 1]) + rng.uniform(-5, 5)
    else:
        a = g.normal(size=n)
        k = g.uniform(size=n) < 0.1
        a[k] *= 1e3
    return np.asarray(a, dtype=dtype).astype(float).tolist()


def _inject(rng, xs, kinds, p):
    """with probability p replace 1-3 elements by special values (IEEE semantics of the property are defined
    for them: a window mean with an infinity is that infinity, an order statistic / pick is the element)"""
    if xs and rng.random() < p:
        for _ in range(rng.randint(1, 3)):
            xs[rng.randrange(len(xs))] = {'+inf': float('inf'), '-inf': float('-inf'), 'nan': float('nan')}[rng.choice(kinds)]
    return xs


def _inject_nd(rng, xs, shape, d, p):
    """with probability p put +-inf / NaN at the first index, the last index or the interior of an axis
    (preferring an enlarged axis: the clamped tail must repeat a non-finite last pixel)"""
    if not xs or rng.random() >= p:
        return xs
    nd = len(shape)
    for _ in range(rng.choice([1, 1, 2])):
        enl = [k for k in range(nd) if d[k] > shape[k]]
        k = rng.choice(enl) if enl and rng.random() < 0.8 else rng.randrange(nd)
        idx = [rng.randrange(n) for n in shape]
        where = rng.choice(['last', 'last', 'first', 'interior'])
        if where == 'last':
            idx[k] = shape[k] - 1
        elif where == 'first':
            idx[k] = 0
        flat = 0
        for n, j in zip(shape, idx):
            flat = flat * n + j
        xs[flat] = rng.choice([float('inf'), float('inf'), float('-inf'), float('nan')])
    return xs


def _flag(value, form):
    """an option given as bool, int or numpy bool"""
    return {'bool': bool(value), 'int': int(bool(value)), 'npbool': np.bool_(value)}[form or 'bool']


def _nonfinite(xs):
    return any(v != v or v in (float('inf'), float('-inf')) for v in xs)


def _eqnan(a, b):
    """element-wise: equal, or both NaN"""
    a, b = np.asarray(a), np.asarray(b)
    eq = a == b
    if a.dtype.kind == 'f' and b.dtype.kind == 'f':
        eq = eq | (np.isnan(a) & np.isnan(b))
    return eq


def _ints(rng, n, dtype, style=None):
    g = np_rng(rng)
    ii = np.iinfo(dtype)
    lo, hi = int(ii.min), int(ii.max)
    if dtype == 'i8':
        lo, hi = -2**40, 2**40
    style = style or rng.choice(['small', 'full', 'full', 'extremes', 'ties'])
    if style == 'small':
        a = np.rint(g.normal(size=n) * 50 + (60 if lo == 0 else 0))
    elif style == 'full':
        a = g.integers(lo, hi, size=n, endpoint=True)
    elif style == 'extremes':
        a = g.choice([lo, hi, 0, hi - 1, lo + 1], size=n)
    else:
        a = g.integers(0, 4, size=n)
    return [min(max(int(v), lo), hi) for v in a]


# Memory layouts / flags under which the same values are presented to the functions.  The property is about
# values, so every layout must give the result of the C-contiguous native-endian copy (and the reference).
LAYOUTS_1D = ('step2', 'step3off1', 'column', 'reversed', 'readonly', 'bigendian', 'readonly_step2',
              'bigendian_column', 'bigendian_reversed')
LAYOUTS_ND = ('fortran', 'transposed', 'strided', 'reversed', 'readonly', 'bigendian', 'bigendian_fortran',
              'readonly_strided', 'bigendian_transposed')


def _junk(shape, dtype):
    """filler for the gaps of a strided base array: values unrelated to the data, valid in every dtype"""
    n = _prod(shape)
    if np.dtype(dtype).kind in 'US':
        return np.array(['zz', 'Q', 'filler'] * n)[:n].astype(dtype).reshape(shape)
    if np.dtype(dtype).kind == 'f':
        a = (np.arange(n) * 1.37 + 1000.5) * np.where(np.arange(n) % 2, -1.0, 1.0)
    else:
        a = (np.arange(n) * 37 + 11) % 100
    return a.astype(dtype).reshape(shape)


def _layout(a, layout):
    """(view, base): `view` holds exactly the values of the C-contiguous array `a` but lives in memory as
    described by `layout`; `base` owns the memory (incl. the filler between the samples of a strided view)."""
    a = np.ascontiguousarray(a)
    parts = layout.split('_')
    geo = [q for q in parts if q not in ('readonly', 'bigendian', 'contig')]
    geo = geo[0] if geo else None
    dt = a.dtype.newbyteorder('>') if 'bigendian' in parts else a.dtype
    nd = a.ndim
    n = a.shape[0]
    if geo in ('step2', 'step3off1', 'column') and nd != 1:
        geo = 'strided'
    if geo is None or (geo in ('fortran', 'transposed') and nd == 1):
        base = a.astype(dt)
        sl = lambda b: b
    elif geo == 'step2':
        base = _junk((2 * n,), dt)
        sl = lambda b: b[::2]
    elif geo == 'step3off1':
        base = _junk((3 * n + 1,), dt)
        sl = lambda b: b[1::3]
    elif geo == 'column':
        base = _junk((n, 3), dt)
        sl = lambda b: b[:, 1]
    elif geo == 'strided':
        base = _junk(tuple(2 * v + 1 for v in a.shape), dt)
        sl = lambda b: b[(slice(1, None, 2),) * nd]
    elif geo == 'reversed':
        base = np.ascontiguousarray(a[(slice(None, None, -1),) * nd]).astype(dt)
        sl = lambda b: b[(slice(None, None, -1),) * nd]
    elif geo == 'fortran':
        base = np.asfortranarray(a.astype(dt))
        sl = lambda b: b
    elif geo == 'transposed':
        perm = tuple(range(1, nd)) + (0,)
        inv = tuple(int(v) for v in np.argsort(perm))
        base = np.ascontiguousarray(a.transpose(perm)).astype(dt)
        sl = lambda b: b.transpose(inv)
    else:
        raise KeyError(layout)
    if geo in ('step2', 'step3off1', 'column', 'strided'):
        sl(base)[...] = a
    if 'readonly' in parts:
        base.setflags(write=False)
    view = sl(base)
    if view.shape != a.shape or not bool(np.all(_eqnan(view, a))):
        raise AssertionError('layout helper broke the values (%s)' % layout)
    return view, base


def _pick_layout(rng, nd):
    if rng.random() < 0.4:
        return 'contig'
    return rng.choice(LAYOUTS_1D if nd == 1 else LAYOUTS_ND)


def _same_kind(d1, d2):
    return d1.kind == d2.kind and d1.itemsize == d2.itemsize


def _first_bad(mask):
    idx = np.argwhere(mask)
    return [int(v) for v in idx[0]] if len(idx) else None


class C14(Check):
    ID = 'C14'
    RULE = ('smooth: float64/float32 arrays of length 1-64 (thorough: 1-160; normal at several scales, ties, '
            'constants, ramps, spikes), every width 1..N even and odd, with and without edge truncation; median: '
            'whole-array 1-D/2-D with and without `even`, running 1-D (N 1-64, thorough 1-160) and 2-D (1-10 x 1-10, '
            'thorough 1-16 x 1-16, non-square) with every odd width that fits; uniq: ascending (some descending) int/float arrays built from runs incl. '
            'constant and length-1 arrays, and unsorted arrays with every kind of sorting index (random '
            'tie order, int32/int64, reversed/random permutations of constant arrays); rebin: 1-3-D, all 39 '
            'expand/keep/shrink combinations cycled by index, factors /2../8 and x2..x64, float64/float32/'
            'six integer dtypes (full-range values), sample on/off, all (d0<40, factor<70) pairs whose '
            'floating-point pixel position is fragile, a 1-D (d0, factor) grid, and non-integral factors / rank '
            'changes that must raise ValueError.  Every array (and uniq index) is presented, in 60 % of the cases, not as '
            'a fresh C-contiguous array but as a view/flag variant holding the same values: y[::2], y[1::3], a column of a '
            '2-D array, reversed views, Fortran-ordered / transposed / every-other-element 2-D and 3-D arrays, read-only and '
            'big-endian arrays and combinations; the result must meet the reference, equal the result for the contiguous '
            'copy, and the input memory (incl. the filler between strided samples) must be byte-identical afterwards.  '
            'Special values are standing members of the classes: smooth inputs with +-inf/NaN (window mean by IEEE rules: '
            'that infinity, NaN for both signs or a NaN; windows beside them must stay finite and right), width 0; medians and '
            'running medians with +-inf; uniq on runs of equal -inf/+inf, sorted bool, str, bytes and uint8 (0/255) arrays; '
            'rebin sample=True on +-inf/NaN and bool arrays; option flags given as bool, int or numpy bool, width as numpy int.  '
            'rebin_bigfactor: one axis shrunk or enlarged by a factor 2..200 (every value both ways at thorough; at quick '
            'every factor of a pool of float-fragile ones - 49, 93, 98, 99, 103, 105, 107, 117, 123, 186, 196, ... - both ways '
            'plus a spread) on lengths factor*m, m=1..4, 1-D or as one axis of 2-D/3-D, sample on/off, int and float dtypes; '
            'rebin_reject also asks for almost integral ratios at those sizes (98 -> 3, 99 -> 2, 3 -> 148).  Lengths 1 and 2, '
            'a few long arrays (200-1000) and, for smooth without truncation, widths beyond the array (every point stays '
            'untouched) are standing members.  '
            'Degenerate shapes with unit dimensions are standing members: running 2-D median on (1,N), (N,1), (1,1) and '
            'with a width between the two dimensions (no w x w window fits: every pixel untouched), whole-array and axis '
            'medians on (1,N), (N,1), (1,1), (1,N,1), (N,1,1), (1,1,N) and 3-D arrays, rebin on such shapes with the unit '
            'axes kept, enlarged or produced by shrinking.  Option combinations are standing members: a running-median width together with axis (0, 1, -1, None) and/or '
            'even (the width wins: running median), axis with and without even (odd lanes and even lanes with even=True '
            'judged), smooth width as int / numpy int / float with and without edge_truncate, sample with every set of '
            'expand/keep/shrink axes.  long_arrays: sizes at the edge of fixed-width integers - rebin of axes 23171..70000 '
            'by 2-4 (index product across 2**31, 1-D and in 2-D, both directions, sample on/off; data from a stored seed), '
            'smooth / median / running median on 2**15+-1 and 2**16+-1 samples with widths 2**8+-1, uniq on 2**16+1 elements, '
            'all against numpy-vectorised references.  '
            'stale_sequence: 2-4 calls inside one case sharing sizes (rebin: the same (n0, n) pair on any axis/rank with '
            'sample and interpolating calls in both orders; smooth/median/running median: same n and width with flags, dtype '
            'and data changed; uniq with and without index), each call judged by the same oracle.  Non-trivial: smooth with made-odd width >= 3 that changes a '
            'point, median/uniq on >= 2 elements (running: at least one interior point), rebin with at least '
            'one axis resized or a refusal; distinct by hash of the materialised input.')
    ASSUMPTIONS = ['float results: |got-ref| <= tol * magnitude, tol 1e-12 (float64) / 1e-4 (float32); magnitude = '
                   'mean |x| over the window (smooth), max |x| of the input (rebin), max of the two middle values '
                   '(median /EVEN); untouched edges, medians, uniq subscripts and rebin /SAMPLE picks are compared exactly',
                   'integer dtypes without /SAMPLE: each axis may return any integer within 1 (inclusive) of the exact '
                   'rational value (DESIGN C14), propagated as intervals across axes; copies (unchanged axis, '
                   'clamped tail beyond the last sample, output pixel 0) are exact',
                   'interpolating / averaging rebin on +-inf / NaN: claimed are copies (unchanged axis, the '
                   'clamped tail at or beyond the last input pixel), values between two finite pixels, all-finite blocks and '
                   'blocks with infinities of one sign; positions between or exactly on a finite and a non-finite pixel are '
                   'not judged (the clean code gives NaN there: rebin([1, inf, 3], (6,)) -> [nan, inf, nan, nan, 3, 3])',
                   'smooth and uniq are 1-D functions in the property; N-d inputs with unit dimensions are not judged for them '
                   '(clean tree: smooth on shape (1,N) raises IndexError, uniq on (1,N) returns zeros, (N,1) behaves like 1-D)',
                   'NaN is left out of median / uniq inputs (IDL treats NaN as missing in MEDIAN; NaN != NaN makes "equal runs" '
                   'ambiguous) and non-finite values out of interpolating / averaging rebin (0*inf at a sample position is not '
                   'fixed by the property); where they are used the expected value is the IEEE result of the defining formula',
                   'domain: finite values unless stated above, widths <= N (the made-odd width may be N+1), odd median widths <= smallest '
                   'dimension, requested dimensions >= 1, |int64 data| <= 2^40',
                   'uniq with an index on a constant array is read literally: the subscript of the last element in '
                   'index order (index[n-1]), not n-1 (open known finding F-I3)',
                   'layout consistency: identical values for medians, uniq, sample picks and integer rebin; float means / '
                   'interpolation within 2*tol*magnitude (numpy may sum strided and contiguous data in another order); '
                   'result dtype of rebin compared by kind and item size (byte order not demanded)',
                   'median(x, width) on a big-endian 1-D array is refused by scipy.signal.medfilt with ValueError: counted '
                   '(run1d_bigendian_refused_by_scipy_medfilt) and left undecided, a returned value would be judged']
    REQUIRED_COUNTERS = ('online_smooth_points_compared', 'online_median_running_points_compared', 'online_uniq_runs_compared',
                         'brd_differentials', 'smooth_interior_points', 'smooth_edge_untouched_points', 'smooth_edge_truncated_points',
                         'smooth_width_made_odd', 'median_even_upper', 'median_even_mean', 'median_odd',
                         'run1d_interior_points', 'run2d_interior_points', 'run_edge_points',
                         'uniq_runs_longer_than_1', 'uniq_constant_arrays', 'uniq_constant_with_nonidentity_index',
                         'uniq_index_calls', 'uniq_runs_of_equal_infinities', 'uniq_bool_arrays', 'uniq_string_arrays',
                         'uniq_unsigned_arrays', 'smooth_windows_with_nonfinite_values',
                         'smooth_finite_windows_next_to_nonfinite_values', 'smooth_width_0',
                         'median_inputs_with_infinities', 'run_inputs_with_infinities', 'rebin_sample_nonfinite_inputs',
                         'rebin_sample_bool_inputs', 'flag_given_as_int_or_numpy_bool',
                         'run2d_single_row_width_ge3_all_pixels_untouched',
                         'run2d_single_column_width_ge3_all_pixels_untouched', 'run2d_width_between_the_two_dimensions',
                         'run2d_shape_1x1', 'median_whole_array_with_unit_dimension', 'median_whole_array_3d',
                         'median_axis_on_array_with_unit_dimension', 'median_axis_along_unit_dimension',
                         'median_axis_on_3d_array', 'rebin_unit_axis_kept', 'rebin_unit_axis_enlarged',
                         'rebin_axis_shrunk_to_unit', 'rebin_all_axes_unit_input', 'rebin_single_row_or_column_input',
                         'rebin_single_row_or_column_input_3d',
                         'median_width_with_axis', 'median_width_with_even', 'median_width_with_axis_and_even',
                         'median_width_with_axis_None', 'median_axis_alone', 'median_axis_with_even',
                         'median_axis_lanes_judged', 'smooth_width_given_as_float', 'smooth_width_given_as_numpy_int',
                         'smooth_width_given_as_float_with_edge_truncate', 'smooth_width_given_as_numpy_int_with_edge_truncate',
                         'rebin_sample_with_axes_E', 'rebin_sample_with_axes_K', 'rebin_sample_with_axes_S',
                         'rebin_sample_with_axes_EK', 'rebin_sample_with_axes_ES', 'rebin_sample_with_axes_KS',
                         'rebin_sample_with_axes_EKS',
                         'long_rebin_cases', 'long_smooth_cases', 'long_run1d_cases', 'long_median_cases', 'long_uniq_cases',
                         'rebin_long_axis_index_product_ge_2**31_sample', 'rebin_long_axis_index_product_ge_2**31_interpolating',
                         'rebin_long_axis_index_product_just_below_2**31', 'rebin_long_axis_shrunk', 'rebin_long_axis_in_2d',
                         'rebin_nonfinite_interpolating_calls', 'rebin_infinite_last_pixel_of_enlarged_axis',
                         'rebin_nonfinite_first_pixel_of_enlarged_axis', 'rebin_nonfinite_interior_pixel_of_enlarged_axis',
                         'rebin_nonfinite_input_on_shrunk_axis', 'rebin_outputs_fixed_to_a_nonfinite_value',
                         'rebin_finite_outputs_beside_nonfinite_input',
                         'rebin_shrink_factor_ge_49', 'rebin_expand_factor_ge_49', 'rebin_factor_ge_49_in_2d_or_3d',
                         'rebin_factor_ge_49_integer_dtype', 'rebin_shrink_by_float_fragile_factor_sample',
                         'rebin_shrink_by_float_fragile_factor_mean', 'rebin_valueerror_nonintegral_sizes_ge_49',
                         'smooth_length_1_or_2', 'smooth_length_ge_200', 'smooth_width_beyond_n_all_points_untouched',
                         'median_length_1_or_2', 'median_length_ge_200', 'run1d_length_1_or_2', 'run1d_length_ge_200',
                         'uniq_length_1_or_2',
                         'rebin_lerp_fractional_positions', 'rebin_positions_exactly_on_a_sample',
                         'rebin_block_means', 'rebin_sample_calls', 'rebin_sample_fragile_pairs',
                         'rebin_mixed_expand_and_shrink', 'rebin_integer_dtype_cases',
                         'rebin_valueerror_nonintegral', 'rebin_valueerror_rank',
                         # same values under other memory layouts / flags / byte orders
                         'smooth_noncontiguous_interior_points', 'smooth_noncontiguous_edge_truncated_points',
                         'median_noncontiguous_calls', 'run1d_noncontiguous_interior_points',
                         'run2d_noncontiguous_interior_points', 'uniq_noncontiguous_calls',
                         'rebin_noncontiguous_resized_calls', 'readonly_inputs', 'bigendian_inputs',
                         'layout_smooth_step2', 'layout_smooth_column', 'layout_smooth_reversed',
                         'layout_rebin_fortran', 'layout_rebin_transposed', 'layout_rebin_strided',
                         'layout_run2d_fortran', 'layout_run2d_strided', 'layout_uniqindex_step2',
                         'input_preservation_checks', 'layout_consistency_checks',
                         # state that could go stale between calls of one process
                         'sequence_rebin_sample_after_interpolation_same_pair',
                         'sequence_rebin_interpolation_after_sample_same_pair',
                         'rebin_sample_after_interpolation_same_pair_in_process',
                         'rebin_interpolation_after_sample_same_pair_in_process',
                         'sequence_cases_smooth', 'sequence_cases_median', 'sequence_cases_run', 'sequence_cases_uniq')
    REQUIRED_REACH = {'smooth.smooth': 0.95, 'uniq.uniq': 0.95, 'rebin.rebin': 0.95, 'median.median': 0.85}
    QUICK_SHARDS = 4

    # ------------------------------------------------------------------ wiring
    def setup(self):
        import pydl
        self.P = pydl
        for n in ('smooth', 'median', 'uniq', 'rebin'):
            self.reach.add(getattr(pydl, n))
            self.brd.attach(self.rec, pydl, n, label='pydl.' + n, every=6, own=True)
            self.rec.wrap(pydl, n, label='pydl.' + n)
        self._fragile = None
        self._maxerr = {}
        self._pair_hist = {}
        # online monitors (vlib.xwork): smooth / median / uniq judged on every call the library itself makes while other
        # entry points run (bspline.action -> uniq, combine1fiber -> smooth and djs_median -> median, djs_median -> median)
        from vlib import xwork
        self.online = xwork.Online()
        self.xw = xwork.XWork(self)
        self.online.attach(self.rec, pydl, 'smooth', self.online_smooth)
        self.online.attach(self.rec, pydl, 'median', self.online_median)
        self.online.attach(self.rec, pydl, 'uniq', self.online_uniq)
        import sys
        for modname in ('pydl.pydlutils.bspline', 'pydl.pydlutils.math', 'pydl.pydlspec2d.spec2d', 'pydl.pydlutils.sdss',
                        'pydl.pydlspec2d.spec1d'):
            __import__(modname)
            mod = sys.modules[modname]
            for n, orc in (('smooth', self.online_smooth), ('median', self.online_median), ('uniq', self.online_uniq)):
                f = mod.__dict__.get(n)
                if callable(f) and getattr(f, '__module__', '') == 'pydl.' + n:     # ``from .. import uniq``: an alias bound at import
                    self.online.attach(self.rec, mod, n, orc)

    # ------------------------------------------------------------------ online monitors
    def online_smooth(self, on, a, k, r, st):
        on.count('online_smooth_calls')
        names = ('signal', 'owidth', 'edge_truncate')
        kw = dict(zip(names, a))
        kw.update(k)
        x = np.asarray(kw['signal'])
        w = kw['owidth']
        if x.ndim != 1 or x.dtype.kind != 'f' or x.dtype.itemsize < 4 or x.size == 0 or not np.all(np.isfinite(x)) \
                or not isinstance(w, (int, np.integer)) or isinstance(w, (bool, np.bool_)) or w < 0:
            return on.count('online_smooth_calls_outside_domain')
        trunc = bool(kw.get('edge_truncate', False))
        dt = 'f8' if x.dtype.itemsize == 8 else 'f4'
        r = np.asarray(r)
        if r.shape != x.shape:
            return on.fail('smooth-shape', 'smooth() called inside another entry point returned shape %s for %s' % (r.shape, x.shape))
        val, touched = R.smooth_ref_fast(x, int(w), trunc)
        scale, _ = R.smooth_ref_fast(np.abs(x), int(w), trunc)
        g = r.astype(np.longdouble)
        bad = ~touched & (g != val)
        if bad.any():
            on.fail('smooth-edge-untouched', 'smooth(n=%d, width %d) called inside another entry point: point %d must be left untouched'
                    % (x.size, w, int(np.argmax(bad))))
        err = np.abs(g - val)
        bad = touched & ~(err <= TOL[dt] * np.maximum(scale, np.longdouble(1e-300)))
        on.count('online_smooth_points_compared', int(touched.sum()))
        if bad.any():
            j = int(np.argmax(bad))
            on.fail('smooth-interior' if not trunc else 'smooth-edge-truncate',
                    'smooth(n=%d, width %d%s) called inside another entry point: point %d got %r, window mean %r'
                    % (x.size, w, ', edge_truncate' if trunc else '', j, float(g[j]), float(val[j])))

    def online_median(self, on, a, k, r, st):
        on.count('online_median_calls')
        names = ('array', 'width', 'axis', 'even')
        kw = dict(zip(names, a))
        kw.update(k)
        x = np.asarray(kw['array'])
        w = kw.get('width')
        if kw.get('axis') is not None or x.dtype.kind not in 'fiu' or x.size == 0 or x.dtype.itemsize < 4 \
                or (x.dtype.kind == 'f' and not np.all(np.isfinite(x))):
            return on.count('online_median_calls_outside_domain')
        if w is None:
            exp, how, (lo, hi) = R.median_ref([v.item() for v in x.ravel()], bool(kw.get('even', False)))
            g = float(r)
            on.count('online_median_whole_compared')
            if how == 'even-mean':
                if not abs(g - exp) <= 1e-12 * max(abs(lo), abs(hi), 1e-300) * (1e8 if x.dtype.itemsize == 4 else 1):
                    on.fail('median-even-mean', 'median(even=True) called inside another entry point: got %r, mean of middle values %r' % (g, exp))
            elif g != exp:
                on.fail('median-' + how, 'median() of %d values called inside another entry point: got %r expected %r' % (x.size, g, exp))
            return
        if x.ndim != 1 or not isinstance(w, (int, np.integer)) or isinstance(w, (bool, np.bool_)) or w < 3 or w % 2 == 0 or w > x.size:
            return on.count('online_median_calls_outside_domain')
        exp, inner = R.running_median_1d_fast(x, int(w))
        r = np.asarray(r)
        if r.shape != x.shape:
            return on.fail('median-run1d-shape', 'running median called inside another entry point returned shape %s for %s' % (r.shape, x.shape))
        inner = np.asarray(inner, dtype=bool)
        on.count('online_median_running_points_compared', int(inner.sum()))
        bad = (np.asarray(r, dtype='f8') != np.asarray(exp, dtype='f8'))
        if (bad & inner).any():
            j = int(np.argmax(bad & inner))
            on.fail('median-run1d', 'running median (n=%d, width %d) called inside another entry point: point %d got %r, window median %r'
                    % (x.size, w, j, float(r[j]), float(np.asarray(exp)[j])))
        elif (bad & ~inner).any():
            j = int(np.argmax(bad & ~inner))
            on.fail('median-run1d-edge', 'running median (n=%d, width %d) called inside another entry point: edge point %d was changed' % (x.size, w, j))

    def online_uniq(self, on, a, k, r, st):
        on.count('online_uniq_calls')
        kw = dict(zip(('x', 'index'), a))
        kw.update(k)
        x = np.asarray(kw['x'])
        idx = kw.get('index')
        if x.ndim != 1 or x.size == 0 or x.size > 200000 or (x.dtype.kind == 'f' and not np.all(np.isfinite(x))) or x.dtype.kind not in 'fiubSU':
            return on.count('online_uniq_calls_outside_domain')
        xl = [v.item() for v in x]
        if idx is not None:
            idx = [int(v) for v in np.asarray(idx).ravel()]
            if len(idx) != x.size:
                return on.count('online_uniq_calls_outside_domain')
            if len(set(xl)) == 1 and idx[-1] != x.size - 1:     # (with an index ending in n-1 the two readings coincide)
                return on.count('online_uniq_calls_open_finding_constant_with_index')
        exp = R.uniq_ref(xl, idx)
        got = [int(v) for v in np.asarray(r).ravel()]
        on.count('online_uniq_runs_compared', len(exp))
        if got != exp:
            on.fail('uniq-index' if idx is not None else 'uniq-sorted',
                    'uniq() of %d values called inside another entry point: %d run ends returned, %d expected; first difference at position %s'
                    % (x.size, len(got), len(exp), next((j for j, (p_, q_) in enumerate(zip(got, exp)) if p_ != q_), min(len(got), len(exp)))))

    def _run_xwork(self, case, out):
        self.online.begin()
        try:
            self.xw.run(case, out)
        finally:
            fails, counts = self.online.end()
        for n, v in counts.items():
            out.count(n, v)
        for clause, msg, detail in fails:
            out.fail(clause, msg, **detail)
        out.nontrivial = any(counts.get(n, 0) > 0 for n in ('online_smooth_points_compared', 'online_median_running_points_compared',
                                                            'online_median_whole_compared', 'online_uniq_runs_compared'))
        out.info = {'driver': case['driver'], 'driver_class': case.get('dcls'), 'online': counts}

    def teardown(self):
        self.xw.teardown()
        self.rec.unwrap_all()

    def shard_extra(self):
        return {'x_max_rel_err': dict(self._maxerr)}

    def extra_evidence(self, merged):
        tot = {}
        for d in merged.get('x_max_rel_err', []):
            for k, v in d.items():
                tot[k] = max(tot.get(k, 0.0), v)
        return {'max_observed_error_relative_to_magnitude': tot, 'tolerances': TOL}

    def _err(self, key, v):
        if v > self._maxerr.get(key, 0.0):
            self._maxerr[key] = float(v)

    def fragile(self):
        if self._fragile is None:
            self._fragile = R.float_fragile_pairs(40, 70)
        return self._fragile

    def fragile_factors(self):
        """integral factors 2..200 for which a common floating-point 'is the ratio whole?' test goes wrong
        (reciprocal does not round-trip, 1/f*f != 1, f*m/m inexact ...), plus a fixed list; generator aid only"""
        if getattr(self, '_ffac', None) is None:
            pool = {49, 93, 98, 99, 103, 105, 107, 117, 123, 186, 196, 200, 2, 3, 7, 64, 128}
            for f in range(2, 201):
                z = 1.0 / f
                if 1.0 / z != f or z * f != 1.0 or int(1.0 / z) != f or round(f * z, 15) != 1.0:
                    pool.add(f)
                for m in (1, 2, 3, 4):
                    zz = float(m) / float(f * m)
                    if 1.0 / zz != f or int(1.0 / zz) != f or (f * m) * zz != m:
                        pool.add(f)
            self._ffac = sorted(pool)
        return self._ffac

    def budget(self, tier):
        q = tier == 'quick'
        nf = len(self.fragile())
        return {
            'xw_bspline': 60 if q else 2000, 'xw_iterfit': 60 if q else 2000, 'xw_combine1fiber': 60 if q else 2000,
            'xw_pixels': 200 if q else 6000, 'xw_suite': 1,
            'smooth_plain': 3500 if q else 60000,
            'smooth_trunc': 3500 if q else 60000,
            'median_whole': 3000 if q else 50000,
            'median_run1d': 2500 if q else 40000,
            'median_run2d': 2000 if q else 30000,
            'uniq_sorted': 3000 if q else 50000,
            'uniq_index': 3500 if q else 60000,
            'rebin_float': 3000 if q else 45000,
            'rebin_int': 2400 if q else 36000,
            'rebin_fragile': 4 * nf if q else 24 * nf,
            'rebin_grid1d': 1000 if q else 39 * 69 * 2,
            'rebin_bigfactor': 900 if q else 199 * 2 * 12,
            'rebin_reject': 1600 if q else 16000,
            'stale_sequence': 1800 if q else 24000,
            'long_arrays': 13 if q else 160,
        }

    # ------------------------------------------------------------------ generators
    def gen(self, cls, rng, i):
        if cls == 'xw_suite':
            case = self.xw.gen_suite(['pydl/tests/test_pydl.py', 'pydl/pydlutils/tests/test_bspline.py', 'pydl/pydlutils/tests/test_math.py',
                                      'pydl/pydlspec2d/tests/test_spec2d.py'])
            case['fn'] = 'xwork'
            return case
        if cls.startswith('xw_'):
            drv, classes = {'xw_bspline': ('C08', ('random', 'explicit_bkpt', 'everyn', 'tiny')), 'xw_iterfit': ('C10', None),
                            'xw_combine1fiber': ('C11', None), 'xw_pixels': ('C17', ('median_1d', 'median_2d', 'aesthetics'))}[cls]
            case = self.xw.gen(drv, rng, classes=classes)
            if case is not None:
                case['fn'] = 'xwork'
            return case
        if cls == 'stale_sequence':
            return self._gen_sequence(rng, i)
        if cls == 'long_arrays':
            return self._gen_long(rng, i)
        case = self._gen_base(cls, rng, i)
        if (cls in ('rebin_fragile', 'rebin_grid1d', 'rebin_bigfactor') and case['dtype'][0] == 'f'
                and not case['sample']):
            case['x'] = _inject_nd(rng, case['x'], case['shape'], case['d'], 0.2)
        self._add_layout(case, rng)
        return case

    def _median_opts(self, case, rng, axes):
        """a width together with axis= and/or even=: the property says 'with a width the running median', so
        the other options must not change the result"""
        if rng.random() < 0.35:
            opts = {}
            m = rng.choice(['axis', 'even', 'both', 'axis', 'both'])
            if m in ('axis', 'both'):
                opts['axis'] = rng.choice(axes)
            if m in ('even', 'both'):
                opts['even'] = rng.random() < 0.5
            case['opts'] = opts
        return case

    def _add_layout(self, case, rng):
        """same values, other memory layout / flags / byte order (see LAYOUTS_*)"""
        if case['fn'] == 'rebin_reject':
            return case
        case['layout'] = _pick_layout(rng, len(case['shape']) if 'shape' in case else 1)
        if case['fn'] == 'uniq' and case.get('index') is not None:
            case['ilayout'] = _pick_layout(rng, 1)
        return case

    def _gen_base(self, cls, rng, i):
        N = 64 if self.tier == 'quick' else 160          # thorough: longer arrays, larger 2-D images
        N2 = 10 if self.tier == 'quick' else 16
        if cls in ('smooth_plain', 'smooth_trunc'):
            n = rng.randint(1, 8) if rng.random() < 0.35 else rng.randint(1, N)
            if rng.random() < 0.06:
                n = rng.choice([1, 2])
            elif rng.random() < 0.03:
                n = rng.randint(200, 600)                 # sizes are not always small
            m = rng.random()
            if m < 0.15:
                w = n
            elif m < 0.25:
                w = max(1, n - 1)
            elif m < 0.35:
                w = min(n, rng.choice([1, 2, 3, 4, 5]))
            else:
                w = rng.randint(1, n)
            if rng.random() < 0.03:
                w = 0                                     # even -> made odd = 1: nothing to smooth
            elif cls == 'smooth_plain' and rng.random() < 0.05:
                # width beyond the array: no interior point exists, so without edge truncation every point is an
                # untouched edge point (with truncation IDL refuses and the property's domain ends at w <= N)
                w = n + rng.choice([1, 2, 3, n, 2 * n + 3])
            dt = rng.choice(['f8', 'f8', 'f4'])
            return {'fn': 'smooth', 'dtype': dt, 'x': _inject(rng, _floats(rng, n, dt), ['+inf', '-inf', 'nan'], 0.15),
                    'w': w, 'trunc': cls == 'smooth_trunc', 'kwform': rng.random() < 0.5,
                    'flagform': rng.choice(['bool', 'bool', 'int', 'npbool']),
                    'wkind': rng.choice(['int', 'int', 'int', 'int64', 'int32', 'intp', 'float', 'float64'])}
        if cls == 'median_whole':
            dt = rng.choice(['f8', 'f8', 'f4'])
            if rng.random() < 0.7:
                shape = [rng.randint(1, 8) if rng.random() < 0.4 else rng.randint(1, N)]
                if rng.random() < 0.06:
                    shape = [rng.choice([1, 2])]
                elif rng.random() < 0.03:
                    shape = [rng.randint(200, 1000)]
            else:
                shape = [rng.randint(1, 8), rng.randint(1, 8)]
                m = rng.random()
                if m < 0.3:                               # unit dimensions: (1,N) (N,1) (1,1) (1,N,1) (N,1,1) (1,1,N)
                    L = rng.randint(1, 12)
                    shape = rng.choice([[1, L], [L, 1], [1, 1], [1, L, 1], [L, 1, 1], [1, 1, L], [1, 1, 1]])
                elif m < 0.4:
                    shape = [rng.randint(1, 4), rng.randint(1, 5), rng.randint(1, 4)]
            c = {'fn': 'median', 'dtype': dt, 'shape': shape,
                 'x': _inject(rng, _floats(rng, _prod(shape), dt), ['+inf', '-inf'], 0.15),
                 'even': rng.random() < 0.5, 'flagform': rng.choice(['bool', 'bool', 'int', 'npbool'])}
            if rng.random() < (0.35 if len(shape) >= 2 else 0.08):
                c['axis'] = rng.choice(list(range(len(shape))) + [-1])                 # axis (with or without even)
                c['evengiven'] = rng.random() < 0.6
            return c
        if cls == 'median_run1d':
            dt = rng.choice(['f8', 'f8', 'f4'])
            n = rng.randint(1, 9) if rng.random() < 0.35 else rng.randint(1, N)
            if rng.random() < 0.06:
                n = rng.choice([1, 2])
            elif rng.random() < 0.03:
                n = rng.randint(200, 500)
            ws = list(range(1, n + 1, 2))
            w = ws[-1] if rng.random() < 0.15 else rng.choice(ws)
            c = {'fn': 'run1d', 'dtype': dt, 'x': _inject(rng, _floats(rng, n, dt), ['+inf', '-inf'], 0.15), 'w': w}
            return self._median_opts(c, rng, [0, -1, None])
        if cls == 'median_run2d':
            dt = rng.choice(['f8', 'f8', 'f4'])
            nr, nc = rng.randint(1, N2), rng.randint(1, N2)
            if rng.random() < 0.3:
                nr, nc = max(nr, 3), max(nc, 3)
            ws = list(range(1, min(nr, nc) + 1, 2))
            w = ws[-1] if rng.random() < 0.2 else rng.choice(ws)
            m = rng.random()
            if m < 0.22:
                # degenerate images: one row, one column, one pixel.  No w x w neighbourhood fits inside once
                # w exceeds the unit dimension, so every pixel is an untouched edge of the 2-D filter
                L = rng.randint(1, 2 * N2)
                nr, nc = rng.choice([(1, L), (1, L), (L, 1), (1, 1)])
                ws = list(range(1, max(nr, nc) + 1, 2))
                w = rng.choice(ws[1:]) if len(ws) > 1 and rng.random() < 0.85 else rng.choice(ws)
            elif m < 0.32 and nr != nc:
                # width between the two dimensions (still not exceeding N): again no interior pixel
                ws = [v for v in range(1, max(nr, nc) + 1, 2) if v > min(nr, nc)]
                w = rng.choice(ws) if ws else w
            c = {'fn': 'run2d', 'dtype': dt, 'shape': [nr, nc],
                 'x': _inject(rng, _floats(rng, nr * nc, dt), ['+inf', '-inf'], 0.15), 'w': w}
            return self._median_opts(c, rng, [0, 1, -1, None])
        if cls in ('uniq_sorted', 'uniq_index'):
            return self._gen_uniq(cls, rng, i)
        if cls == 'rebin_float':
            dt = rng.choice(['f8', 'f8', 'f4'])
            shape, d, modes = self._geometry(rng, i)
            sample = rng.random() < 0.35
            x = _floats(rng, _prod(shape), dt, rng.choice(['normal', 'normal', 'ramp', 'spiky', 'ties']))
            if not sample:
                x = _inject_nd(rng, x, shape, d, 0.25)
            if sample:                                   # pure selection: defined for every value and dtype
                x = _inject(rng, x, ['+inf', '-inf', 'nan'], 0.3)
                if rng.random() < 0.1:
                    dt, x = '?', [v > 0 for v in x]
            return {'fn': 'rebin', 'dtype': dt, 'shape': shape, 'd': d, 'modes': modes, 'sample': sample, 'x': x,
                    'flagform': rng.choice(['bool', 'bool', 'int', 'npbool'])}
        if cls == 'rebin_int':
            dt = INT_DTYPES[i % len(INT_DTYPES)]
            shape, d, modes = self._geometry(rng, i // len(INT_DTYPES), single=rng.random() < 0.5)
            return {'fn': 'rebin', 'dtype': dt, 'shape': shape, 'd': d, 'modes': modes, 'sample': rng.random() < 0.25,
                    'x': _ints(rng, _prod(shape), dt)}
        if cls == 'rebin_fragile':
            L = self.fragile()
            d0, fac = L[i % len(L)]
            rnd = i // len(L)
            dt = ['f8', 'i4', 'f4', 'u1', 'f8', 'i2'][rnd % 6]
            x = sorted(set(_ints(rng, d0, dt, 'full'))) if dt[0] in 'iu' else sorted(_floats(rng, d0, dt, 'normal'))
            while len(x) < d0:
                x.append(x[-1])
            if rng.random() < 0.5:
                x.reverse()
            return {'fn': 'rebin', 'dtype': dt, 'shape': [d0], 'd': [d0 * fac], 'modes': 'E', 'sample': rnd % 2 == 0,
                    'x': x, 'fragile': True}
        if cls == 'rebin_grid1d':
            ncell = 39 * 69
            j = (i * 6911) % ncell if self.tier == 'quick' else i % ncell
            d0, fac = 1 + j % 39, 2 + j // 39
            sample = True if self.tier == 'quick' else (i // ncell) % 2 == 0
            dt = rng.choice(['f8', 'i4', 'f4'])
            x = _ints(rng, d0, dt, 'full') if dt[0] == 'i' else _floats(rng, d0, dt, 'normal')
            return {'fn': 'rebin', 'dtype': dt, 'shape': [d0], 'd': [d0 * fac], 'modes': 'E', 'sample': sample, 'x': x}
        if cls == 'rebin_bigfactor':
            pool = self.fragile_factors()
            if self.tier == 'quick':
                if i % 3 < 2:                      # every pool factor in both directions, then a spread over 2..200
                    j = (i // 3) * 2 + i % 3
                    f, shrink = pool[(j // 2) % len(pool)], j % 2 == 0
                else:
                    f, shrink = rng.randint(2, 200), rng.random() < 0.5
            else:                                  # thorough: every factor 2..200, both directions, repeatedly
                f, shrink = 2 + i % 199, (i // 199) % 2 == 0
            m = 1 + (i // 7) % 4 if self.tier == 'quick' else rng.randint(1, 4)
            nd = rng.choice([1, 1, 2, 3])
            k = rng.randrange(nd)
            shape, d = [], []
            for ax in range(nd):
                if ax == k:
                    shape.append(f * m if shrink else m)
                    d.append(m if shrink else f * m)
                    continue
                base = rng.randint(1, 3)
                mo = rng.choice(MODES)
                g = rng.randint(2, 3)
                shape.append(base * g if mo == 'S' else base)
                d.append(base * g if mo == 'E' else base)
            dt = rng.choice(['f8', 'f8', 'f4', 'i4', 'u1', 'i2'])
            x = _ints(rng, _prod(shape), dt) if dt[0] in 'iu' else _floats(rng, _prod(shape), dt, 'normal')
            return {'fn': 'rebin', 'dtype': dt, 'shape': shape, 'd': d, 'modes': '', 'sample': rng.random() < 0.4,
                    'x': x, 'bigfactor': [f, 'shrink' if shrink else 'expand'],
                    'flagform': rng.choice(['bool', 'bool', 'int', 'npbool'])}
        if cls == 'rebin_reject':
            return self._gen_reject(rng, i)
        raise KeyError(cls)

    def _gen_uniq(self, cls, rng, i):
        dt = rng.choice(['i8', 'i4', 'f8', 'f4', 'i2', 'f8', 'f4', 'u1', '?', 'U', 'S'])
        m = rng.random()
        if m < 0.12:
            nruns = 1
        elif m < 0.2:
            nruns = 2
        else:
            nruns = rng.randint(1, 20)
        maxlen = rng.choice([1, 2, 3, 6])
        lens = [rng.randint(1, maxlen) for _ in range(nruns)]
        if nruns == 1 and rng.random() < 0.7:
            lens = [rng.randint(1, 12)]
        # strictly increasing distinct values
        if dt == '?':
            vals = [False, True] if nruns >= 2 else [rng.random() < 0.5]
            nruns = len(vals)
            lens = [rng.randint(1, 6) for _ in vals]
        elif dt in 'US':
            pool = ['', 'AGN', 'BROADLINE', 'GALAXY', 'QSO', 'STAR', 'STARBURST', 'STARFORMING', 'Star', 'a', 'ab', 'b']
            pool += [''.join(rng.choice('ABCXYZ019_') for _ in range(rng.randint(1, 9))) for _ in range(nruns)]
            pool = sorted(set(pool))
            nruns = min(nruns, len(pool))
            start = rng.randint(0, len(pool) - nruns)
            vals = pool[start:start + nruns]
            lens = lens[:nruns]
        elif dt == 'u1':
            vals = sorted(rng.sample(range(256), min(nruns, 256)))
            if rng.random() < 0.5:
                vals[0], vals[-1] = (0, 255) if len(vals) > 1 else (vals[0], vals[0])
                vals = sorted(set(vals))
            nruns = len(vals)
            lens = lens[:nruns]
        elif dt[0] == 'i':
            v = rng.randint(-50, 50)
            vals = []
            for _ in range(nruns):
                vals.append(v)
                v += rng.choice([1, 1, 2, 7, 100])
        else:
            pool = sorted(set(_floats(rng, 3 * nruns + 3, dt, 'normal')))
            nruns = min(nruns, len(pool))
            lens = lens[:nruns]
            start = rng.randint(0, len(pool) - nruns)
            vals = pool[start:start + nruns]
            if rng.random() < 0.3 and nruns >= 2:     # neighbours one ulp apart still differ
                k = rng.randrange(nruns - 1)
                vals[k + 1] = float(np.nextafter(np.dtype(dt).type(vals[k]), np.dtype(dt).type(np.inf)))
                vals = sorted(set(vals))
                lens = lens[:len(vals)]
        if dt[0] == 'f' and rng.random() < 0.4:
            # equal infinities are equal values: a run of -inf sorts first, a run of +inf last
            if rng.random() < 0.6:
                vals = [float('-inf')] + vals
                lens = [rng.choice([1, 2, 2, 3, 5])] + lens
            if rng.random() < 0.7:
                vals = vals + [float('inf')]
                lens = lens + [rng.choice([1, 2, 2, 3, 5])]
            if rng.random() < 0.15:                  # nothing but infinities
                keep = [k for k, v in enumerate(vals) if v in (float('inf'), float('-inf'))]
                if keep:
                    vals, lens = [vals[k] for k in keep], [lens[k] for k in keep]
        xs = []
        for v, l in zip(vals, lens):
            xs += [v] * l
        n = len(xs)
        if cls == 'uniq_sorted':
            if rng.random() < 0.15:
                xs.reverse()
            return {'fn': 'uniq', 'dtype': dt, 'x': xs, 'index': None}
        # an unsorted array and an index that sorts it (ties in random order)
        perm = list(range(n))
        rng.shuffle(perm)
        x = [None] * n
        for pos, src in zip(perm, range(n)):
            x[pos] = xs[src]
        tie = rng.choice(['random', 'random', 'stable', 'reverse-stable'])
        keys = {'random': lambda j: (x[j], rng.random()), 'stable': lambda j: (x[j], j),
                'reverse-stable': lambda j: (x[j], -j)}[tie]
        index = sorted(range(n), key=keys)
        if len(vals) == 1:
            how = rng.choice(['reversed', 'random', 'identity', 'rotated'])
            index = list(range(n))
            if how == 'reversed':
                index.reverse()
            elif how == 'random':
                rng.shuffle(index)
            elif how == 'rotated' and n > 1:
                r = rng.randrange(1, n)
                index = index[r:] + index[:r]
        return {'fn': 'uniq', 'dtype': dt, 'x': x, 'index': index, 'idtype': rng.choice(['i8', 'i8', 'i4'])}

    # -- several calls in ONE case (one process, fixed order): exposes state kept between calls (caches keyed
    #    by sizes, tables modified in place, module-level scratch arrays); replays reproduce the whole sequence
    def _gen_sequence(self, rng, i):
        kind = ['rebin', 'rebin', 'smooth', 'median', 'run', 'uniq'][i % 6]
        calls = []
        if kind == 'rebin':
            if rng.random() < 0.3:
                n0, fac = rng.choice(self.fragile())
                if n0 * fac > 600:
                    n0, fac = rng.randint(1, 8), rng.randint(2, 9)
            else:
                n0, fac = rng.randint(1, 10), rng.choice([2, 2, 3, 4, 5, 7, 8, 16])
            pattern = ['SI', 'IS', 'SIS', 'ISI', 'SSI', 'IIS', 'SISI'][(i // 6) % 7]
            for ch in pattern:
                nd = rng.choice([1, 1, 2, 3])
                k = rng.randrange(nd)
                shape, d = [], []
                for ax in range(nd):
                    if ax == k:
                        shape.append(n0)
                        d.append(n0 * fac)
                        continue
                    base = rng.randint(1, 4)
                    m = rng.choice(MODES)
                    f = rng.randint(2, 4)
                    shape.append(base * f if m == 'S' else base)
                    d.append(base * f if m == 'E' else base)
                dt = rng.choice(['f8', 'f8', 'f4', 'i4', 'u1', 'i2'])
                x = _ints(rng, _prod(shape), dt) if dt[0] in 'iu' else _floats(rng, _prod(shape), dt, 'normal')
                if dt[0] == 'f' and ch != 'S':
                    x = _inject_nd(rng, x, shape, d, 0.2)
                calls.append(self._add_layout({'fn': 'rebin', 'dtype': dt, 'shape': shape, 'd': d, 'modes': '',
                                               'sample': ch == 'S', 'x': x}, rng))
            return {'fn': 'sequence', 'kind': kind, 'pair': [n0, n0 * fac], 'calls': calls}
        sub = {'smooth': rng.choice(['smooth_plain', 'smooth_trunc']), 'median': 'median_whole',
               'run': rng.choice(['median_run1d', 'median_run2d']), 'uniq': 'uniq_index'}[kind]
        first = self._add_layout(self._gen_base(sub, rng, i), rng)
        calls.append(first)
        for _ in range(rng.randint(1, 3)):
            c = copy.deepcopy(calls[-1])
            if c['fn'] == 'uniq':
                if c['index'] is not None and rng.random() < 0.6:
                    c['x'] = [c['x'][j] for j in c['index']]         # the sorted array itself, no index
                    c['index'] = None
                    c.pop('ilayout', None)
                else:
                    c = copy.deepcopy(first)
            else:
                if rng.random() < 0.3:
                    c['dtype'] = 'f4' if c['dtype'] == 'f8' else 'f8'
                c['x'] = _floats(rng, len(c['x']), c['dtype'])       # same sizes / widths, other data
                if c['fn'] == 'smooth' and c['w'] <= len(c['x']) and rng.random() < 0.6:   # truncation: domain w <= N
                    c['trunc'] = not c['trunc']
                if c['fn'] == 'median' and rng.random() < 0.6:
                    c['even'] = not c['even']
            calls.append(self._add_layout(c, rng))
        return {'fn': 'sequence', 'kind': kind, 'calls': calls}

    def _factor(self, rng):
        m = rng.random()
        if m < 0.55:
            return rng.randint(2, 8)
        if m < 0.85:
            return rng.randint(9, 64)
        return rng.choice([7, 14, 23, 28, 46, 49, 56, 64, 63, 3, 5])

    def _geometry(self, rng, i, single=False):
        """all 3 + 9 + 27 expand/keep/shrink combinations are cycled through by the case index"""
        combos = [a for a in MODES] + [a + b for a in MODES for b in MODES] + \
                 [a + b + c for a in MODES for b in MODES for c in MODES]
        modes = combos[i % len(combos)]
        if single:
            k = rng.randrange(len(modes))
            modes = ''.join(m if j == k else 'K' for j, m in enumerate(modes))
            if modes[k] == 'K':
                modes = modes[:k] + rng.choice('ES') + modes[k + 1:]
        cap_out = {1: 4000, 2: 12000, 3: 16000}[len(modes)]
        # degenerate shapes: every axis but (at most) one has a unit base -> (1,N) (N,1) (1,1) (1,N,1) ..., with the
        # unit axes kept (1 -> 1), enlarged (1 -> f) or produced by shrinking (f -> 1) as the mode says
        degenerate = len(modes) > 1 and rng.random() < 0.15
        longax = rng.choice(list(range(len(modes))) + [-1])           # the one axis allowed to be long (-1: none)
        for attempt in range(200):
            shape, d = [], []
            for ax, m in enumerate(modes):
                base = rng.randint(1, 6 if len(modes) > 1 else 24)
                if degenerate and ax != longax:
                    base = 1
                if m == 'E':
                    f = self._factor(rng) if attempt < 100 else rng.randint(2, 4)
                    shape.append(base)
                    d.append(base * f)
                elif m == 'K':
                    shape.append(base)
                    d.append(base)
                else:
                    f = rng.randint(2, 8)
                    shape.append(base * f)
                    d.append(base)
            sizes = [_prod(d[:k + 1] + shape[k + 1:]) for k in range(len(modes))]
            if _prod(shape) <= 6000 and max(sizes) <= cap_out:
                break
        return shape, d, modes

    def _gen_reject(self, rng, i):
        nd = rng.randint(1, 3)
        why = ['expand', 'shrink', 'rank+', 'rank-', 'expand', 'shrink', 'shrink-near', 'expand-near'][i % 8]
        shape, d = [], []
        for _ in range(nd):
            base = rng.randint(1, 6)
            m = rng.choice(MODES)
            if m == 'E':
                shape.append(base)
                d.append(base * rng.randint(2, 9))
            elif m == 'K':
                shape.append(base)
                d.append(base)
            else:
                shape.append(base * rng.randint(2, 6))
                d.append(base)
        k = rng.randrange(nd)
        if why == 'expand':
            d0 = rng.randint(2, 12)
            shape[k] = d0
            d[k] = d0 * rng.randint(1, 8) + rng.randint(1, d0 - 1)
        elif why == 'shrink':
            d0 = rng.randint(3, 48)
            cands = [c for c in range(2, d0) if d0 % c != 0]
            shape[k] = d0
            d[k] = rng.choice(cands)
        elif why in ('shrink-near', 'expand-near'):
            # almost integral ratios at large sizes: 98 -> 3, 99 -> 2, 197 -> 2, 3 -> 148 ...
            pool = self.fragile_factors()
            f = rng.choice(pool) if rng.random() < 0.6 else rng.randint(2, 200)
            m = rng.randint(2, 4)
            big = f * m + rng.choice([r for r in range(-(m - 1), m) if r != 0])
            if rng.random() < 0.3:
                big, m = f * m, m + 1 if (f * m) % (m + 1) else m + 2
                while big % m == 0:
                    m += 1
            if big <= m or big % m == 0:
                big = f * m + 1
            shape[k], d[k] = (big, m) if why == 'shrink-near' else (m, big)
        elif why == 'rank+':
            extra = rng.choice([1, 1, 2, rng.randint(1, 5)])
            pos = rng.choice([0, len(d)])
            d = d[:pos] + [extra] + d[pos:]
            if rng.random() < 0.3:
                d = [_prod(shape)] + [1] * len(shape)      # same number of elements, still a rank change
        else:
            if nd == 1:
                nd = 2
                shape = shape + [rng.randint(1, 4)]
                d = d + [shape[1]]
            drop = rng.randrange(len(d))
            if rng.random() < 0.4:
                d = [_prod(shape)]                          # flattening request
            else:
                d = d[:drop] + d[drop + 1:]
        return {'fn': 'rebin_reject', 'why': why, 'shape': shape, 'd': d, 'dtype': rng.choice(['f8', 'i4', 'f4', 'u1']),
                'sample': rng.random() < 0.3}

    # ------------------------------------------------------------------ run
    def run(self, case, out):
        getattr(self, '_run_' + case['fn'])(case, out)

    def _run_sequence(self, case, out):
        seen = {}
        for sub in case['calls']:
            getattr(self, '_run_' + sub['fn'])(sub, out)
            if sub['fn'] == 'rebin':
                for n0, n in zip(sub['shape'], sub['d']):
                    if n > n0:
                        prev = seen.setdefault((n0, n), set())
                        if sub['sample'] and 'I' in prev:
                            out.count('sequence_rebin_sample_after_interpolation_same_pair')
                        if not sub['sample'] and 'S' in prev:
                            out.count('sequence_rebin_interpolation_after_sample_same_pair')
                        prev.add('S' if sub['sample'] else 'I')
        out.count('sequence_cases_' + case['kind'])
        out.count('sequence_calls', len(case['calls']))
        out.nontrivial = True
        out.info = {'kind': case['kind'], 'calls': len(case['calls'])}

    # -- the same values under another memory layout / flag / byte order
    def _present(self, out, fn, x, layout):
        """returns (array to pass, base array owning the memory, snapshot of the base)"""
        xv, base = _layout(x, layout or 'contig')
        out.count('layout_%s_%s' % (fn, layout or 'contig'))
        if not xv.flags.c_contiguous:
            out.count('noncontiguous_inputs')
        if not xv.flags.writeable:
            out.count('readonly_inputs')
        if xv.dtype.byteorder == '>':
            out.count('bigendian_inputs')
        return xv, base, base.tobytes()

    def _unmodified(self, out, fn, layout, base, snap, what='input'):
        out.expect(base.tobytes() == snap, fn + '-input-modified',
                   'the %s array (layout %s) or the memory around it was modified by the call' % (what, layout))
        out.count('input_preservation_checks')

    def _consistent(self, out, fn, layout, r, r2, allowed=None):
        """result for the laid-out input vs result for the C-contiguous native copy of the same values;
        allowed=None: identical values; else array/scalar of permitted absolute differences"""
        out.count('layout_consistency_checks')
        a, b = np.asarray(r), np.asarray(r2)
        if not out.expect(a.shape == b.shape, fn + '-layout-consistency',
                          'layout %s: result shape %r, contiguous copy gives %r' % (layout, a.shape, b.shape)):
            return
        if allowed is None:
            bad = ~_eqnan(a, b)
        else:
            with np.errstate(invalid='ignore'):
                bad = ~(_eqnan(a, b) | (np.abs(a.astype(np.longdouble) - b.astype(np.longdouble)) <= allowed))
        bad = np.atleast_1d(bad)
        i = _first_bad(bad)
        out.expect(i is None, fn + '-layout-consistency',
                   'layout %s: same values give another result than their contiguous copy, first at %s: %r vs %r' % (
                       layout, i, np.atleast_1d(a)[tuple(i)].item() if i else None,
                       np.atleast_1d(b)[tuple(i)].item() if i else None))

    def _run_smooth(self, case, out):
        dt = case['dtype']
        x0 = np.array(case['x'], dtype=dt)
        lay = case.get('layout', 'contig')
        x, base, snap = self._present(out, 'smooth', x0, lay)
        w = case['w']

        wk = case.get('wkind', 'int64' if case.get('wnp') else 'int')
        wa = {'int': int, 'int64': np.int64, 'int32': np.int32, 'intp': np.intp, 'float': float,
              'float64': np.float64}[wk](w)
        if wk != 'int':
            out.count('smooth_width_given_as_' + ('float' if wk.startswith('float') else 'numpy_int') +
                      ('_with_edge_truncate' if case['trunc'] else ''))
        ff = case.get('flagform', 'bool')
        if ff != 'bool':
            out.count('flag_given_as_int_or_numpy_bool')

        def call(arr):
            if case['trunc']:
                return (self.P.smooth(arr, wa, edge_truncate=_flag(True, ff)) if case['kwform']
                        else self.P.smooth(arr, wa, _flag(True, ff)))
            return self.P.smooth(arr, wa, edge_truncate=_flag(False, ff)) if case['kwform'] else self.P.smooth(arr, wa)
        r = call(x)
        self._unmodified(out, 'smooth', lay, base, snap)
        if not out.expect(isinstance(r, np.ndarray) and r.shape == x0.shape, 'smooth-shape',
                          'result is not an array of the input shape', got=getattr(r, 'shape', None)):
            return
        val, kind, scale = R.smooth_ref([float(v) for v in x0], w, case['trunc'])
        tol = TOL[dt]
        if w % 2 == 0:
            out.count('smooth_width_made_odd')
        nk = {'same': 0, 'interior': 0, 'edge': 0}
        for i, (v, k, s) in enumerate(zip(val, kind, scale)):
            g = float(r[i])
            nk[k] += 1
            if v != v or v in (float('inf'), float('-inf')):
                # IEEE mean of a window holding a NaN / infinity (or the untouched special value itself)
                out.expect((g != g) if v != v else g == v, 'smooth-edge-untouched' if k == 'same' else 'smooth-nonfinite-window',
                           'point %d of %d (width %d, %s, layout %s): got %r, the window mean is %r' % (
                               i, len(val), w, k, lay, g, v), i=i)
                if k != 'same':
                    out.count('smooth_windows_with_nonfinite_values')
            elif k == 'same':
                out.expect(g == v, 'smooth-edge-untouched',
                           'point %d of %d (width %d, layout %s) must be left untouched: got %r, input %r' % (
                               i, len(val), w, lay, g, v), i=i)
            else:
                err = abs(g - v)
                ok = err <= tol * s
                if s > 0:
                    self._err('smooth_' + dt, err / s)
                out.expect(ok, 'smooth-interior' if k == 'interior' else 'smooth-edge-truncate',
                           'point %d of %d (width %d -> %d, %s, layout %s): got %r, window mean %r' % (
                               i, len(val), w, R.odd_width(w), k, lay, g, v), i=i, err=err, scale=s)
        W = R.odd_width(w)
        if w == 0:
            out.count('smooth_width_0')
        if len(val) <= 2:
            out.count('smooth_length_1_or_2')
        if len(val) >= 200:
            out.count('smooth_length_ge_200')
        if w > len(val):
            out.count('smooth_width_beyond_n_all_points_untouched')
        if _nonfinite(case['x']) and W >= 3:
            out.count('smooth_finite_windows_next_to_nonfinite_values',
                      sum(1 for v, k in zip(val, kind) if k != 'same' and v == v and abs(v) != float('inf')))
        if W >= 3:
            out.count('smooth_interior_points', nk['interior'])
            out.count('smooth_edge_untouched_points', nk['same'])
            out.count('smooth_edge_truncated_points', nk['edge'])
            if W > len(val):
                out.count('smooth_made_odd_width_exceeds_n')
            if not x.flags.c_contiguous:
                out.count('smooth_noncontiguous_interior_points', nk['interior'])
                out.count('smooth_noncontiguous_edge_truncated_points', nk['edge'])
        if lay != 'contig':
            self._consistent(out, 'smooth', lay, r, call(x0.copy()), allowed=2 * tol * np.array(scale))
        out.nontrivial = W >= 3 and (nk['interior'] + nk['edge']) > 0
        out.info['n'], out.info['width'], out.info['layout'] = len(val), W, lay

    def _run_median(self, case, out):
        if 'axis' in case:
            return self._run_median_axis(case, out)
        dt = case['dtype']
        x0 = np.array(case['x'], dtype=dt).reshape(case['shape'])
        lay = case.get('layout', 'contig')
        x, base, snap = self._present(out, 'median', x0, lay)

        ff = case.get('flagform', 'bool')
        if ff != 'bool':
            out.count('flag_given_as_int_or_numpy_bool')

        def call(arr):
            if case['even']:
                return self.P.median(arr, even=_flag(True, ff))
            return self.P.median(arr) if ff == 'bool' else self.P.median(arr, even=_flag(False, ff))
        r = call(x)
        self._unmodified(out, 'median', lay, base, snap)
        exp, how, (lo, hi) = R.median_ref([float(v) for v in x0.ravel()], case['even'])
        if not out.expect(np.ndim(r) == 0, 'median-scalar', 'whole-array median is not a scalar', got=repr(r)[:200]):
            return
        g = float(r)
        mag = max(abs(lo), abs(hi))
        if _nonfinite(case['x']):
            out.count('median_inputs_with_infinities')
        if x0.size <= 2:
            out.count('median_length_1_or_2')
        if x0.ndim >= 2 and 1 in x0.shape:
            out.count('median_whole_array_with_unit_dimension')
        if x0.ndim == 3:
            out.count('median_whole_array_3d')
        if x0.size >= 200:
            out.count('median_length_ge_200')
        if how == 'even-mean' and (exp != exp or abs(exp) == float('inf')):
            # mean of the two middle values when one is infinite: that infinity, or NaN for -inf and +inf
            out.expect((g != g) if exp != exp else g == exp, 'median-even-mean',
                       'even count with even=True (layout %s): got %r, mean of middle values (%r, %r) = %r' % (
                           lay, g, lo, hi, exp))
            out.count('median_even_mean')
        elif how == 'even-mean':
            err = abs(g - exp)
            if mag > 0:
                self._err('median_even_' + dt, err / mag)
            out.expect(err <= TOL[dt] * mag, 'median-even-mean',
                       'even count with even=True (layout %s): got %r, mean of middle values (%r, %r) = %r' % (
                           lay, g, lo, hi, exp))
            out.count('median_even_mean')
            if lo != hi:
                out.count('median_even_mean_distinct_middle')
        elif how == 'even-upper':
            out.expect(g == exp, 'median-even-upper',
                       'even count (layout %s): got %r, IDL median is the upper middle element %r (lower %r)' % (
                           lay, g, hi, lo))
            out.count('median_even_upper')
            if lo != hi:
                out.count('median_even_upper_distinct_middle')
        else:
            out.expect(g == exp, 'median-odd', 'odd count (layout %s): got %r, middle element %r' % (lay, g, exp))
            out.count('median_odd')
        if not x.flags.c_contiguous and x0.size >= 2:
            out.count('median_noncontiguous_calls')
        if lay != 'contig':
            self._consistent(out, 'median', lay, r, call(x0.copy()),
                             allowed=2 * TOL[dt] * mag if how == 'even-mean' and mag < float('inf') else None)
        out.nontrivial = x0.size >= 2
        out.info['n'], out.info['how'], out.info['layout'] = int(x0.size), how, lay

    def _cmp_running(self, out, r, x0, exp, inner, tag, w):
        if not out.expect(isinstance(r, np.ndarray) and r.shape == x0.shape, tag + '-shape',
                          'result is not an array of the input shape', got=getattr(r, 'shape', None)):
            return 0
        e = np.array(exp, dtype=float).reshape(x0.shape)
        m = np.array(inner, dtype=bool).reshape(x0.shape)
        g = np.asarray(r, dtype=float)
        bad_in = (g != e) & m
        bad_edge = (g != e) & ~m
        out.expect(not bad_in.any(), tag + '-interior',
                   'running median (width %d) differs from the window median at %s' % (w, _first_bad(bad_in)),
                   got=g, expected=e)
        out.expect(not bad_edge.any(), tag + '-edge-untouched',
                   'edge point %s (width %d) is not the input value' % (_first_bad(bad_edge), w), got=g, input=x0)
        out.count('run_edge_points', int((~m).sum()))
        return int(m.sum())

    def _count_opts(self, out, kw):
        if 'axis' in kw and 'even' in kw:
            out.count('median_width_with_axis_and_even')
        elif 'axis' in kw:
            out.count('median_width_with_axis')
        elif 'even' in kw:
            out.count('median_width_with_even')
        if kw.get('axis', 'x') is None:
            out.count('median_width_with_axis_None')

    def _run_median_axis(self, case, out):
        """median(x, axis=a[, even=e]) without a width: per lane the IDL median.  Claimed: odd lane length -> the
        middle element; even length with even=True -> mean of the two middle values.  Even length without `even`
        carries no claim (the docstring documents numpy's mean-of-middle there, IDL returns the upper element)."""
        dt = case['dtype']
        x0 = np.array(case['x'], dtype=dt).reshape(case['shape'])
        lay = case.get('layout', 'contig')
        x, base, snap = self._present(out, 'medianaxis', x0, lay)
        ax = case['axis']
        kw = {'axis': ax}
        if case.get('evengiven'):
            kw['even'] = _flag(case['even'], case.get('flagform', 'bool'))
        r = self.P.median(x, **kw)
        self._unmodified(out, 'median', lay, base, snap)
        lanes = np.moveaxis(x0, ax, -1)
        want_shape = lanes.shape[:-1]
        if not out.expect(np.shape(r) == want_shape, 'median-axis-shape',
                          'median over axis %r of shape %r: result shape %r, expected %r' % (ax, x0.shape, np.shape(r), want_shape)):
            return
        n = lanes.shape[-1]
        evenflag = bool(case['even']) and bool(case.get('evengiven'))
        out.count('median_axis_with_even' if case.get('evengiven') else 'median_axis_alone')
        if 1 in x0.shape and x0.ndim >= 2:
            out.count('median_axis_on_array_with_unit_dimension')
        if n == 1:
            out.count('median_axis_along_unit_dimension')
        if x0.ndim == 3:
            out.count('median_axis_on_3d_array')
        if n % 2 == 0 and not evenflag:
            out.count('median_axis_even_count_without_even_not_judged')
            out.nontrivial = False
            return
        g = np.asarray(r, dtype=float).reshape(-1)
        for k, lane in enumerate(lanes.reshape(-1, n)):
            exp, how, (lo, hi) = R.median_ref([float(v) for v in lane], evenflag)
            if exp != exp or abs(exp) == float('inf'):
                ok = (g[k] != g[k]) if exp != exp else g[k] == exp
            elif how == 'even-mean':
                ok = abs(g[k] - exp) <= TOL[dt] * max(abs(lo), abs(hi))
            else:
                ok = g[k] == exp
            out.expect(ok, 'median-axis', 'lane %d along axis %r (%d values, %s): got %r expected %r' % (k, ax, n, how, g[k], exp))
        out.count('median_axis_lanes_judged', len(g))
        out.nontrivial = n >= 2
        out.info['axis'], out.info['shape'] = ax, case['shape']

    def _run_run1d(self, case, out):
        x0 = np.array(case['x'], dtype=case['dtype'])
        lay = case.get('layout', 'contig')
        x, base, snap = self._present(out, 'run1d', x0, lay)
        kw = dict(case.get('opts', {}))
        self._count_opts(out, kw)
        try:
            r = self.P.median(x, case['w'], **kw)
        except ValueError as e:
            # scipy.signal.medfilt refuses non-native byte order outright ("dtype=>f8 is not supported by
            # medfilt"): a loud refusal by the collaborator, not a wrong value; recorded, not judged here
            if x.dtype.byteorder == '>' and 'not supported by medfilt' in str(e):
                out.count('run1d_bigendian_refused_by_scipy_medfilt')
                out.undecide(1)
                self._unmodified(out, 'run1d', lay, base, snap)
                return
            raise
        self._unmodified(out, 'run1d', lay, base, snap)
        exp, inner = R.running_median_1d([float(v) for v in x0], case['w'])
        n = self._cmp_running(out, r, x0, exp, inner, 'run1d', case['w'])
        out.count('run1d_interior_points', n)
        if x0.size <= 2:
            out.count('run1d_length_1_or_2')
        if x0.size >= 200:
            out.count('run1d_length_ge_200')
        if _nonfinite(case['x']) and n:
            out.count('run_inputs_with_infinities')
        if case['w'] >= 3 and n:
            out.count('run1d_width_ge3_cases')
        if not x.flags.c_contiguous and case['w'] >= 3:
            out.count('run1d_noncontiguous_interior_points', n)
        if lay != 'contig':
            self._consistent(out, 'run1d', lay, r, self.P.median(x0.copy(), case['w'], **kw))
        out.nontrivial = n > 0 and x0.size >= 2
        out.info['n'], out.info['w'], out.info['layout'] = int(x0.size), case['w'], lay

    def _run_run2d(self, case, out):
        x0 = np.array(case['x'], dtype=case['dtype']).reshape(case['shape'])
        lay = case.get('layout', 'contig')
        x, base, snap = self._present(out, 'run2d', x0, lay)
        kw = dict(case.get('opts', {}))
        self._count_opts(out, kw)
        r = self.P.median(x, width=case['w'], **kw)
        self._unmodified(out, 'run2d', lay, base, snap)
        exp, inner = R.running_median_2d([[float(v) for v in row] for row in x0], case['w'])
        n = self._cmp_running(out, r, x0, exp, inner, 'run2d', case['w'])
        out.count('run2d_interior_points', n)
        if _nonfinite(case['x']) and n:
            out.count('run_inputs_with_infinities')
        if case['shape'][0] != case['shape'][1] and case['w'] >= 3:
            out.count('run2d_nonsquare_width_ge3')
        nr_, nc_ = case['shape']
        if case['w'] >= 3:
            if nr_ == 1 and nc_ >= case['w']:
                out.count('run2d_single_row_width_ge3_all_pixels_untouched')
            if nc_ == 1 and nr_ >= case['w']:
                out.count('run2d_single_column_width_ge3_all_pixels_untouched')
            if min(nr_, nc_) > 1 and case['w'] > min(nr_, nc_):
                out.count('run2d_width_between_the_two_dimensions')
        if nr_ == 1 and nc_ == 1:
            out.count('run2d_shape_1x1')
        if not x.flags.c_contiguous and case['w'] >= 3:
            out.count('run2d_noncontiguous_interior_points', n)
        if lay != 'contig':
            self._consistent(out, 'run2d', lay, r, self.P.median(x0.copy(), width=case['w'], **kw))
        out.nontrivial = (n > 0 or case['w'] >= 3) and x0.size >= 2     # all-edge images decide the untouched clause
        out.info['shape'], out.info['w'], out.info['layout'] = case['shape'], case['w'], lay

    def _run_uniq(self, case, out):
        x0 = np.array(case['x'], dtype=case['dtype'])
        lay = case.get('layout', 'contig')
        x, base, snap = self._present(out, 'uniq', x0, lay)
        idx = case['index']
        if idx is None:
            r = self.P.uniq(x)
            r2 = self.P.uniq(x0.copy()) if lay != 'contig' else None
            ilay = 'contig'
        else:
            i0 = np.array(idx, dtype=case['idtype'])
            ilay = case.get('ilayout', 'contig')
            iv, ibase, isnap = self._present(out, 'uniqindex', i0, ilay)
            r = self.P.uniq(x, iv)
            self._unmodified(out, 'uniq', ilay, ibase, isnap, 'index')
            r2 = self.P.uniq(x0.copy(), i0.copy()) if (lay != 'contig' or ilay != 'contig') else None
            out.count('uniq_index_calls')
        self._unmodified(out, 'uniq', lay, base, snap)
        exp = R.uniq_ref(case['x'], idx)
        ok = isinstance(r, np.ndarray) and r.ndim == 1 and r.dtype.kind in 'iu'
        if not out.expect(ok, 'uniq-type', 'result is not a 1-D integer array', got=repr(r)[:200]):
            return
        got = [int(v) for v in r]
        n = len(case['x'])
        const = len(exp) == 1
        clause = 'uniq-sorted' if idx is None else ('uniq-index-constant' if const else 'uniq-index')
        out.expect(got == exp, clause,
                   'subscripts of the last element of each run (layout %s/%s): got %r expected %r' % (
                       lay, ilay, got[:20], exp[:20]), x=case['x'], index=idx)
        if const:
            out.count('uniq_constant_arrays')
            if idx is not None and idx[-1] != n - 1:
                out.count('uniq_constant_with_nonidentity_index')
        if len(exp) < n:
            out.count('uniq_runs_longer_than_1')
        if case['dtype'][0] == 'f':
            xs = case['x'] if idx is None else [case['x'][j] for j in idx]
            for a, b in zip(xs[:-1], xs[1:]):
                if a == b and a in (float('inf'), float('-inf')):
                    out.count('uniq_runs_of_equal_infinities')
                    break
        elif case['dtype'] == '?':
            out.count('uniq_bool_arrays')
        elif case['dtype'] in 'US':
            out.count('uniq_string_arrays')
        elif case['dtype'][0] == 'u':
            out.count('uniq_unsigned_arrays')
        out.count('uniq_runs', len(exp))
        if n <= 2:
            out.count('uniq_length_1_or_2')
        if n >= 2 and not (x.flags.c_contiguous and (idx is None or iv.flags.c_contiguous)):
            out.count('uniq_noncontiguous_calls')
        if r2 is not None:
            self._consistent(out, 'uniq', lay + '/' + ilay, r, r2)
        out.nontrivial = n >= 2
        out.info['n'], out.info['runs'], out.info['layout'] = n, len(exp), lay + '/' + ilay

    def _run_rebin(self, case, out):
        dt = case['dtype']
        x0 = np.array(case['x'], dtype=dt).reshape(case['shape'])
        lay = case.get('layout', 'contig')
        x, base, snap = self._present(out, 'rebin', x0, lay)
        d = tuple(int(v) for v in case['d'])
        sample = case['sample']

        ff = case.get('flagform', 'bool')
        if ff != 'bool':
            out.count('flag_given_as_int_or_numpy_bool')

        def call(arr):
            if sample:
                return self.P.rebin(arr, d, sample=_flag(True, ff))
            return self.P.rebin(arr, d) if ff == 'bool' else self.P.rebin(arr, d, sample=_flag(False, ff))
        r = call(x)
        self._unmodified(out, 'rebin', lay, base, snap)
        # order of sample / interpolating calls per enlarged (n0, n) pair within this process (evidence that
        # state left behind by one kind of call would be met by the other kind; verdicts do not depend on it)
        for n0, n in zip(x0.shape, d):
            if n > n0:
                prev = self._pair_hist.setdefault((n0, n), set())
                if sample and 'I' in prev:
                    out.count('rebin_sample_after_interpolation_same_pair_in_process')
                if not sample and 'S' in prev:
                    out.count('rebin_interpolation_after_sample_same_pair_in_process')
                prev.add('S' if sample else 'I')
        ok = out.expect(isinstance(r, np.ndarray) and tuple(r.shape) == d, 'rebin-shape',
                        'result shape %r is not the requested %r' % (getattr(r, 'shape', None), d))
        if not ok:
            return
        out.expect(_same_kind(r.dtype, x.dtype), 'rebin-dtype', 'result dtype %s, input dtype %s' % (r.dtype, x.dtype))
        plans = [R.axis_plan(x0.shape[k], d[k], sample) for k in range(x0.ndim)]
        if sample:
            exp = R.rebin_pick_ref(x0, d)
            bad = ~_eqnan(r, exp)
            b = _first_bad(bad)
            if dt == '?':
                out.count('rebin_sample_bool_inputs')
            elif dt[0] == 'f' and _nonfinite(case['x']):
                out.count('rebin_sample_nonfinite_inputs')
            out.expect(b is None, 'rebin-sample',
                       'sample=True must pick input pixel floor(i*d0/d) on every axis (layout %s): first wrong element %s got %r expected %r'
                       % (lay, b, r[tuple(b)].item() if b else None, exp[tuple(b)].item() if b else None),
                       shape=case['shape'], d=list(d))
            out.count('rebin_sample_calls')
            rel = ''.join(sorted({'E' if d[k] > x0.shape[k] else ('K' if d[k] == x0.shape[k] else 'S')
                                  for k in range(x0.ndim)}))
            out.count('rebin_sample_with_axes_' + rel)
            if case.get('fragile'):
                out.count('rebin_sample_fragile_pairs')
            for k, p in enumerate(plans):
                if d[k] > x0.shape[k]:
                    out.count('rebin_sample_expand_axes')
                elif d[k] < x0.shape[k]:
                    out.count('rebin_sample_shrink_axes')
            allowed = None
        elif dt[0] == 'f' and _nonfinite(case['x']):
            # +-inf / NaN inputs: judge exactly what edge-clamped interpolation / block averaging fixes
            ref, known = R.rebin_float_claims(x0, d)
            fin0 = np.isfinite(x0)
            mag = float(np.max(np.abs(x0[fin0]))) if fin0.any() else 0.0
            g = np.asarray(r).astype(np.longdouble)
            reffin = np.isfinite(ref)
            with np.errstate(invalid='ignore'):
                bad_fin = known & reffin & ~(np.abs(g - ref) <= TOL[dt] * mag)
                bad_non = known & ~reffin & ~_eqnan(g, ref)
            b = _first_bad(bad_fin)
            out.expect(b is None, 'rebin-float-beside-nonfinite',
                       'output computed from finite pixels only must not be affected by a non-finite pixel elsewhere '
                       '(layout %s): first wrong element %s got %r expected %r' % (
                           lay, b, r[tuple(b)].item() if b else None, float(ref[tuple(b)]) if b else None),
                       shape=case['shape'], d=list(d))
            b = _first_bad(bad_non)
            out.expect(b is None, 'rebin-nonfinite-copy',
                       'edge clamp / copy / one-signed block: the output must be the non-finite value itself '
                       '(layout %s): first wrong element %s got %r expected %r' % (
                           lay, b, r[tuple(b)].item() if b else None, float(ref[tuple(b)]) if b else None),
                       shape=case['shape'], d=list(d))
            out.count('rebin_nonfinite_interpolating_calls')
            out.count('rebin_outputs_fixed_to_a_nonfinite_value', int((known & ~reffin).sum()))
            out.count('rebin_finite_outputs_beside_nonfinite_input', int((known & reffin).sum()))
            out.count('rebin_outputs_without_claim', int((~known).sum()))
            for k in range(x0.ndim):
                if d[k] > x0.shape[k]:
                    xa = np.moveaxis(x0, k, 0)
                    if not np.isfinite(xa[-1]).all():
                        out.count('rebin_nonfinite_last_pixel_of_enlarged_axis')
                        if np.isinf(xa[-1]).any():
                            out.count('rebin_infinite_last_pixel_of_enlarged_axis')
                    if not np.isfinite(xa[0]).all():
                        out.count('rebin_nonfinite_first_pixel_of_enlarged_axis')
                    if xa.shape[0] > 2 and not np.isfinite(xa[1:-1]).all():
                        out.count('rebin_nonfinite_interior_pixel_of_enlarged_axis')
                elif d[k] < x0.shape[k]:
                    out.count('rebin_nonfinite_input_on_shrunk_axis')
            allowed = 2 * TOL[dt] * mag
        elif dt[0] == 'f':
            ref = R.rebin_float_ref(x0, d, False)
            mag = float(np.max(np.abs(x0))) if x0.size else 0.0
            err = np.abs(np.asarray(r).astype(np.longdouble) - ref)
            if mag > 0:
                self._err('rebin_' + dt, float(err.max()) / mag)
            bad = ~(err <= TOL[dt] * mag)
            b = _first_bad(bad)
            out.expect(b is None, 'rebin-float',
                       'first element off by more than %g*max|x| (layout %s): %s got %r expected %r' % (
                           TOL[dt], lay, b, r[tuple(b)].item() if b else None, float(ref[tuple(b)]) if b else None),
                       shape=case['shape'], d=list(d), max_err=float(err.max()), magnitude=mag)
            allowed = 2 * TOL[dt] * mag
        else:
            lo, hi = R.rebin_int_bounds(x0, d)
            ro = np.asarray(r).astype(object)
            bad = np.array(ro < lo, dtype=bool) | np.array(ro > hi, dtype=bool)
            b = _first_bad(bad)
            out.expect(b is None, 'rebin-integer',
                       'first element farther than 1 from the exact value (layout %s): %s got %r allowed [%r, %r]' % (
                           lay, b, r[tuple(b)].item() if b else None, lo[tuple(b)] if b else None,
                           hi[tuple(b)] if b else None), shape=case['shape'], d=list(d), dtype=dt)
            out.count('rebin_integer_elements_with_point_interval', int(np.array(lo == hi, dtype=bool).sum()))
            allowed = None          # identical element-wise arithmetic whatever the layout
        if dt[0] in 'iu':
            out.count('rebin_integer_dtype_cases')
        if not sample:
            for k, p in enumerate(plans):
                frac, onpix, means = R.plan_stats(p, x0.shape[k])
                out.count('rebin_lerp_fractional_positions', frac)
                out.count('rebin_positions_exactly_on_a_sample', onpix)
                out.count('rebin_block_means', means)
        modes = ''.join('E' if d[k] > x0.shape[k] else ('K' if d[k] == x0.shape[k] else 'S') for k in range(x0.ndim))
        out.count('rebin_combo_' + modes)
        if 'E' in modes and 'S' in modes:
            out.count('rebin_mixed_expand_and_shrink')
        if x0.ndim >= 2:
            for k in range(x0.ndim):
                if x0.shape[k] == 1:
                    out.count('rebin_unit_axis_kept' if d[k] == 1 else 'rebin_unit_axis_enlarged')
                elif d[k] == 1:
                    out.count('rebin_axis_shrunk_to_unit')
            nunit = sum(1 for v in x0.shape if v == 1)
            if nunit == x0.ndim:
                out.count('rebin_all_axes_unit_input')
            elif nunit == x0.ndim - 1:
                out.count('rebin_single_row_or_column_input' + ('_3d' if x0.ndim == 3 else ''))
        for k in range(x0.ndim):
            big, small = max(d[k], x0.shape[k]), min(d[k], x0.shape[k])
            if big // small >= 49:
                out.count('rebin_shrink_factor_ge_49' if d[k] < x0.shape[k] else 'rebin_expand_factor_ge_49')
                if x0.ndim > 1:
                    out.count('rebin_factor_ge_49_in_2d_or_3d')
                if dt[0] in 'iu':
                    out.count('rebin_factor_ge_49_integer_dtype')
                if big // small in self.fragile_factors() and d[k] < x0.shape[k]:
                    out.count('rebin_shrink_by_float_fragile_factor' + ('_sample' if sample else '_mean'))
        if not x.flags.c_contiguous and modes.strip('K'):
            out.count('rebin_noncontiguous_resized_calls')
        if lay != 'contig':
            self._consistent(out, 'rebin', lay, r, call(x0.copy()), allowed=allowed)
        out.nontrivial = modes.strip('K') != ''
        out.info['modes'], out.info['shape'], out.info['d'], out.info['layout'] = modes, case['shape'], list(d), lay

    # ------------------------------------------------------------------ long arrays (sizes at 2**15, 2**16, 2**31/size)
    def _gen_long(self, rng, i):
        table = [
            {'kind': 'rebin', 'shape': [40000], 'd': [80000], 'dtype': 'f8', 'sample': False},
            {'kind': 'rebin', 'shape': [32769], 'd': [65538], 'dtype': 'i4', 'sample': True},
            {'kind': 'rebin', 'shape': [2, 33000], 'd': [1, 66000], 'dtype': 'f4', 'sample': False},
            {'kind': 'rebin', 'shape': [23171], 'd': [92684], 'dtype': 'f8', 'sample': True},
            {'kind': 'rebin', 'shape': [92684], 'd': [23171], 'dtype': 'i4', 'sample': False},
            {'kind': 'rebin', 'shape': [32768], 'd': [65536], 'dtype': 'i4', 'sample': False},
            {'kind': 'smooth', 'n': 65537, 'w': 257, 'trunc': False, 'dtype': 'f8'},
            {'kind': 'smooth', 'n': 32767, 'w': 256, 'trunc': True, 'dtype': 'f4'},
            {'kind': 'run1d', 'n': 32769, 'w': 255, 'dtype': 'f8'},
            {'kind': 'median', 'n': 65536, 'even': False, 'dtype': 'f8'},
            {'kind': 'median', 'n': 65537, 'even': True, 'dtype': 'f4'},
            {'kind': 'uniq', 'n': 65537, 'index': False, 'dtype': 'i4'},
            {'kind': 'uniq', 'n': 65537, 'index': True, 'dtype': 'f8'},
        ]
        if i < len(table):
            c = dict(table[i])
        else:
            kind = ['rebin', 'rebin', 'rebin', 'smooth', 'smooth', 'run1d', 'median', 'uniq'][i % 8]
            if kind == 'rebin':
                L = rng.choice([23171, 32768, 32769, 40000, 46341, 65536, 70000])
                f = rng.choice([2, 3, 4]) if L < 60000 else rng.choice([2, 2, 3])
                shrink = rng.random() < 0.3
                shape, d = ([L * f], [L]) if shrink else ([L], [L * f])
                if rng.random() < 0.4:                                   # one axis of a 2-D array, tiny other axis
                    o0, o1 = rng.choice([(1, 1), (2, 2), (2, 1), (1, 2), (3, 3)])
                    shape, d = ([o0] + shape, [o1] + d) if rng.random() < 0.5 else (shape + [o0], d + [o1])
                c = {'kind': 'rebin', 'shape': shape, 'd': d, 'dtype': rng.choice(['f8', 'f4', 'i4']),
                     'sample': rng.random() < 0.5}
            elif kind == 'smooth':
                c = {'kind': 'smooth', 'n': rng.choice([32767, 32768, 32769, 65535, 65536, 65537]),
                     'w': rng.choice([255, 256, 257, 127, 128, 129, 2, 3]), 'trunc': rng.random() < 0.5,
                     'dtype': rng.choice(['f8', 'f4'])}
            elif kind == 'run1d':
                c = {'kind': 'run1d', 'n': rng.choice([32767, 32768, 32769, 65535, 65536, 65537]),
                     'w': rng.choice([255, 257, 127, 129, 3]), 'dtype': rng.choice(['f8', 'f4'])}
            elif kind == 'median':
                c = {'kind': 'median', 'n': rng.choice([32767, 32768, 32769, 65535, 65536, 65537]),
                     'even': rng.random() < 0.5, 'dtype': rng.choice(['f8', 'f4'])}
            else:
                c = {'kind': 'uniq', 'n': rng.choice([32767, 32768, 32769, 65535, 65536, 65537]),
                     'index': rng.random() < 0.5, 'dtype': rng.choice(['i4', 'i8', 'f8', 'i2'])}
        c['fn'] = 'long'
        c['xseed'] = rng.getrandbits(48)
        c['layout'] = _pick_layout(rng, len(c['shape']) if 'shape' in c else 1)
        return c

    def _long_data(self, case, n):
        g = np.random.default_rng(case['xseed'])
        dt = case['dtype']
        if case['kind'] == 'uniq':
            v = np.sort(g.integers(-n // 6, n // 6, size=n))
            return v.astype(dt) if dt[0] == 'i' else (v * 0.25).astype(dt)
        if dt[0] == 'i':
            return g.integers(-2**31, 2**31 - 1, size=n, endpoint=True).astype(dt)
        return (g.normal(size=n) * 50.0).astype(dt)

    def _run_long(self, case, out):
        kind = case['kind']
        lay = case.get('layout', 'contig')
        dt = case['dtype']
        out.count('long_' + kind + '_cases')
        out.nontrivial = True
        out.info = {'kind': kind, 'layout': lay}
        if kind == 'rebin':
            shape, d = case['shape'], tuple(int(v) for v in case['d'])
            x0 = self._long_data(case, _prod(shape)).reshape(shape)
            x, base, snap = self._present(out, 'rebinlong', x0, lay)
            r = self.P.rebin(x, d, sample=True) if case['sample'] else self.P.rebin(x, d)
            self._unmodified(out, 'rebin', lay, base, snap)
            if not out.expect(isinstance(r, np.ndarray) and tuple(r.shape) == d, 'rebin-shape',
                              'result shape %r is not the requested %r' % (getattr(r, 'shape', None), d)):
                return
            out.expect(_same_kind(r.dtype, x.dtype), 'rebin-dtype', 'result dtype %s, input dtype %s' % (r.dtype, x.dtype))
            for n0, n1 in zip(shape, d):
                if n1 > n0 and (n1 - 1) * n0 >= 2**31:
                    out.count('rebin_long_axis_index_product_ge_2**31' + ('_sample' if case['sample'] else '_interpolating'))
                if n1 > n0 and n0 >= 2**15 and (n1 - 1) * n0 < 2**31:
                    out.count('rebin_long_axis_index_product_just_below_2**31')
                if n1 < n0 and n0 >= 40000:
                    out.count('rebin_long_axis_shrunk')
            if len(shape) > 1:
                out.count('rebin_long_axis_in_2d')
            if case['sample'] or dt[0] == 'f':
                ref = R.rebin_float_ref_fast(x0, d, case['sample']) if dt[0] == 'f' else None
            if case['sample']:
                exp = x0
                for k in range(x0.ndim):
                    exp = np.take(exp, R._axis_tables(x0.shape[k], d[k], True)[1], axis=k)
                b = _first_bad(np.asarray(r) != exp)
                out.expect(b is None, 'rebin-sample',
                           'sample=True must pick input pixel floor(i*d0/d) (long axis, layout %s): first wrong element %s got %r expected %r'
                           % (lay, b, r[tuple(b)].item() if b else None, exp[tuple(b)].item() if b else None),
                           shape=shape, d=list(d))
            elif dt[0] == 'f':
                mag = float(np.max(np.abs(x0)))
                err = np.abs(np.asarray(r).astype(np.longdouble) - ref)
                self._err('rebin_' + dt, float(err.max()) / mag)
                b = _first_bad(~(err <= TOL[dt] * mag))
                out.expect(b is None, 'rebin-float',
                           'long axis (layout %s): first element off by more than %g*max|x|: %s got %r expected %r' % (
                               lay, TOL[dt], b, r[tuple(b)].item() if b else None, float(ref[tuple(b)]) if b else None),
                           shape=shape, d=list(d))
            else:
                lo, hi = R.rebin_int_bounds_fast(x0, d)
                ri = np.asarray(r).astype(np.int64)
                b = _first_bad((ri < lo) | (ri > hi))
                out.expect(b is None, 'rebin-integer',
                           'long axis (layout %s): first element farther than 1 from the exact value: %s got %r allowed [%r, %r]' % (
                               lay, b, r[tuple(b)].item() if b else None, int(lo[tuple(b)]) if b else None,
                               int(hi[tuple(b)]) if b else None), shape=shape, d=list(d))
            return
        n = case['n']
        x0 = self._long_data(case, n)
        if kind == 'uniq' and case['index']:
            g = np.random.default_rng(case['xseed'] + 1)
            perm = g.permutation(n)
            xs = x0.copy()
            x0 = np.empty_like(xs)
            x0[perm] = xs                                   # x0[perm[k]] = sorted value k
            idx = perm.astype('i8')                          # hence x0[idx] is sorted
        x, base, snap = self._present(out, kind + 'long', x0, lay)
        if kind == 'smooth':
            w = case['w']
            r = self.P.smooth(x, w, True) if case['trunc'] else self.P.smooth(x, w)
            self._unmodified(out, 'smooth', lay, base, snap)
            if not out.expect(isinstance(r, np.ndarray) and r.shape == x0.shape, 'smooth-shape', 'shape differs'):
                return
            val, touched = R.smooth_ref_fast(x0, w, case['trunc'])
            scale, _ = R.smooth_ref_fast(np.abs(x0), w, case['trunc'])
            g = np.asarray(r).astype(np.longdouble)
            b = _first_bad(~touched & (g != val))
            out.expect(b is None, 'smooth-edge-untouched', 'long array n=%d width %d: point %s must be left untouched' % (n, w, b))
            err = np.abs(g - val)
            self._err('smooth_' + dt, float((err[touched] / scale[touched]).max()) if touched.any() else 0.0)
            b = _first_bad(touched & ~(err <= TOL[dt] * scale))
            out.expect(b is None, 'smooth-interior' if not case['trunc'] else 'smooth-edge-truncate',
                       'long array n=%d width %d (layout %s): point %s got %r, window mean %r' % (
                           n, w, lay, b, float(g[tuple(b)]) if b else None, float(val[tuple(b)]) if b else None))
            out.count('long_smooth_points', int(touched.sum()))
        elif kind == 'run1d':
            w = case['w']
            r = self.P.median(x, w)
            self._unmodified(out, 'run1d', lay, base, snap)
            exp, inner = R.running_median_1d_fast(x0, w)
            m = self._cmp_running(out, r, x0, exp, inner, 'run1d', w)
            out.count('long_run1d_interior_points', m)
        elif kind == 'median':
            r = self.P.median(x, even=True) if case['even'] else self.P.median(x)
            self._unmodified(out, 'median', lay, base, snap)
            exp, how, (lo, hi) = R.median_ref([float(v) for v in x0], case['even'])
            g = float(r)
            if how == 'even-mean':
                out.expect(abs(g - exp) <= TOL[dt] * max(abs(lo), abs(hi)), 'median-even-mean',
                           'long array n=%d: got %r, mean of middle values %r' % (n, g, exp))
            else:
                out.expect(g == exp, 'median-' + how, 'long array n=%d (%s): got %r expected %r' % (n, how, g, exp))
        else:
            xl = [v.item() for v in x0]
            if case['index']:
                iv, ibase, isnap = self._present(out, 'uniqindexlong', idx, case.get('layout', 'contig'))
                r = self.P.uniq(x, iv)
                self._unmodified(out, 'uniq', lay, ibase, isnap, 'index')
                exp = R.uniq_ref(xl, [int(v) for v in idx])
            else:
                r = self.P.uniq(x)
                exp = R.uniq_ref(xl)
            self._unmodified(out, 'uniq', lay, base, snap)
            got = [int(v) for v in np.asarray(r).ravel()]
            out.expect(got == exp, 'uniq-index' if case['index'] else 'uniq-sorted',
                       'long array n=%d: %d run ends returned, %d expected; first difference at position %s' % (
                           n, len(got), len(exp), next((k for k, (a, b) in enumerate(zip(got, exp)) if a != b), min(len(got), len(exp)))))
            out.count('long_uniq_runs', len(exp))

    def _run_rebin_reject(self, case, out):
        dt = case['dtype']
        shape = case['shape']
        x = (np.arange(_prod(shape)) % 200).astype(dt).reshape(shape)
        d = tuple(int(v) for v in case['d'])
        rank = case['why'] in ('rank+', 'rank-')
        clause = 'rebin-valueerror-rank' if rank else 'rebin-valueerror-nonintegral'
        try:
            r = self.P.rebin(x, d, sample=case['sample'])
        except ValueError:
            out.checks += 1
            out.count('rebin_valueerror_rank' if rank else 'rebin_valueerror_nonintegral')
            out.count('rebin_reject_' + case['why'])
            if max(max(shape), max(d)) >= 49 and not rank:
                out.count('rebin_valueerror_nonintegral_sizes_ge_49')
        except Exception as e:
            out.fail(clause, 'rebin%r -> %r raised %s instead of ValueError: %s' % (tuple(shape), d, type(e).__name__, e))
        else:
            out.fail(clause, 'rebin%r -> %r returned an array of shape %r instead of raising ValueError' % (
                tuple(shape), d, getattr(r, 'shape', None)))
        out.nontrivial = True
        out.info['shape'], out.info['d'], out.info['why'] = shape, list(d), case['why']

    def classify(self, case, out):
        # open finding F-I3 (IDL-faithful): uniq(x, index) on a constant array returns n-1, not index[n-1]
        if out.fails and all(f['clause'] == 'uniq-index-constant' for f in out.fails):
            return 'uniq_constant_with_index'
        return None

    def summarise(self, case):
        c = dict(case)
        if c.get('fn') == 'xwork':
            return {'fn': 'xwork', 'driver': c['driver'], 'driver_class': c.get('dcls'), 'files': c.get('files')}
        if isinstance(c.get('x'), list) and len(c['x']) > 24:
            c['x'] = c['x'][:24] + ['... %d values in all' % len(case['x'])]
        if isinstance(c.get('index'), list) and len(c['index']) > 24:
            c['index'] = c['index'][:24] + ['...']
        return c


CHECK = C14()
