"""C03 - yanny: object and file never diverge over write/append histories.

Events: every write()/append()/constructor call on the object under test (with the exception it raised, if any);
after each operation the object's tables/pairs, a fresh yanny(filename) read, the raw bytes of every file in the
sandbox directory and the audit-hook `open` events (path, mode) emitted during the operation.
Oracle: a history model {tables: rows, pairs: ordered dict, files: {path: bytes}, bound: path} advanced by the
operation list (offline-style history check done online after every step).
"""
import os
import warnings
import numpy as np
from vlib.harness import Check
from vlib.monitors import AuditLog, audit_jsonable
from vlib.refs import yanny_model as M


class C03(Check):
    ID = 'C03'
    RULE = ('histories of 1-12 operations over {append rows (list form / record-array form, upper- or lower-case table '
            'key, 1-3 tables at once, 1-4 rows), append pairs (new and repeated keys, int/float/str values), rows+pairs '
            'in one call, append-empty, write-copy under a new name (history continues on the copy), write over an '
            'existing file, append to a file removed behind the object (then re-created by write), re-read normal/raw, '
            'write without filename, append whose write fails with a real EFBIG (RLIMIT_FSIZE)} starting from generated table sets (hostile strings, arrays, enums, zero-row '
            'tables); start files as an editor or another tool leaves them (last line - a row, a pair, a definition, a comment - not '
            'terminated by a line feed, trailing blanks, blank lines, CR LF line ends); rows as record arrays in several memory layouts, as '
            'np.recarray, with the fields declared in another order than the table columns, as dicts of lists / tuples / column arrays / '
            'plain Python values with the keys in any order, pairs before or after the tables in the dict; '
            'every row carries a unique id.  Non-trivial: history with >=1 successful append and >=1 refusal or '
            're-read; distinct by hash of start state + operation list.')
    ASSUMPTIONS = ['appended pair keys are not table names or "symbols" (documented skip); timestamps in the "# Appended by" '
                   'comment are never compared (parsed content and byte prefixes only)',
                   'the audit hook sees every open() made through the io layer (builtin open / io.open)']
    REQUIRED_COUNTERS = ('append_write_failures', 'unsized_char_histories', 'appends_ok', 'refusals_write_over', 'refusals_append_missing', 'append_empty', 'write_copy',
                         'rereads_raw', 'prefix_checks', 'audit_open_events', 'lowercase_key_appends', 'array_form_appends', 'append_zero_rows', 'refusals_write_over_empty_file', 'append_encode_failures',
                         'appends_to_unterminated_file', 'appends_to_unterminated_row', 'appends_to_unterminated_pair', 'appends_to_crlf_file',
                         'permuted_field_appends', 'recarray_appends', 'permuted_key_appends', 'python_value_appends')

    def setup(self):
        import pydl.pydlutils.yanny as Y
        import pydl.pydlutils as PU
        self.Y = Y
        self.PU = PU
        self.audit = AuditLog.get()
        for f in (Y.yanny.append, Y.yanny.write, Y.yanny._parse, Y.yanny.__init__):
            self.reach.add(f)
        self.rec.wrap(Y.yanny, 'append')
        self.rec.wrap(Y.yanny, 'write')
        self._n = 0

    def teardown(self):
        self.rec.unwrap_all()

    def budget(self, tier):
        k = 1 if tier == 'quick' else 80
        return {'histories': 500 * k, 'raw_histories': 150 * k, 'zero_row_start': 100 * k, 'unsized_char_start': 200 * k,
                'open_ended_start': 250 * k}

    # ------------------------------------------------------------------ gen
    def gen(self, cls, rng, i):
        ntab = rng.choice([1, 1, 2, 3])
        enums = {}
        if rng.random() < 0.3 and cls != 'unsized_char_start':
            enums['STATE_T'] = ['OK', 'FAILED', 'UNKNOWN7']
        names = []
        # a third of the histories use a few common structure / column names again and again (with freshly drawn declarations):
        # many files of the same kind in one process - nothing learnt from one file may be applied to the next
        common = rng.random() < 0.33 and cls != 'unsized_char_start'
        if common:
            pool = ['EXPOSURE', 'Obj', 'TAB', 'status']
            rng.shuffle(pool)
            names = pool[:ntab]
        while len(names) < ntab:
            nm = M.ident(rng, 2, 7, suffix=False)
            nm = rng.choice([nm.upper(), nm, nm.lower()])
            if nm.upper() not in [n.upper() for n in names]:
                names.append(nm)
        uid = [0]
        tables = []
        enum_cols = set()
        for nm in names:
            cols = [{'name': 'uid', 'kind': 'i4', 'width': 0, 'alen': 0}] + \
                M.gen_cols(rng, rng.randint(1, 5), enums=enums or None, used_names={'uid'})
            if common:
                cpool = ['a', 'flag', 'mag', 'name', 'x', 'tag']
                rng.shuffle(cpool)
                for ci, c in enumerate(cols[1:1 + len(cpool)]):
                    if c['kind'] != 'enum':
                        c['name'] = cpool[ci]
            for c in cols:
                if c['kind'] == 'enum':
                    if c['name'] in enum_cols:
                        c['kind'], c['width'] = 'i2', 0
                        c.pop('enum')
                    enum_cols.add(c['name'])
            if rng.random() < 0.06 and cls != 'unsized_char_start':
                # one long numerical array column (a spectrum per row)
                cols.append({'name': 'wide', 'kind': rng.choice(M.NUMKINDS), 'width': 0, 'alen': rng.choice([1000, 1001, 1500])})
            tables.append({'name': nm, 'cols': cols, 'rows': []})
        # tables of one file share column names (besides uid) with different declarations: scalar here, array there
        if ntab >= 2 and rng.random() < 0.6:
            for t in tables[1:]:
                src = rng.choice(tables[0]['cols'][1:])
                dst = rng.choice(t['cols'][1:])
                if src['kind'] != 'enum' and dst['kind'] != 'enum' and src['name'] not in [c['name'] for c in t['cols']]:
                    dst['name'] = src['name']
                    if bool(dst['alen']) == bool(src['alen']) and dst['kind'] not in ('enum',):
                        dst['alen'] = 0 if dst['alen'] else rng.randint(1, 3)
        en = {c['name'] for t in tables for c in t['cols'] if c['kind'] == 'enum'}
        for t in tables:
            for c in t['cols']:
                if c['kind'] != 'enum' and c['name'] in en:
                    c['name'] += '_n'

        if cls == 'unsized_char_start':
            # the start file is written by the harness with 'char name[];' columns: their width is the longest value
            # currently in the table, so appended longer strings must widen the object's column too
            for t in tables:
                sc = [c for c in t['cols'] if c['kind'] == 'S' and not c['alen']]
                if not sc:
                    t['cols'].append({'name': 'note', 'kind': 'S', 'width': 3, 'alen': 0})
                    sc = [t['cols'][-1]]
                for c in sc:
                    if c is sc[0] or rng.random() < 0.6:
                        c['unsized'] = True
                        c['width'] = 3

        def mkrows(t, n):
            rows = []
            for _ in range(n):
                uid[0] += 1
                row = [uid[0]] + [M.gen_cell(rng, c, enums, extreme=rng.random() < 0.2, torture=rng.random() < 0.4)
                                  for c in t['cols'][1:]]
                rows.append(row)
            tmp = {'cols': t['cols'], 'rows': rows}
            M.fix_last_column(tmp)
            return rows
        for t in tables:
            n0 = 0 if (cls == 'zero_row_start' and rng.random() < 0.7) else rng.randint(0, 3)
            if cls == 'unsized_char_start':
                n0 = rng.randint(1, 3)
            t['rows'] = mkrows(t, n0)
            for ci, c in enumerate(t['cols']):
                if c.get('unsized'):
                    if not t['rows'][0][ci].strip():
                        t['rows'][0][ci] = 'ab'
                    c['width'] = 16          # later (appended) values may be longer than anything in the start file
        hdr = [['k0', 'v0', 'str']] if rng.random() < 0.7 else []
        ops = []
        nkeys = 0
        for step in range(rng.randint(1, 12)):
            op = rng.choice(['rows', 'rows', 'rows', 'pairs', 'both', 'empty', 'copy', 'over', 'over_other', 'missing',
                             'reread', 'nofilename', 'rows_io_fail', 'over_empty', 'pairs_encode_fail'])
            if op in ('rows', 'both', 'rows_io_fail'):
                which = rng.sample(range(ntab), rng.randint(1, min(3, ntab)))
                d = {'op': op, 'tables': [], 'form': rng.choice(['list', 'array', 'list'])}
                for ti in which:
                    d['tables'].append({'ti': ti, 'key': rng.choice(['upper', 'lower']), 'rows': mkrows(tables[ti], rng.randint(1, 4))})
                if op == 'both':
                    d['pairs'] = [self._pair(rng, nkeys, names)]
                    nkeys += 1
                ops.append(d)
            elif op == 'pairs':
                ps = []
                for _ in range(rng.randint(1, 3)):
                    ps.append(self._pair(rng, nkeys, names))
                    nkeys += 1
                ops.append({'op': 'pairs', 'pairs': ps})
            elif op == 'pairs_encode_fail':
                # an append whose LATER lines cannot be encoded (a lone surrogate, what os.fsdecode gives for a stray 8-bit byte in
                # a file name): nothing of it may reach the file
                ps = [self._pair(rng, nkeys, names), self._pair(rng, nkeys + 1, names)]
                nkeys += 2
                ps[1][1], ps[1][2] = 'calib_v\udce9rifi\udce9.fits', 'str'
                ops.append({'op': 'pairs_encode_fail', 'pairs': ps})
            elif op == 'reread':
                ops.append({'op': 'reread', 'raw': (rng.random() < 0.5) if cls != 'raw_histories' else True})
            elif op == 'empty':
                # 'appending nothing': an empty dict, tables given with zero rows (either form, either case), only 'symbols'
                how = rng.choice(['dict', 'zero_rows', 'zero_rows', 'symbols'])
                d = {'op': 'empty', 'how': how}
                if how == 'zero_rows':
                    which = rng.sample(range(ntab), rng.randint(1, min(2, ntab)))
                    d['form'] = rng.choice(['list', 'array'])
                    d['tables'] = [{'ti': ti, 'key': rng.choice(['upper', 'lower']), 'rows': []} for ti in which]
                ops.append(d)
            else:
                ops.append({'op': op})
        # ---- drawn after everything else (the streams of the older classes stay what they were) -------------------------------
        # how the caller hands the rows over: rows are addressed by column name, so neither the order of the fields of a record
        # array nor the order of the keys of a dict of columns means anything
        for o in ops:
            for tt in o.get('tables', []):
                if o['form'] == 'array':
                    tt['layout'] = rng.choice(['packed', 'view_permuted', 'aligned', 'recarray', 'fields_permuted', 'fields_permuted',
                                               'fields_permuted_recarray', 'fields_permuted_aligned'])
                else:
                    tt['layout'] = rng.choice(['lists', 'lists', 'keys_permuted', 'keys_permuted_python', 'python_lists',
                                               'column_arrays', 'tuples'])
                tt['perm_seed'] = rng.randrange(1 << 30)
            if 'tables' in o and 'pairs' in o:
                o['pairs_first'] = rng.random() < 0.5
        # how the start file ends: files come from editors and other tools, not only from this package
        ending = 'lf'
        if rng.random() < (0.7 if cls == 'open_ended_start' else 0.25):
            ending = rng.choice(['no_lf', 'no_lf', 'no_lf', 'pair_no_lf', 'pair_no_lf', 'comment_no_lf', 'blanks_no_lf', 'glued_comment_no_lf',
                                 'blank_lines', 'crlf', 'crlf_no_final'])
        end_pair = ['zz_end', rng.choice(['nobody', '12', '-3.5', 'two words', 'x;y', 'plate-3615'])]
        start = {'tables': tables, 'enums': enums, 'hdr': hdr, 'ending': ending}
        if ending == 'pair_no_lf':
            start['end_pair'] = end_pair
        return {'kind': cls, 'start': start, 'start_raw': cls == 'raw_histories', 'ops': ops}

    @staticmethod
    def _pair(rng, n, names=()):
        k = rng.choice(['k%d' % rng.randint(0, 4), 'key_%d' % n, 'K%d' % rng.randint(0, 2), M.ident(rng, 2, 6),
                        M.pair_key(rng, 2, 6, p_reserved=0.8)])
        # documented skip: keys equal to a table name (any case) or 'symbols' are not pairs
        if k.lower() == 'symbols' or k.upper() in [x.upper() for x in names]:
            k = 'key_%d' % n
        vt = rng.choice(['int', 'float', 'str', 'str'])
        if vt == 'int':
            v = rng.randint(-1000, 1000)
        elif vt == 'float':
            v = rng.choice([rng.uniform(-1, 1), 2.5, 1e-7, 1e22])
        else:
            v = rng.choice(['val %d' % n, 'a  b', 'x;y', '(z)', 'v', 'Jos\u00e9 N\u00fa\u00f1ez', '\u00b5m', '3 \u03c3 limit'])
        return [k, v, vt]

    # ------------------------------------------------------------------ model helpers
    @staticmethod
    def _raw_expected(col, cell):
        def one(x):
            k = col['kind']
            if k == 'f4':
                return float(str(np.float32(M.unfbits(x))))
            if k == 'f8':
                return float(M.unfbits(x))
            return x
        return [one(x) for x in cell] if col['alen'] else one(cell)

    @staticmethod
    def _quote(x):
        # bare words are for text without any white-space-class character (that includes VT, FF, FS..US) and without '#'
        return '"%s"' % x if (x == '' or '#' in x or any(ch.isspace() for ch in x)) else x

    def _render_start(self, start):
        ctype = {'i2': 'short', 'i4': 'int', 'i8': 'long', 'f4': 'float', 'f8': 'double'}
        lines = ['#%yanny', '# start file written by the harness (unsized char columns)']
        for k, v, vt in start['hdr']:
            lines.append('%s %s' % (k, v))
        for t in start['tables']:
            lines.append('typedef struct {')
            for c in t['cols']:
                if c['kind'] == 'S':
                    dims = ('[%d]' % c['alen'] if c['alen'] else '') + ('[]' if c.get('unsized') else '[%d]' % c['width'])
                    lines.append('    char %s%s;' % (c['name'], dims))
                else:
                    lines.append('    %s %s%s;' % (ctype[c['kind']], c['name'], '[%d]' % c['alen'] if c['alen'] else ''))
            lines.append('} %s;' % t['name'].upper())
        for t in start['tables']:
            for r in t['rows']:
                toks = [t['name'].upper()]
                for c, cell in zip(t['cols'], r):
                    def one(x):
                        if c['kind'] in ('f4', 'f8'):
                            v = M.unfbits(x)
                            return str(v)
                        if c['kind'] == 'S':
                            return self._quote(x)
                        return str(x)
                    toks.append('{' + ' '.join(one(x) for x in cell) + '}' if c['alen'] else one(cell))
                lines.append(' '.join(toks))
        return '\n'.join(lines) + '\n'

    def _compare_obj(self, out, y, raw, model, where):
        tabs = model['tables']
        for t in tabs:
            for ci, c in enumerate(t['cols']):
                if c.get('unsized') and t['rows']:
                    c['width'] = max(len(r[ci]) for r in t['rows'])
        up = [t['name'].upper() for t in tabs]
        out.expect(list(y.tables()) == up, 'coherence', '%s: tables %r != %r' % (where, list(y.tables()), up))
        for t in tabs:
            nm = t['name'].upper()
            if nm not in y:
                out.fail('coherence', '%s: table %s missing' % (where, nm))
                continue
            if not raw:
                M.compare_table(out, y[nm], t, '%s:%s' % (where, nm), clause='coherence')
            else:
                cols = [c['name'] for c in t['cols']]
                if not out.expect(list(y.columns(nm)) == cols, 'coherence', '%s:%s raw columns' % (where, nm)):
                    continue
                if not out.expect(y.size(nm) == len(t['rows']) if (t['rows'] or cols) else True, 'coherence',
                                  '%s:%s raw row count %s != %d' % (where, nm, y.size(nm), len(t['rows']))):
                    continue
                for ci, c in enumerate(t['cols']):
                    got = list(y[nm][c['name']])
                    exp = [self._raw_expected(c, r[ci]) for r in t['rows']]
                    same = len(got) == len(exp)
                    if same:
                        for g, e in zip(got, exp):
                            gl, el = (g, e) if c['alen'] else ([g], [e])
                            for a, b in zip(gl, el):
                                if isinstance(b, float) and b != b:
                                    same = same and a != a
                                else:
                                    same = same and a == b and type(a) is type(b)
                            same = same and len(gl) == len(el)
                    out.expect(same, 'coherence', '%s:%s.%s raw values %r != %r' % (where, nm, c['name'], got[:4], exp[:4]))
        pk = list(model['pairs'])
        out.expect(list(y.pairs()) == pk, 'coherence', '%s: pair keys %r != %r' % (where, list(y.pairs()), pk))
        for k, v in model['pairs'].items():
            if k in y:
                out.expect(y[k] == v, 'coherence', '%s: pair %s=%r expected %r' % (where, k, y[k], v))

    def _listing(self, d):
        out = {}
        for f in sorted(os.listdir(d)):
            with open(os.path.join(d, f), 'rb') as fh:
                out[f] = fh.read()
        return out

    @staticmethod
    def _permuted(names, seed):
        import random
        perm = list(names)
        random.Random(seed).shuffle(perm)
        if perm == list(names) and len(perm) > 1:
            perm = perm[1:] + perm[:1]
        return perm

    def _append_arg(self, model, op):
        dd = {}
        for tt in op.get('tables', []):
            t = model['tables'][tt['ti']]
            key = t['name'].upper() if tt['key'] == 'upper' else t['name'].lower()
            ci_of = {c['name']: i for i, c in enumerate(t['cols'])}
            cols = [dict(c, width=max([1] + [len(r[ci_of[c['name']]]) for r in tt['rows']])) if c.get('unsized') else c
                    for c in t['cols']]
            tmp = {'cols': cols, 'rows': tt['rows']}
            arr = M.build_array(tmp)
            names = [c['name'] for c in t['cols']]
            layout = tt.get('layout')
            if op['form'] == 'array':
                if layout is None:
                    # (cases stored before round 10) the record array in one of three memory layouts (same field order and values)
                    layout = ['packed', 'view_permuted', 'aligned'][(len(tt['rows']) + tt['ti']) % 3]
                if layout.startswith('fields_permuted'):
                    # the same fields under the same names, declared in another order (the result of a join or of a query with
                    # its own column order); values bit for bit those of arr
                    perm = self._permuted(names, tt.get('perm_seed', 0))
                    b = np.zeros(arr.shape, dtype=np.dtype([(n, arr.dtype[n]) for n in perm], align=layout.endswith('aligned')))
                    for n in names:
                        b[n] = arr[n]
                    arr = b
                elif layout in ('view_permuted', 'aligned'):
                    arr = M.relayout_fields(arr, layout, seed=tt['ti'])
                if layout.endswith('recarray'):
                    arr = arr.view(np.recarray)
                dd[key] = arr
            else:
                layout = layout or 'lists'

                def python_values(c):
                    # plain Python values where they say the same as the numpy scalar: int, double, str (a float32 stays a numpy
                    # scalar: its Python float prints with the digits of a double)
                    v = arr[c['name']].tolist()
                    if c['kind'] in ('S', 'enum'):
                        v = [[x.decode('ascii') for x in r] if c['alen'] else r.decode('ascii') for r in v]
                    elif c['kind'] == 'f4':
                        v = [arr[c['name']][k] for k in range(len(arr))]
                    return v
                if layout.endswith('python') or layout == 'python_lists':
                    colsd = {c['name']: python_values(c) for c in t['cols']}
                elif layout == 'column_arrays':
                    colsd = {c['name']: arr[c['name']] for c in t['cols']}
                elif layout == 'tuples':
                    colsd = {c['name']: tuple(arr[c['name']][k] for k in range(len(arr))) for c in t['cols']}
                else:
                    colsd = {c['name']: [arr[c['name']][k] for k in range(len(arr))] for c in t['cols']}
                if layout.startswith('keys_permuted'):
                    colsd = {n: colsd[n] for n in self._permuted(names, tt.get('perm_seed', 0))}
                dd[key] = colsd
        pairs = {k: v for k, v, vt in op.get('pairs', [])}
        if op.get('pairs_first'):
            # (a repeated key inside one call keeps its first position and its last value, as in the model)
            dd = dict(list(pairs.items()) + list(dd.items()))
        else:
            dd.update(pairs)
        return dd

    @staticmethod
    def _apply_ending(data, start):
        """the bytes of the start file as another tool would have left them; returns (bytes, pairs added at the end)"""
        e = start.get('ending', 'lf')
        body = data.rstrip(b'\n')
        if e == 'lf':
            return data, []
        if e == 'no_lf':
            return body, []
        if e == 'pair_no_lf':
            k, v = start['end_pair']
            return body + b'\n' + ('%s %s' % (k, v)).encode('ascii'), [(k, v)]
        if e == 'comment_no_lf':
            return body + b'\n# end of file', []
        if e == 'blanks_no_lf':
            return body + b' \t ', []
        if e == 'glued_comment_no_lf':
            return body + b'#checked', []
        if e == 'blank_lines':
            return body + b'\n\n   \n\n', []
        if e == 'crlf':
            return data.replace(b'\n', b'\r\n'), []
        if e == 'crlf_no_final':
            return body.replace(b'\n', b'\r\n'), []
        raise ValueError(e)

    # ------------------------------------------------------------------ run
    def run(self, case, out):
        Y = self.Y
        self._n += 1
        d = os.path.join(self.workdir, 'h%d' % self._n)
        os.makedirs(d)
        try:
            self._run(case, out, d)
        finally:
            for f in os.listdir(d):
                os.remove(os.path.join(d, f))
            os.rmdir(d)

    def _run(self, case, out, d):
        Y = self.Y
        start = case['start']
        model = {'tables': [dict(t, rows=list(t['rows'])) for t in start['tables']],
                 'pairs': {}, 'enums': start['enums']}
        for k, v, vt in start['hdr']:
            model['pairs'][k] = str(v)
        fn = os.path.join(d, 'start.par')
        if case['kind'] == 'unsized_char_start':
            with open(fn, 'w') as f:
                f.write(self._render_start(start))
            y = Y.yanny(fn)
            out.count('unsized_char_histories')
        else:
            arrays = [M.build_array(t) for t in model['tables']]
            hdr = {k: v for k, v, vt in start['hdr']} or None
            y = Y.write_ndarray_to_yanny(fn, arrays, structnames=[t['name'] for t in model['tables']],
                                         enums=M.writer_enums(start), hdr=hdr)
        raw = False
        ending = start.get('ending', 'lf')
        if ending != 'lf':
            with open(fn, 'rb') as f:
                data = f.read()
            data, more = self._apply_ending(data, start)
            with open(fn, 'wb') as f:
                f.write(data)
            for k, v in more:
                model['pairs'][k] = v
            y = Y.yanny(fn)
        if case['start_raw']:
            y = Y.yanny(fn, raw=True)
            raw = True
        self._verify(out, y, raw, model, 'start')
        n_ok_append = n_refusal = n_reread = 0
        ncopy = 0
        for si, op in enumerate(case['ops']):
            if op['op'] == 'over_empty':
                placeholder = os.path.join(d, 'reserved%d.par' % si)
                open(placeholder, 'w').close()
            before = self._listing(d)
            bound = y.filename
            self.audit.begin()
            exc = None
            warned = []
            try:
                with warnings.catch_warnings(record=True) as w:
                    warnings.simplefilter('always')
                    if op['op'] in ('rows', 'both', 'pairs'):
                        y.append(self._append_arg(model, op))
                    elif op['op'] == 'pairs_encode_fail':
                        y.append(self._append_arg(model, op))
                    elif op['op'] == 'rows_io_fail':
                        # the write itself fails (file-size limit reached: a real EFBIG from the OS, as on a full disk)
                        import resource
                        soft, hard = resource.getrlimit(resource.RLIMIT_FSIZE)
                        arg = self._append_arg(model, op)
                        resource.setrlimit(resource.RLIMIT_FSIZE, (os.path.getsize(bound), hard))
                        try:
                            y.append(arg)
                        finally:
                            resource.setrlimit(resource.RLIMIT_FSIZE, (soft, hard))
                    elif op['op'] == 'empty':
                        if op.get('how') == 'zero_rows':
                            y.append(self._append_arg(model, op))
                            out.count('append_zero_rows')
                        elif op.get('how') == 'symbols':
                            y.append({'symbols': y._symbols if hasattr(y, '_symbols') else {}})
                        else:
                            y.append({})
                    elif op['op'] == 'copy':
                        ncopy += 1
                        y.write(os.path.join(d, 'copy%d.par' % ncopy))
                    elif op['op'] == 'over':
                        y.write()
                    elif op['op'] == 'over_other':
                        other = [f for f in before if os.path.join(d, f) != bound]
                        target = os.path.join(d, other[0]) if other else bound
                        y.write(target)
                    elif op['op'] == 'over_empty':
                        # the target exists but holds nothing yet (a placeholder made by mkstemp() or touch): still an existing file
                        y.write(placeholder)
                    elif op['op'] == 'missing':
                        os.remove(bound)
                        try:
                            y.append({'zz_missing': '1'})
                        finally:
                            pass
                    elif op['op'] == 'reread':
                        y = Y.yanny(bound, raw=op['raw'])
                        raw = op['raw']
                    elif op['op'] == 'nofilename':
                        Y.yanny().write()
                    warned = [x for x in w if issubclass(x.category, self.PU.PydlutilsUserWarning)]
            except Exception as e:
                exc = e
            events = self.audit.end()
            opens = [(e[1], e[2]) for e in events if e[0] == 'open' and isinstance(e[1], str) and e[1].startswith(d)]
            out.count('audit_open_events', len(opens))
            after = self._listing(d)
            tag = 'step%d:%s' % (si, op['op'])
            existing = {os.path.join(d, f) for f in before}
            # audit rules: never open an existing file for writing, never open a missing file for appending
            for p, m in opens:
                if m and 'w' in m:
                    out.expect(p not in existing, 'audit', '%s: open(%s, %r) on an existing file' % (tag, os.path.basename(p), m))
                if m and 'a' in m:
                    out.expect(p in existing and (op['op'] != 'missing'), 'audit',
                               '%s: open(%s, %r) on a missing file' % (tag, os.path.basename(p), m))
            if op['op'] in ('rows', 'both', 'pairs'):
                if not out.expect(exc is None, 'append', '%s raised %s: %s' % (tag, type(exc).__name__, exc)):
                    return
                for tt in op.get('tables', []):
                    model['tables'][tt['ti']]['rows'] += tt['rows']
                    out.count('lowercase_key_appends', tt['key'] == 'lower')
                out.count('array_form_appends', op.get('form') == 'array')
                lays = [tt.get('layout') or '' for tt in op.get('tables', [])]
                out.count('permuted_field_appends', sum(x.startswith('fields_permuted') for x in lays))
                out.count('recarray_appends', sum(x.endswith('recarray') for x in lays))
                out.count('permuted_key_appends', sum(x.startswith('keys_permuted') for x in lays))
                out.count('python_value_appends', sum(x.endswith('python') or x == 'python_lists' for x in lays))
                old = before[os.path.basename(bound)]
                if not old.endswith(b'\n'):
                    # the '# Appended by' comment lands on the last line of the file: that line must still say what it said
                    out.count('appends_to_unterminated_file')
                    last = old.rsplit(b'\n', 1)[-1].strip()
                    first = last.split(None, 1)[0].upper().decode('ascii', 'replace') if last else ''
                    is_row = first in [t['name'].upper() for t in model['tables']]
                    out.count('appends_to_unterminated_row', is_row and b'#' not in last)
                    out.count('appends_to_unterminated_pair', bool(last) and not is_row and not last.startswith(b'#')
                              and not last.startswith(b'}') and b'#' not in last)
                out.count('appends_to_crlf_file', b'\r\n' in old)
                for k, v, vt in op.get('pairs', []):
                    model['pairs'][k] = str(v)
                b = os.path.basename(bound)
                out.expect(after[b].startswith(before[b]) and len(after[b]) > len(before[b]), 'prefix',
                           '%s: earlier bytes of %s not preserved by append' % (tag, b))
                out.count('prefix_checks')
                out.expect({k: v for k, v in after.items() if k != b} == {k: v for k, v in before.items() if k != b},
                           'isolation', '%s: another file changed' % tag)
                out.expect(not any(m and 'w' in m for p, m in opens), 'audit', '%s: append opened a file for writing' % tag)
                n_ok_append += 1
                out.count('appends_ok')
            elif op['op'] == 'pairs_encode_fail':
                out.expect(isinstance(exc, UnicodeError), 'io-failure', '%s: append of unencodable text did not raise UnicodeError (%r)' % (tag, exc))
                out.expect(after == before, 'io-failure', '%s: the failed append changed a file (grew by %d bytes)'
                           % (tag, sum(len(v) for v in after.values()) - sum(len(v) for v in before.values())))
                out.count('append_encode_failures')
                n_refusal += 1
            elif op['op'] == 'rows_io_fail':
                out.expect(isinstance(exc, OSError), 'io-failure', '%s: append with a failing write did not raise OSError (%r)' % (tag, exc))
                out.expect(after == before, 'io-failure', '%s: the failed append changed a file' % tag)
                out.count('append_write_failures')
                n_refusal += 1
                # object must not have taken the rows that never reached the file: compared with the model below
            elif op['op'] == 'empty':
                out.expect(exc is None, 'append-empty', '%s raised %s' % (tag, exc))
                out.expect(len(warned) >= 1, 'append-empty', '%s: no PydlutilsUserWarning' % tag)
                out.expect(after == before, 'append-empty', '%s: files changed' % tag)
                out.expect(not any(m and ('w' in m or 'a' in m or '+' in m) for p, m in opens), 'audit',
                           '%s: append of nothing opened a file for writing' % tag)
                out.count('append_empty')
            elif op['op'] == 'copy':
                if not out.expect(exc is None, 'write-copy', '%s raised %s: %s' % (tag, type(exc).__name__, exc)):
                    return
                newb = 'copy%d.par' % ncopy
                out.expect(newb in after and y.filename == os.path.join(d, newb), 'write-copy', '%s: object not bound to the copy' % tag)
                out.expect({k: v for k, v in after.items() if k != newb} == before, 'isolation', '%s: write-copy changed another file' % tag)
                out.count('write_copy')
            elif op['op'] in ('over', 'over_other', 'over_empty'):
                out.count('refusals_write_over_empty_file', op['op'] == 'over_empty')
                out.expect(isinstance(exc, self.PU.PydlutilsException), 'refusal',
                           '%s: write over an existing file did not raise PydlutilsException (%r)' % (tag, exc))
                out.expect(after == before, 'refusal', '%s: files changed by refused write' % tag)
                out.expect(y.filename == bound, 'refusal', '%s: object re-bound by refused write' % tag)
                n_refusal += 1
                out.count('refusals_write_over')
            elif op['op'] == 'missing':
                out.expect(isinstance(exc, self.PU.PydlutilsException), 'refusal',
                           '%s: append to a missing file did not raise PydlutilsException (%r)' % (tag, exc))
                b = os.path.basename(bound)
                out.expect(b not in after, 'refusal', '%s: append created the missing file' % tag)
                out.expect({k: v for k, v in after.items() if k != b} == {k: v for k, v in before.items() if k != b},
                           'isolation', '%s: another file changed' % tag)
                n_refusal += 1
                out.count('refusals_append_missing')
                # object must be unchanged: compare against the model, then re-create the file by write-new
                self._compare_obj(out, y, raw, model, tag + ':object-after-refusal')
                y.write()
                out.expect(os.path.exists(bound), 'write-new', '%s: re-creating the removed file failed' % tag)
            elif op['op'] == 'reread':
                out.expect(exc is None, 'reread', '%s raised %s' % (tag, exc))
                out.expect(after == before, 'reread', '%s: reading changed a file' % tag)
                n_reread += 1
                out.count('rereads_raw', bool(op['raw']))
            elif op['op'] == 'nofilename':
                out.expect(isinstance(exc, ValueError), 'refusal', '%s: write() without filename did not raise ValueError (%r)' % (tag, exc))
                out.expect(after == before, 'refusal', '%s: files changed' % tag)
            self._verify(out, y, raw, model, tag)
            if out.fails:
                out.info['audit'] = audit_jsonable(opens)
                return
        out.nontrivial = n_ok_append >= 1 and (n_refusal + n_reread) >= 1
        out.count('operations', len(case['ops']))

    def _verify(self, out, y, raw, model, tag):
        self._compare_obj(out, y, raw, model, tag + ':object')
        if os.path.exists(y.filename):
            z = self.Y.yanny(y.filename)
            self._compare_obj(out, z, False, model, tag + ':fresh-read')

    def summarise(self, case):
        return {'kind': case['kind'], 'tables': [(t['name'], [c['name'] + ':' + c['kind'] for c in t['cols']], len(t['rows']))
                                                 for t in case['start']['tables']],
                'ops': [dict(o, tables=[(x['ti'], x['key'], len(x['rows'])) for x in o['tables']]) if 'tables' in o else o
                        for o in case['ops']]}


CHECK = C03()
